"""C14 batching loses nothing: loader seed chain (G1), len prediction (G12/G16), item shape
(G24), bucketing typestate (G10), lossless collation (G16/G13/G2), no RNG in collation (G11)."""
from __future__ import annotations

import ast
from typing import List, Optional, Set

from rules import pure as R_pure
from sa.astutil import call_name, guards_of, kwarg, parent_map, u
from sa.defuse import ReachingDefs
from sa.model import AnalysisError, ClassInfo, own_calls, own_nodes
from sa.norm import Normalizer, ceil_div, padd, pstr
from sa.paths import PathEnumerator
from sa.resolve import bind_args
from .common import Ctx, plumbing

MOD = "_dataloaders"
COLLATE = {"spect_seq_to_batch": "x[0].size(0)", "lang_seq_to_batch": None, "context_window_seq_to_batch": None}


def run(ctx: Ctx):
    col, pkg, res = ctx.col, ctx.pkg, ctx.res
    rel = pkg.module(MOD).relname

    # ---- S1 no randomness in collation / bucketing ------------------------------------------------------
    funcs = [pkg.func(f"{MOD}::{n}") for n in COLLATE] + [pkg.func(f"{MOD}::BucketBatchSampler.__iter__"),
                                                         pkg.func(f"{MOD}::_get_bucket_batch_sampler_params"),
                                                         pkg.func(f"{MOD}::_get_batch_sampler_len")]
    for f in funcs:
        rng = R_pure.global_rng_calls(f) + [(c, "local generator") for c, _ in R_pure.local_generators(f)]
        col.ob("G11", "S1", f"{rel}::{f.qualname}::no-rng", not rng,
               f"`{rng[0][1] if rng else ''}` draws random numbers while batching: batches would differ for identical "
               f"(seed, epoch)", rel, rng[0][0].lineno if rng else f.line)

    # ---- S2 length prediction ---------------------------------------------------------------------------------
    ln = pkg.func(f"{MOD}::_get_batch_sampler_len")
    where = f"{rel}::{ln.qualname}"
    rd = ReachingDefs(ln.node)
    iters = []
    for n in own_nodes(ln.node):
        if isinstance(n, ast.comprehension):
            iters.append(n.iter)
        elif isinstance(n, ast.For):
            iters.append(n.iter)
    from sa.inline import Inliner
    inl_ln = Inliner(ln.node, rd)
    iters = [inl_ln.expand(it) for it in iters]  # `samples = s.get_samples_for_epoch(s.epoch)` is looked through
    bsn = ln.params[0].name

    def _is_sampler_iteration(it):
        t = u(it)
        for wrap in ("iter(", "list(", "tuple("):
            if t.startswith(wrap):
                t = t[len(wrap):]
        return t.startswith(f"{bsn}.sampler") or t == bsn
    samp_iters = [it for it in iters if _is_sampler_iteration(it)]
    col.floor("len_sampler_iterations", len(samp_iters), 1)
    for it in samp_iters:
        ok = isinstance(it, ast.Call) and isinstance(it.func, ast.Attribute) and it.func.attr == "get_samples_for_epoch" \
            and len(it.args) == 1 and u(it.args[0]) == u(it.func.value) + ".epoch"
        col.ob("G16", "S2", f"{where}::counts-the-epoch-iter-will-consume", ok,
               f"the length is counted over `{u(it)}`; it must be <sampler>.get_samples_for_epoch(<sampler>.epoch) - "
               f"iterating the sampler itself advances its epoch (len() would change what the loader yields), any "
               f"other epoch counts a different order", rel, it.lineno, sample=u(it))
    # no call in the length computation may mutate the sampler: no attribute stores, no iter()/next()/list() on it
    muts = [n for n in own_nodes(ln.node) if isinstance(n, ast.Attribute) and isinstance(n.ctx, ast.Store)]
    col.ob("G16", "S2", f"{where}::pure", not muts, f"`{u(muts[0]) if muts else ''}` is assigned while computing len()",
           rel, muts[0].lineno if muts else ln.line)
    pm = parent_map(ln.node)
    # the per-bucket contribution, interpreted: the body of the loop over the (bucket, count) table is run once for a grid of
    # (count, size) under both values of drop_incomplete and the increase of the accumulator compared with count // size
    # (incomplete batches dropped) / ceil(count / size) (kept). Whether the two cases are two branches, a rounding term added
    # to the count first, or one conditional expression is immaterial.
    from sa.inteval import NotEvaluable, int_eval, run_block
    got = {}
    loops = [n for n in own_nodes(ln.node) if isinstance(n, ast.For) and isinstance(n.target, ast.Tuple) and len(n.target.elts) == 2
             and all(isinstance(x, ast.Name) for x in n.target.elts) and isinstance(n.iter, ast.Call) and isinstance(n.iter.func, ast.Attribute)
             and n.iter.func.attr == "items"]
    rets_ln = [n for n in own_nodes(ln.node) if isinstance(n, ast.Return) and n.value is not None]
    if len(loops) == 1:
        lp = loops[0]
        cname = lp.target.elts[1].id
        accs_ = {n.target.id for n in ast.walk(lp) if isinstance(n, ast.AugAssign) and isinstance(n.target, ast.Name)
                 and any(isinstance(r_.value, ast.Name) and r_.value.id == n.target.id for r_ in rets_ln)}
        flag_txt = {inl_ln.text(x) for x in ast.walk(ln.node) if isinstance(x, (ast.Attribute, ast.Name)) and inl_ln.text(x).endswith(".drop_incomplete")}

        def _contrib(c_, s_, drop_):
            def leaf(e):
                t_ = inl_ln.text(e) if isinstance(e, (ast.Name, ast.Attribute)) else u(e)
                if t_ in flag_txt:
                    return drop_
                if isinstance(e, ast.Subscript) and u(e.value).endswith("bucket2size"):
                    return s_
                return None
            env = {cname: c_, "__leaf__": leaf}
            for a_ in accs_:
                env[a_] = 0
            run_block(lp.body, env)
            return {a_: env[a_] for a_ in accs_}
        for drop_ in (True, False):
            try:
                kinds = set()
                for c_ in range(0, 10):
                    for s_ in range(1, 5):
                        r_ = _contrib(c_, s_, drop_)
                        if len(r_) != 1:
                            kinds.add("?")
                            continue
                        v_ = next(iter(r_.values()))
                        kinds.add("floor" if v_ == c_ // s_ else "ceil" if v_ == -(-c_ // s_) else "?")
                # (count divisible by size: floor == ceil; the other points discriminate)
                kinds = kinds - {"?"} if not ("?" in kinds) else {"?"}
                if kinds == {"floor", "ceil"}:
                    # decide by the points where they differ
                    vals = {(c_, s_): next(iter(_contrib(c_, s_, drop_).values())) for c_ in range(0, 10) for s_ in range(1, 5) if c_ % s_}
                    kinds = {"floor"} if all(v == c_ // s_ for (c_, s_), v in vals.items()) else \
                        {"ceil"} if all(v == -(-c_ // s_) for (c_, s_), v in vals.items()) else {"?"}
                got[drop_] = kinds.pop() if len(kinds) == 1 else "?"
            except NotEvaluable as ex_:
                got[drop_] = f"? ({ex_})"
    col.ob("G12", "S2", f"{where}::floor-when-dropping-ceil-otherwise", got == {True: "floor", False: "ceil"},
           f"batches per bucket are counted as {got} (expected count // size when incomplete batches are dropped, "
           f"ceil(count / size) otherwise)", rel, ln.line, sample={str(k): v for k, v in got.items()})
    # the loaders cache __len__ from this function over their own batch sampler
    n_len = 0
    for cname in ("LangDataLoader", "SpectDataLoader"):
        m = pkg.func(f"{MOD}::{cname}.__len__")
        calls = [c for c in own_calls(m.node) if call_name(c) == "_get_batch_sampler_len"]
        n_len += len(calls)
        col.ob("G16", "S2", f"{rel}::{cname}.__len__::uses-own-batch-sampler",
               len(calls) == 1 and [u(a) for a in calls[0].args] == ["self.batch_sampler"],
               f"{cname}.__len__ does not count its own batch sampler", rel, m.line)
    col.floor("loader_len_sites", n_len, 2)

    # ---- S2' item shape (G24) ------------------------------------------------------------------------------------
    bp = pkg.func(f"{MOD}::_get_bucket_batch_sampler_params")
    _g24(ctx, bp, rel)

    # ---- S3 bucketing typestate ------------------------------------------------------------------------------------
    _s3(ctx, rel)

    # ---- S4 collation ------------------------------------------------------------------------------------------------
    for name in COLLATE:
        _collate(ctx, pkg.func(f"{MOD}::{name}"), rel)

    # ---- S2c the bucket parameters are defined for every data set the quantifier allows (0 utterances, length 0) ---
    _bucket_param_domain(ctx, bp, rel)

    # ---- S2'' a memoised length must be keyed by everything it depends on ----------------------------------------------
    _len_memo(ctx, rel)

    # ---- S5 both batching strategies honour the same loader options ----------------------------------------------
    _strategy_arms(ctx, rel)

    # ---- S5b every loader hands its bucket-parameter helper the same four things: its data set, the number of buckets, the batch size
    # and the dynamic-sizing flag `size_batch_by_length` (a neighbouring boolean such as drop_last has the same type and shape)
    bpf = pkg.func(f"{MOD}::_get_bucket_batch_sampler_params")
    n_bp = 0
    for fcaller in pkg.all_functions():
        if fcaller.module.relname != rel:
            continue
        for c in own_calls(fcaller.node):
            if call_name(c) != "_get_bucket_batch_sampler_params":
                continue
            n_bp += 1
            b_ = bind_args(c, bpf, False)
            dyn = b_.arg_for(bpf.params[3].name)
            bs_ = b_.arg_for(bpf.params[2].name)
            okd = dyn is not None and u(dyn).split(".")[-1] == "size_batch_by_length"
            okb = bs_ is not None and u(bs_).split(".")[-1] == "batch_size"
            col.ob("G1", "S5", f"{rel}::{fcaller.qualname}::_get_bucket_batch_sampler_params(dynamic<-size_batch_by_length)", okd and okb,
                   f"`{u(c)[:110]}` passes `{u(dyn) if dyn is not None else None}` as the dynamic-sizing flag and `{u(bs_) if bs_ is not None else None}` as the "
                   f"batch size; expected the loader's size_batch_by_length and batch_size: with another flag in that slot the per-bucket "
                   f"batch sizes no longer follow the configured map", rel, c.lineno)
    col.floor("bucket_parameter_calls", n_bp, 2)

    # ---- S2d the utterance sampler reports as many indices as it yields (non-bucketed loaders compute len() from it) ----
    _sampler_len(ctx, rel)
    _deprecated_arguments_fall_back_on_the_parameter_they_name(ctx)
    plumbing(ctx, "S1")
    return dict(
        explanation=(
            "Decides for C14: (S1) seed/epoch/flags reach the same-named parameters through every loader constructor "
            "chain [F3, F4 repaired] and collation/bucketing draw no random numbers; (S2) the length prediction counts "
            "the very stream __iter__ will consume (get_samples_for_epoch(sampler.epoch), never the sampler itself), "
            "with floor/ceil per the drop flag; (S2') the length used for bucketing is taken from an item in every shape "
            "the data set can yield [F17 repaired]; (S3) BucketBatchSampler.__iter__ appends every index exactly once to "
            "its own bucket's list, removes a yielded list on the same path, yields leftovers iff incomplete batches are "
            "kept; (S4) collation computes sizes from the un-padded sequences, sorts only the whole tuple list before "
            "unzipping, pads with 0 / INDEX_PAD_VALUE and returns ids from the same (sorted) list. NOT decided: bucket "
            "purity over length ties, quantile boundaries, extract_window values."),
        decided=["S1", "S2", "S2'", "S3", "S4"],
        not_decided=["bucket purity for ties at boundaries", "quantile boundaries", "context window values"],
        assumptions=["torch pad_sequence / DataLoader semantics"],
    )


def _item_shapes(pkg, res, ci: ClassInfo) -> List[Optional[int]]:
    """Tuple arities (None = bare value) of what ci.__getitem__ may return, following self-calls."""
    out: List[Optional[int]] = []
    seen = set()

    def go(f, depth=0):
        if f in seen or depth > 4:
            return
        seen.add(f)
        for n in own_nodes(f.node):
            if isinstance(n, ast.Return) and n.value is not None:
                v = n.value
                if isinstance(v, ast.Tuple):
                    out.append(len(v.elts))
                elif isinstance(v, ast.Call) and isinstance(v.func, ast.Attribute) and u(v.func.value) == "self":
                    for g in res.find_method(ci, v.func.attr):
                        go(g, depth + 1)
                else:
                    out.append(None)

    for g in res.find_method(ci, "__getitem__"):
        go(g)
    return out


def _g24(ctx, consumer, rel):
    col, pkg, res = ctx.col, ctx.pkg, ctx.res
    where = f"{rel}::{consumer.qualname}"
    # constant subscripts of the enumerated data-set items
    item_vars = set()
    subs = []
    for n in own_nodes(consumer.node):
        # a comprehension or an explicit loop over enumerate(dataset)
        if isinstance(n, (ast.comprehension, ast.For)) and isinstance(n.iter, ast.Call) and call_name(n.iter) == "enumerate" \
                and n.iter.args and u(n.iter.args[0]) == "dataset" and isinstance(n.target, ast.Tuple) and len(n.target.elts) == 2 \
                and isinstance(n.target.elts[1], ast.Name):
            item_vars.add(n.target.elts[1].id)
    for n in own_nodes(consumer.node):
        if isinstance(n, ast.Subscript) and isinstance(n.value, ast.Name) and n.value.id in item_vars \
                and isinstance(n.slice, ast.Constant) and isinstance(n.slice.value, int):
            # guarded by an isinstance(x, tuple) test (IfExp / if)?
            guarded = False
            pm = parent_map(consumer.node)
            p = pm.get(n)
            while p is not None:
                if isinstance(p, (ast.IfExp, ast.If)) and "isinstance" in u(p.test) and n.value.id in u(p.test):
                    guarded = True
                p = pm.get(p)
            subs.append((n, guarded))
    if not item_vars:
        raise AnalysisError("C14: the enumerate(dataset) consumer in _get_bucket_batch_sampler_params was not found")
    # producers: the data-set classes reaching the call sites
    n_sites = 0
    for f in pkg.all_functions():
        if f.module.name != MOD:
            continue
        for c in own_calls(f.node):
            if call_name(c) != consumer.name or not c.args:
                continue
            n_sites += 1
            rd = ReachingDefs(f.node)
            der = rd.derives(c.args[0])
            classes = set()
            for cc in der.calls():
                r = res.resolve_expr(f.module, cc.func) if isinstance(cc.func, (ast.Name, ast.Attribute)) else None
                if isinstance(r, ClassInfo):
                    classes.add(r)
            if not classes:
                raise AnalysisError(f"C14: cannot resolve the data-set class at {f.key}:{c.lineno}")
            for ci in sorted(classes, key=lambda k: k.name):
                shapes = _item_shapes(pkg, res, ci)
                for sub, guarded in subs:
                    need = sub.slice.value + 1
                    bad = [s for s in shapes if s is None or s < need]
                    ok = guarded or not bad
                    col.ob("G24", "S2'", f"{where}::{u(sub)}<-items-of({ci.name})", ok,
                           f"`{u(sub)}` assumes tuple items, but {ci.name}.__getitem__ can return "
                           f"{'a bare tensor' if None in bad else 'a shorter tuple'} (shapes {shapes}): the bucketing "
                           f"length is then taken from the first token/row instead of the sequence (IndexError or "
                           f"mixed length classes)", rel, sub.lineno,
                           sample=dict(consumer=u(sub), producer=ci.name, shapes=[s if s is not None else "bare" for s in shapes]))
    ctx.col.floor("bucket_param_call_sites", n_sites, 2)


def _bucket_params_table(ctx, rel):
    """S2 by value: `_get_bucket_batch_sampler_params` interpreted (sa/pyinterp.py) for data sets of 0-9 utterances with ties at and
    between the quantile boundaries, 1-4 requested buckets, static and dynamic sizing: every utterance gets a bucket that HAS a batch
    size; utterances of equal length share a bucket and a shorter utterance never sits in a later bucket than a longer one (length
    classes are not mixed); static sizes equal batch_size; a dynamic size x is the greatest with x * (longest length in the bucket) <=
    batch_size * (longest length in the data set), at least 1."""
    from sa.pyinterp import PyInterp, Obj
    from sa.inteval import NotEvaluable
    col, pkg = ctx.col, ctx.pkg
    f = pkg.func(f"{MOD}::_get_bucket_batch_sampler_params")
    names = [p_.name for p_ in f.params]

    def leaf(e, env):
        if isinstance(e, ast.Call) and call_name(e) == "warnings.warn":
            return "warned"
        return None
    sets = ([], [4], [3, 3, 3, 9], [3, 3, 9, 9, 9, 9], [1, 2, 3, 4, 5, 6, 7, 8], [5, 5, 5, 5, 5], [2, 2, 7, 7, 7, 8, 9, 9, 9], [0, 0, 4, 6], [3, 5, 5], [3, 3, 3, 3, 9, 9, 11])
    bad, n = None, 0
    try:
        for lens in sets:
            for nb in (1, 2, 3, 4):
                for bs in (1, 2, 3):
                    for dyn in (False, True):
                        mk = lambda L: Obj(shape=(L, 2), size=(lambda d_=None, L=L: L if d_ in (0, -2) else ((L, 2) if d_ is None else 2)))  # noqa: E731
                        data = [mk(L) if i_ % 2 else (mk(L), "other") for i_, L in enumerate(lens)]
                        kind, got = PyInterp(leaf=leaf).run(f.node, dict(zip(names, (data, nb, bs, dyn))))
                        n += 1
                        problem = None
                        if kind != "return" or not isinstance(got, tuple) or len(got) != 2:
                            problem = f"{kind}: {str(got)[:60]}"
                        else:
                            i2b, b2s = got
                            if sorted(i2b) != list(range(len(lens))):
                                problem = f"buckets are assigned to the indices {sorted(i2b)}"
                            elif any(b_ not in b2s for b_ in i2b.values()):
                                problem = f"bucket(s) {sorted(set(i2b.values()) - set(b2s))} are used but have no batch size (sizes: {b2s})"
                            elif any(i2b[i_] > i2b[j_] for i_ in range(len(lens)) for j_ in range(len(lens)) if lens[i_] <= lens[j_] and lens[i_] < lens[j_]) \
                                    or any(i2b[i_] != i2b[j_] for i_ in range(len(lens)) for j_ in range(len(lens)) if lens[i_] == lens[j_]):
                                problem = f"the buckets {i2b} mix length classes (lengths {lens})"
                            else:
                                top = max(lens) if lens else 0
                                for b_ in set(i2b.values()):
                                    longest = max(L for i_, L in enumerate(lens) if i2b[i_] == b_)
                                    x = b2s[b_]
                                    if not dyn and x != bs:
                                        problem = f"bucket {b_} has the static size {x}, batch_size is {bs}"
                                    if dyn and longest > 0 and not (x >= 1 and x * longest <= bs * top < (x + 1) * longest):
                                        problem = f"bucket {b_} (longest utterance {longest}) has the dynamic size {x}; the greatest x with x * {longest} <= {bs} * {top} is {bs * top // longest}"
                        if problem and bad is None:
                            bad = (lens, nb, bs, dyn, problem)
    except NotEvaluable:
        return False
    col.count("bucket_params_table_rows", n)
    col.ob("G12", "S2", f"{rel}::_get_bucket_batch_sampler_params::bucket-params-table", bad is None,
           (f"lengths {bad[0]}, {bad[1]} bucket(s) requested, batch_size {bad[2]}, dynamic={bad[3]}: {bad[4]}") if bad else "", rel, f.line, sample=dict(rows=n))
    return True


def _bucket_table(ctx, rel) -> bool:
    """S3 by value: `BucketBatchSampler.__iter__` is interpreted (sa/pyinterp.py; nothing is run) over sampler orders, bucket maps and
    batch sizes, with and without dropping, twice in a row on the same sampler object, and the yielded batches are compared with the
    documented behaviour written out by hand: an index goes to the pending list of its own bucket; a list is yielded (and forgotten)
    the moment it reaches its bucket's size; at the end the incomplete lists are yielded iff drop_incomplete is false, each once; a
    yielded list is not touched again; nothing carries over to the next iteration. Returns False when the code is outside the
    interpreted fragment (the spelling rules below then decide)."""
    from sa.pyinterp import PyInterp, Obj
    from sa.inteval import NotEvaluable
    col, pkg = ctx.col, ctx.pkg
    f = pkg.func(f"{MOD}::BucketBatchSampler.__iter__")
    where = f"{rel}::{f.qualname}"
    cls = f.cls.node if getattr(f, "cls", None) is not None and hasattr(f.cls, "node") else None
    methods = {st.name: st for st in (cls.body if cls is not None else []) if isinstance(st, ast.FunctionDef)}

    def lookup(c):
        fn_ = c.func
        if isinstance(fn_, ast.Attribute) and isinstance(fn_.value, ast.Name) and fn_.value.id == "self" and fn_.attr in methods:
            return methods[fn_.attr]
        return None
    cases = []
    orders = ([0, 1, 2, 3, 4, 5, 6, 7, 8, 9], [9, 3, 7, 1, 5, 0, 8, 2, 6, 4], [4, 4, 1, 1, 1, 0], [], [2])
    maps = ({i: i % 3 for i in range(10)}, {i: "ab"[i < 4] for i in range(10)}, {i: (i * 7) % 4 for i in range(10)}, {i: 0 for i in range(10)})
    sizes = ({0: 2, 1: 3, 2: 1, 3: 4, "a": 2, "b": 3}, {0: 1, 1: 1, 2: 1, 3: 1, "a": 1, "b": 1}, {0: 4, 1: 2, 2: 5, 3: 3, "a": 5, "b": 2})
    for o in orders:
        for m in maps:
            for sz in sizes:
                for drop in (False, True):
                    cases.append((o, m, sz, drop))

    def want(order, m, sz, drop):
        pending, full = {}, []
        for idx in order:
            b = m[idx]
            pending.setdefault(b, []).append(idx)
            if len(pending[b]) == sz[b]:
                full.append(pending.pop(b))
        return full, ([] if drop else [pending[b] for b in pending])
    bad = None
    try:
        for order, m, sz, drop in cases:
            self_ = Obj(sampler=list(order), idx2bucket=dict(m), bucket2size=dict(sz), drop_incomplete=drop)
            full, rest = want(order, m, sz, drop)
            for round_ in (1, 2):
                env = {"self": self_}
                kind, got = PyInterp(lookup=lookup).run(f.node, env)
                ok = kind == "return" and isinstance(got, list) and got[:len(full)] == full \
                    and sorted(map(repr, got[len(full):])) == sorted(map(repr, rest)) and env.get("__yield_refs__", []) == got
                if not ok and bad is None:
                    bad = (order, m, sz, drop, round_, got if kind == "return" else f"raises {got}", full + rest,
                           env.get("__yield_refs__", []) if kind == "return" else None)
    except NotEvaluable:
        return False
    col.count("bucket_table_rows", len(cases) * 2)
    msg = ""
    if bad:
        later = bad[7] is not None and bad[7] != bad[5]
        msg = (f"sampler order {bad[0]}, buckets {bad[1]}, sizes { {k: v for k, v in bad[2].items() if k in set(bad[1].values())} }, drop_incomplete={bad[3]}"
               f"{' (second iteration of the same sampler)' if bad[4] == 2 else ''}: __iter__ yields {bad[5]}"
               + (f", and the yielded lists later become {bad[7]}" if later else "")
               + f"; by the documented behaviour it yields {bad[6]} (incomplete batches in any order)")
    col.ob("G10", "S3", f"{where}::bucket-batches-table", bad is None, msg, rel, f.line, sample=dict(rows=len(cases) * 2))
    # the reported length, by value: `_get_batch_sampler_len` interpreted on the same grid must give the number of batches the
    # iteration yields, and leave the sampler as it found it (an epoch sampler hands out the epoch's order without advancing)
    ln = pkg.func(f"{MOD}::_get_batch_sampler_len")
    badl, nl = None, 0
    try:
        for order, m, sz, drop in cases:
            inner = Obj(epoch=3, get_samples_for_epoch=lambda ep, order=order: list(order) if ep == 3 else list(reversed(order))[:-1])
            bs = Obj(sampler=inner, idx2bucket=dict(m), bucket2size=dict(sz), drop_incomplete=drop)
            holder = {}

            def leaf(e, env):
                if isinstance(e, ast.Call) and call_name(e) == "isinstance" and len(e.args) == 2 and u(e.args[1]) == "BucketBatchSampler":
                    return True
                if isinstance(e, ast.Call) and call_name(e).split(".")[-1] == "Counter" and len(e.args) == 1:
                    cnt = {}
                    for k_ in holder["it"].eval(e.args[0], env):
                        cnt[k_] = cnt.get(k_, 0) + 1
                    return cnt
                return None
            it = PyInterp(leaf=leaf)
            holder["it"] = it
            kind, got = it.run(ln.node, {ln.params[0].name: bs})
            full, rest = want(order, m, sz, drop)
            nl += 1
            ok = kind == "return" and got == len(full) + len(rest) and inner.attrs["epoch"] == 3
            if not ok and badl is None:
                badl = (order, m, sz, drop, got if kind == "return" else f"raises {got}", len(full) + len(rest))
    except NotEvaluable:
        return True
    col.count("bucket_len_table_rows", nl)
    col.ob("G12", "S2", f"{rel}::{ln.qualname}::length-equals-the-number-of-batches-table", badl is None,
           (f"epoch order {badl[0]}, buckets {badl[1]}, sizes { {k: v for k, v in badl[2].items() if k in set(badl[1].values())} }, drop_incomplete={badl[3]}: "
            f"the reported length is {badl[4]}, the iteration yields {badl[5]} batches") if badl else "", rel, ln.line, sample=dict(rows=nl))
    return True


def _s3(ctx, rel):
    _bucket_params_table(ctx, rel)
    if _bucket_table(ctx, rel):
        return
    col, pkg = ctx.col, ctx.pkg
    f = pkg.func(f"{MOD}::BucketBatchSampler.__iter__")
    where = f"{rel}::{f.qualname}"
    rd = ReachingDefs(f.node)
    loops = [n for n in f.node.body if isinstance(n, ast.For)]
    if not loops or u(loops[0].iter) != "self.sampler":
        raise AnalysisError("C14: BucketBatchSampler.__iter__ main loop over self.sampler not found")
    loop = loops[0]
    idx = loop.target.id if isinstance(loop.target, ast.Name) else None

    def ev(n):
        if isinstance(n, ast.Call) and isinstance(n.func, ast.Attribute) and n.func.attr == "append":
            return f"APPEND({u(n.func.value)},{u(n.args[0]) if n.args else ''})"
        if isinstance(n, ast.Yield):
            return f"YIELD({u(n.value)})"
        if isinstance(n, ast.Delete):
            return "DEL(" + ",".join(u(t) for t in n.targets) + ")"
        if isinstance(n, ast.Raise):
            return "RAISE"
        return None

    paths = PathEnumerator(ev, keep_all_ifs=False, exc_edges=False).paths(loop.body)
    col.floor("bucket_iter_body_paths", len(paths), 3)
    # the list appended to is the table entry of the index's own bucket
    appends = [c for c in own_calls(f.node) if isinstance(c.func, ast.Attribute) and c.func.attr == "append"]
    okkey = False
    for c in appends:
        lst = c.func.value
        if isinstance(lst, ast.Name):
            for d in rd.defs_of(lst):
                v = d.value
                if isinstance(v, ast.Call) and isinstance(v.func, ast.Attribute) and v.func.attr == "setdefault" and v.args:
                    key = v.args[0]
                    cands = [key] + ([d2.value for d2 in rd.defs_of(key)] if isinstance(key, ast.Name) else [])
                    okkey = len(cands) <= 2 and all(isinstance(x, ast.Subscript) and u(x.value) == "self.idx2bucket"
                                                    and u(x.slice) == idx for x in cands[-1:]) \
                        and [u(a) for a in c.args] == [idx]
    col.ob("G10", "S3", f"{where}::append-to-own-bucket", okkey and len(appends) == 1,
           "an index is not appended (exactly once) to the list stored under idx2bucket[idx]", rel, loop.lineno)
    for p in paths:
        labs = p.labels()
        na = sum(1 for l in labs if l.startswith("APPEND"))
        ny = [l for l in labs if l.startswith("YIELD")]
        nd = [l for l in labs if l.startswith("DEL")]
        if p.exit == "raise":
            continue
        ok = na == 1 and len(ny) == len(nd) and len(ny) <= 1
        if ny:
            ok = ok and labs.index(ny[0]) > [i for i, l in enumerate(labs) if l.startswith("APPEND")][0]
        col.ob("G10", "S3", f"{where}::per-index-path[{'/'.join(l.split('(')[0] for l in labs)}]", ok,
               f"per index the body does {labs}: expected one append, and a yielded batch removed from the table on "
               f"the same path (else the index is yielded twice or lost)", rel, loop.lineno, sample=labs)
    # full batch is yielded exactly when the size is reached
    # (decided on expansions: a named `n = len(batch)` or a flipped comparison is the same test)
    from sa.inline import Inliner
    inl_it = Inliner(f.node, rd)
    pm_loop = parent_map(f.node)
    ylds = [x for x in ast.walk(loop) if isinstance(x, ast.Yield)]
    oksz, shown = len(ylds) == 1, None
    for y in ylds:
        hit = False
        for t, pol in guards_of(pm_loop, y):
            while isinstance(t, ast.UnaryOp) and isinstance(t.op, ast.Not):
                t, pol = t.operand, not pol
            x = inl_it.expand(t)
            if not (isinstance(x, ast.Compare) and len(x.ops) == 1 and any("len(" in u(z) for z in (x.left, x.comparators[0]))):
                continue
            shown = u(t) if pol else f"not ({u(t)})"
            sides = [x.left, x.comparators[0]]
            ln_ = [z for z in sides if isinstance(z, ast.Call) and call_name(z) == "len" and len(z.args) == 1
                   and y.value is not None and u(z.args[0]) == u(inl_it.expand(y.value))]
            sz_ = [z for z in sides if "bucket2size" in u(z) and "len(" not in u(z)]
            eq = (isinstance(x.ops[0], ast.Eq) and pol) or (isinstance(x.ops[0], ast.NotEq) and not pol)
            hit = hit or (eq and len(ln_) == 1 and len(sz_) == 1)
        oksz = oksz and hit
    col.ob("G10", "S3", f"{where}::yield-when-full", oksz,
           f"a bucket's batch is yielded under `{shown}`, expected size == len(batch)", rel,
           loop.lineno)
    # leftovers iff not drop_incomplete
    tail = [n for n in f.node.body[f.node.body.index(loop) + 1:]]
    from sa.astutil import under_flag
    pm_it = parent_map(f.node)
    # the table the per-bucket lists live in: the receiver of setdefault in the index loop
    tables = {u(c.func.value) for c in ast.walk(loop) if isinstance(c, ast.Call) and isinstance(c.func, ast.Attribute) and c.func.attr == "setdefault"}
    stray = [x for n in tail for x in ast.walk(n) if isinstance(x, ast.Yield)]
    okt = False
    if len(stray) == 1 and len(tables) == 1:
        tb = tables.pop()
        y = stray[0]
        kept = under_flag(guards_of(pm_it, y), "self.drop_incomplete", False)
        # the yield sits in a loop over the table, and yields that loop's list: `for _, b in sorted(T.items()..): yield b`
        # or `for k in sorted(T): yield T[k]`
        lp = pm_it.get(y)
        while lp is not None and not isinstance(lp, ast.For):
            lp = pm_it.get(lp)
        elem = False
        if isinstance(lp, ast.For) and any(isinstance(x, ast.Name) and x.id == tb for x in ast.walk(lp.iter)):
            if isinstance(lp.target, ast.Tuple) and len(lp.target.elts) == 2 and "items()" in u(lp.iter):
                elem = u(y.value) == u(lp.target.elts[1])
            elif isinstance(lp.target, ast.Name):
                elem = u(y.value) == f"{tb}[{lp.target.id}]" or ("values()" in u(lp.iter) and u(y.value) == lp.target.id)
        okt = kept and elem
    col.ob("G10", "S3", f"{where}::leftovers-iff-kept", okt and len(stray) == 1,
           "incomplete batches are not yielded exactly when drop_incomplete is false (each remaining list once)", rel,
           f.line)


def _collate(ctx, f, rel):
    col = ctx.col
    where = f"{rel}::{f.qualname}"
    rd = ReachingDefs(f.node)
    seqp = f.params[0].name
    # sorting: only the whole item list, before the unzip
    sorts = [c for c in own_calls(f.node) if call_name(c) == "sorted" or (isinstance(c.func, ast.Attribute) and c.func.attr == "sort")]
    unzips = [n for n in own_nodes(f.node) if isinstance(n, ast.Call) and call_name(n) == "zip"
              and n.args and isinstance(n.args[0], ast.Starred)]
    col.floor(f"unzip_sites[{f.name}]", len(unzips), 1)
    pm_c = parent_map(f.node)

    def _arms(n):
        out, cur = {}, n
        while cur is not None:
            par = pm_c.get(cur)
            if isinstance(par, ast.If):
                out[id(par)] = "body" if any(cur is x for x in par.body) else "orelse" if any(cur is x for x in par.orelse) else "test"
            cur = par
        return out

    def _exclusive(a, b):
        aa, bb = _arms(a), _arms(b)
        return any(k in bb and {aa[k], bb[k]} == {"body", "orelse"} for k in aa)
    for c in sorts:
        arg = c.args[0] if call_name(c) == "sorted" and c.args else (c.func.value if isinstance(c.func, ast.Attribute) else None)
        whole = isinstance(arg, ast.Name) and all(d.kind == "param" or (d.kind == "assign" and isinstance(d.value, ast.Call)
                                                                      and call_name(d.value) == "sorted")
                                                  for d in rd.defs_of(arg)) and arg.id == seqp
        # before every unzip that can precede it on a path (an unzip in the other arm of a branch does not)
        ok = whole and not any(z.lineno < c.lineno and not _exclusive(z, c) for z in unzips)
        col.ob("G16", "S4", f"{where}::sort-whole-items-before-unzip@{u(arg)}", ok,
               f"`{u(c)[:80]}` re-orders `{u(arg)}` - a single column / after the unzip - so the other columns "
               f"(sizes, utterance ids) no longer line up with their rows", rel, c.lineno, sample=u(c)[:100])
    col.count(f"sort_sites[{f.name}]", len(sorts))
    # sizes from un-padded sequences: a sizes tensor is torch.tensor([<len of x> for x in COL]); COL must be an
    # un-padded column (its reaching definition is the unzip, not pad_sequence), each sizes tensor must measure its
    # own column (no two measure the same one), and the column must be one that is padded and returned
    n_sz = 0
    measured = []
    for n in own_nodes(f.node):
        if isinstance(n, ast.Assign) and isinstance(n.targets[0], ast.Name) and isinstance(n.value, ast.Call) \
                and call_name(n.value) == "torch.tensor" and n.value.args and isinstance(n.value.args[0], ast.ListComp):
            comp = n.value.args[0]
            it = comp.generators[0].iter
            n_sz += 1
            padded = False
            if isinstance(it, ast.Name):
                padded = any(isinstance(d.value, ast.Call) and ("pad_sequence" in call_name(d.value) or call_name(d.value) == "torch.cat")
                             for d in rd.defs_of(it))
            measured.append(u(it))
            col.ob("G16", "S4", f"{where}::sizes[{n_sz}]<-unpadded-column", not padded and isinstance(it, ast.Name),
                   f"`{u(n)}` measures `{u(it)}` after padding (every size becomes the maximum)", rel, n.lineno, sample=u(n))
            # what is measured is the number of ROWS of an entry (its extent along the axis that is padded), also for entries with
            # further axes ((R, 3) token / start / end rows): the measure is evaluated for a (4, 3) and a (5,) entry
            tv = comp.generators[0].target
            if isinstance(tv, ast.Name):
                from sa.teval import teval, frac_array
                from sa.inteval import NotEvaluable as _NE
                import numpy as _np
                try:
                    got_ = [teval(comp.elt, {tv.id: frac_array(_np.zeros(sh_).tolist())}) for sh_ in ((4, 3), (5,))]
                    col.ob("G16", "S4", f"{where}::sizes[{n_sz}]-count-rows", [int(g_) for g_ in got_] == [4, 5],
                           f"`{u(comp.elt)}` gives {[str(g_) for g_ in got_]} for entries of shape (4, 3) and (5,): the reported size must be the number of rows "
                           f"(4 and 5) - cutting a padded row back to it must return the entry", rel, n.lineno, sample=u(comp.elt))
                except (_NE, TypeError, ValueError) as e_:
                    col.undecided(f"{where}: the size measure `{u(comp.elt)[:40]}` is outside the evaluated fragment ({e_})")
    col.floor(f"size_sites[{f.name}]", n_sz, 1)
    col.ob("G16", "S4", f"{where}::each-sizes-tensor-measures-its-own-column", len(set(measured)) == len(measured),
           f"sizes tensors measure the columns {measured}: two of them measure the same column", rel, f.line, sample=measured)
    padded_cols = {u(c.args[0]) for c in own_calls(f.node) if (call_name(c).endswith("pad_sequence") or call_name(c) == "torch.cat") and c.args}
    col.ob("G16", "S4", f"{where}::measured-columns-are-the-padded-ones", set(measured) <= padded_cols,
           f"sizes are measured on {measured} but the padded columns are {sorted(padded_cols)}", rel, f.line)
    # pad values
    for c in own_calls(f.node):
        if call_name(c).endswith("pad_sequence"):
            tgt = u(c.args[0]) if c.args else "?"
            pv = kwarg(c, "padding_value")
            # features are the first element of every item (first slot of the unzip); only spect/context batches have them
            first_slot = False
            if c.args and isinstance(c.args[0], ast.Name):
                first_slot = any(d.kind == "unpack" and d.slot == (0,) for d in rd.defs_of(c.args[0]))
            is_feat = first_slot and f.name != "lang_seq_to_batch"
            want = "0" if is_feat else "config.INDEX_PAD_VALUE"
            col.ob("G13", "S4", f"{where}::pad({tgt})", pv is not None and u(pv) == want and
                   (kwarg(c, "batch_first") is not None and u(kwarg(c, "batch_first")) == "batch_first"),
                   f"`{tgt}` is padded with {u(pv) if pv is not None else 'the default'} (expected {want}) / ignores "
                   f"batch_first", rel, c.lineno, sample=u(c)[:100])
    # ids: returned last, from the unzip
    if f.param("has_uttids") is not None:
        pm = parent_map(f.node)
        for n in own_nodes(f.node):
            if isinstance(n, ast.Return) and isinstance(n.value, ast.Tuple):
                gs = guards_of(pm, n)
                from sa.astutil import under_flag as _uf
                with_ids = _uf(gs, "has_uttids", True)
                last = n.value.elts[-1]
                has = isinstance(last, ast.Call) and call_name(last) == "tuple"
                if not has and isinstance(last, ast.Name):  # (converted to a tuple in a statement of its own)
                    ds_ = list(rd.defs_of(last))
                    has = bool(ds_) and all(d.kind == "assign" and isinstance(d.value, ast.Call) and call_name(d.value) == "tuple" for d in ds_)
                ok = has == with_ids
                if has:
                    der = rd.derives(last)
                    ok = ok and any(isinstance(cc, ast.Call) and call_name(cc) == "zip" for cc in der.calls())
                col.ob("G2", "S4", f"{where}::return[{len(n.value.elts)}]::ids-last-iff-has_uttids", ok,
                       f"`{u(n)[:90]}` returns utterance ids {'without' if not with_ids else 'under'} has_uttids / not "
                       f"from the unzipped items", rel, n.lineno, sample=u(n)[:100])


def _strategy_arms(ctx: Ctx, rel: str):
    """S5: each loader picks its batch sampler in an if/else (length buckets vs plain batches). Every option of the
    parameter object that the plain arm hands to its sampler must also reach the bucketed arm (incomplete-batch
    policy, batch size), and the bucket sampler's `drop_incomplete` is bound to `params.drop_last`."""
    col, pkg, res = ctx.col, ctx.pkg, ctx.res
    bbs = pkg.cls(f"{MOD}::BucketBatchSampler")
    binit = res.find_method(bbs, "__init__")
    binit = binit[0] if isinstance(binit, list) else binit
    arms_seen = 0
    per_loader = {}
    for cname in ("LangDataLoader", "SpectDataLoader"):
        f = pkg.func(f"{MOD}::{cname}.__init__")
        where = f"{rel}::{cname}.__init__"
        pname = None
        for n in own_nodes(f.node):
            if not isinstance(n, ast.If) or not n.orelse:
                continue
            tb = {t.id for st in n.body for a in ast.walk(st) if isinstance(a, ast.Assign) for t in a.targets if isinstance(t, ast.Name)}
            te = {t.id for st in n.orelse for a in ast.walk(st) if isinstance(a, ast.Assign) for t in a.targets if isinstance(t, ast.Name)}
            both = tb & te
            calls_b = [c for st in n.body for c in ast.walk(st) if isinstance(c, ast.Call) and call_name(c) == "BucketBatchSampler"]
            if not both or not calls_b:
                continue
            arms_seen += 1

            def opts(stmts):
                out = set()
                for st in stmts:
                    for a in ast.walk(st):
                        if isinstance(a, ast.Attribute) and isinstance(a.value, ast.Name) and isinstance(a.ctx, ast.Load) \
                                and a.value.id in {p.name for p in f.params}:
                            out.add(f"{a.value.id}.{a.attr}")
                return out
            ob_, oe_ = opts(n.body), opts(n.orelse)
            per_loader[cname] = (sorted(ob_), sorted(oe_))
            col.ob("G13", "S5", f"{where}::bucketed-arm-honours-the-plain-arm's-options", oe_ <= ob_,
                   f"the plain-batch arm passes {sorted(oe_)} to its sampler but the length-bucket arm only reads "
                   f"{sorted(ob_)}: {sorted(oe_ - ob_)} is silently ignored when num_length_buckets > 1", rel, n.lineno,
                   sample=dict(bucketed=sorted(ob_), plain=sorted(oe_)))
            b = bind_args(calls_b[0], binit, True)
            got = {p.name: u(a) for p, a, _ in b.pairs}
            di = [p.name for p in binit.params if "drop" in p.name]
            col.ob("G1", "S5", f"{where}::BucketBatchSampler({di[0] if di else 'drop'}<-drop_last)",
                   bool(di) and got.get(di[0], "").endswith(".drop_last"),
                   f"BucketBatchSampler is built with {got}; its incomplete-batch flag must be the loader's drop_last "
                   f"(left to its default, short leftover batches are delivered although drop_last=True)", rel,
                   calls_b[0].lineno, sample=got)
    col.floor("strategy_branches", arms_seen, 2)


def _sampler_len(ctx: Ctx, rel: str):
    """len(loader) without buckets is BatchSampler's: ceil or floor of len(sampler) / batch size, while the batches come from the
    indices the sampler yields. The two agree iff the sampler's __len__ is the number of indices its rank share holds - decided on
    the sampler table (props/c13_table.py: constructor, share and __len__ interpreted for every mode x process-group state x size)."""
    from sa.inteval import NotEvaluable
    from .c13_table import WORLD, SamplerTable
    col, pkg, res = ctx.col, ctx.pkg, ctx.res
    base = pkg.cls(f"{MOD}::AbstractEpochSampler")
    init = res.find_method(base, "__init__")[0]
    g = res.find_method(base, "get_samples_for_epoch")[0]
    ln = res.find_method(base, "__len__")[0]
    src_param = [p_.name for p_ in init.params if p_.name != "self"][0]
    tab = SamplerTable(pkg.module(MOD).tree, base.node, init.node, g.node, ln.node, "on_uneven_distributed", src_param)
    try:
        rows = [r_ for r_ in tab.rows() if r_["slice"] is not None]
    except NotEvaluable as e:
        col.undecided(f"{rel}::{ln.qualname}: the sampler constructor / rank share is outside the interpreted fragment ({e})")
        return
    col.floor("sampler_length_rows", len(rows), 60)
    bad = [r_ for r_ in rows if r_["len"] != len(r_["slice"])]
    col.ob("G12", "S2", f"{rel}::{ln.qualname}::length-is-the-number-of-indices-yielded", not bad,
           (f"mode={bad[0]['mode']!r}, group rank {bad[0]['group_rank']} of {WORLD} (available={bad[0]['available']}, initialised={bad[0]['initialised']}), "
            f"{bad[0]['n']} utterances: len(sampler) is {bad[0]['len']} but the rank yields {len(bad[0]['slice'])} indices - a loader without "
            f"length buckets reports a number of batches it does not deliver, and replicas deliver different numbers") if bad else "", rel, ln.line,
           sample=dict(rows=len(rows), mismatching=len(bad)))


def _len_memo(ctx: Ctx, rel: str):
    """The loaders memoise `len()`; the memoised function reads the sampler's current epoch (the rank's slice of a
    shuffled epoch fills the length buckets differently every epoch). A memo that is filled once under `is None` and is
    neither keyed by the epoch nor reset when the epoch changes reports the first epoch's number of batches forever."""
    col, pkg = ctx.col, ctx.pkg
    ln = pkg.func(f"{MOD}::_get_batch_sampler_len")
    reads_epoch = any(isinstance(n, ast.Attribute) and n.attr == "epoch" for n in own_nodes(ln.node))
    n_sites = 0
    for cname in ("LangDataLoader", "SpectDataLoader"):
        m = pkg.func(f"{MOD}::{cname}.__len__")
        memo = None
        for n in own_nodes(m.node):
            if isinstance(n, ast.If) and isinstance(n.test, ast.Compare) and isinstance(n.test.ops[0], ast.Is) \
                    and isinstance(n.test.left, ast.Attribute) and u(n.test.left.value) == "self" \
                    and any(isinstance(st, ast.Assign) and any(u(t) == u(n.test.left) for t in st.targets) and
                            any(isinstance(c, ast.Call) and call_name(c) == "_get_batch_sampler_len" for c in ast.walk(st.value))
                            for st in n.body):
                memo = n
        n_sites += 1
        if memo is None:
            col.ob("G16", "S2", f"{rel}::{cname}.__len__::memo-keyed-by-epoch", True, "", rel, m.line,
                   sample="no unconditional memo")
            continue
        attr = memo.test.left.attr
        # keyed: the test also compares a stored epoch with the current one; or reset: some method assigns the memo to
        # None outside __init__ in a method that writes the epoch
        keyed = any("epoch" in u(x) for x in ast.walk(memo.test) if isinstance(x, ast.Attribute) and x is not memo.test.left) \
            or isinstance(pkg_parent_test(m, memo), ast.BoolOp)
        ci = pkg.cls(f"{MOD}::{cname}")
        reset = False
        for fl in ci.methods.values():
            for mm in fl:
                if mm.name in ("__init__", "__len__"):
                    continue
                for x in own_nodes(mm.node):
                    if isinstance(x, ast.Assign) and any(isinstance(t, ast.Attribute) and u(t) == f"self.{attr}" for t in x.targets) \
                            and isinstance(x.value, ast.Constant) and x.value.value is None:
                        reset = True
        col.ob("G16", "S2", f"{rel}::{cname}.__len__::memo-keyed-by-epoch", (not reads_epoch) or keyed,
               f"`self.{attr}` is filled once from _get_batch_sampler_len, which reads the sampler's current epoch, and is "
               f"{'only reset by a setter (iteration advances the epoch without it)' if reset else 'never reset'}: in a "
               f"distributed, shuffled, length-bucketed run the number of batches changes with the epoch and len(loader) "
               f"keeps reporting the first epoch's value", rel, memo.lineno, sample=dict(memo=attr, reads_epoch=reads_epoch))
    col.floor("len_memo_sites", n_sites, 2)


def pkg_parent_test(m, memo):
    return memo.test


def _bucket_param_domain(ctx: Ctx, bp, rel: str):
    """C14 quantifies over data sets of 0..n utterances with arbitrary lengths. In _get_bucket_batch_sampler_params a list
    built by iterating the data set is empty for an empty data set, so every subscript of it must be dominated by an
    emptiness guard; and a divisor that derives from the utterance lengths may be 0, so it must be clamped (max(., 1)) or
    guarded."""
    col = ctx.col
    rd = ReachingDefs(bp.node)
    pm = parent_map(bp.node)
    ds = bp.params[0].name
    sized = set()
    for n in own_nodes(bp.node):
        if isinstance(n, ast.Assign) and len(n.targets) == 1 and isinstance(n.targets[0], ast.Name):
            gens = [g for g in ast.walk(n.value) if isinstance(g, ast.comprehension)]
            if any(any(isinstance(x, ast.Name) and x.id == ds for x in ast.walk(g.iter)) for g in gens):
                sized.add(n.targets[0].id)
    # ... or filled by an explicit loop over the data set: `L = []; for i, x in enumerate(dataset): L.append(..)`
    for n in own_nodes(bp.node):
        if isinstance(n, ast.For) and any(isinstance(x, ast.Name) and x.id == ds for x in ast.walk(n.iter)):
            for c in ast.walk(n):
                if isinstance(c, ast.Call) and isinstance(c.func, ast.Attribute) and c.func.attr in ("append", "extend", "add") \
                        and isinstance(c.func.value, ast.Name):
                    sized.add(c.func.value.id)
    if not sized:
        raise AnalysisError("C14: no data-set-sized list in _get_bucket_batch_sampler_params")
    # a list derived element by element from a sized one (`lens = [l for (l, _) in len_idx]`, `sorted(...)`, `list(...)`) is sized too
    for _ in range(4):
        for n in own_nodes(bp.node):
            if isinstance(n, ast.Assign) and len(n.targets) == 1 and isinstance(n.targets[0], ast.Name) and n.targets[0].id not in sized:
                v = n.value
                src = None
                if isinstance(v, (ast.ListComp, ast.GeneratorExp)) and len(v.generators) == 1 and not v.generators[0].ifs:
                    src = v.generators[0].iter
                elif isinstance(v, ast.Call) and call_name(v) in ("sorted", "list", "tuple", "reversed") and v.args:
                    src = v.args[0]
                    if isinstance(src, (ast.ListComp, ast.GeneratorExp)) and len(src.generators) == 1 and not src.generators[0].ifs:
                        src = src.generators[0].iter
                if isinstance(src, ast.Name) and src.id in sized:
                    sized.add(n.targets[0].id)

    def guarded(node, names):
        for t, pol in guards_of(pm, node):
            if {x.id for x in ast.walk(t) if isinstance(x, ast.Name)} & names:
                return True
        for st in bp.node.body:
            if st.lineno >= node.lineno:
                break
            if isinstance(st, ast.If) and any(isinstance(x, (ast.Return, ast.Raise)) for x in st.body) and \
                    {x.id for x in ast.walk(st.test) if isinstance(x, ast.Name)} & names:
                return True
        return False

    def in_comprehension_iter(n):
        cur = n
        while cur is not None:
            par = pm.get(cur)
            if isinstance(par, ast.comprehension) and par.iter is cur:
                return True
            cur = par
        return False
    subs = [n for n in own_nodes(bp.node) if isinstance(n, ast.Subscript) and isinstance(n.value, ast.Name) and n.value.id in sized
            and isinstance(n.ctx, ast.Load) and not in_comprehension_iter(n)]
    bad = [n for n in subs if not guarded(n, sized | {ds})]
    col.ob("G23", "S2", f"{rel}::_get_bucket_batch_sampler_params::data-set-sized-list-indexed-under-a-guard", bool(subs) and not bad,
           f"`{u(bad[0]) if bad else ''}` indexes a list that has one entry per utterance without a guard for the empty data "
           f"set: a loader over 0 utterances with num_length_buckets > 1 raises IndexError instead of yielding nothing", rel,
           bad[0].lineno if bad else bp.line, sample=[u(x) for x in subs][:4])
    # divisors deriving from the lengths
    divs = []
    for n in own_nodes(bp.node):
        if isinstance(n, ast.BinOp) and isinstance(n.op, (ast.FloorDiv, ast.Div, ast.Mod)):
            der = rd.derives(n.right)
            if any(isinstance(x, ast.Name) and x.id in sized for x in der.nodes()) or \
                    any(isinstance(x, ast.Name) and x.id in sized for x in ast.walk(n.right)):
                divs.append(n)
    badd = []
    for n in divs:
        r = n.right
        clamped = isinstance(r, ast.Call) and call_name(r) == "max" and any(
            isinstance(a, ast.Constant) and isinstance(a.value, int) and a.value >= 1 for a in r.args)
        if not clamped and not guarded(n, {x.id for x in ast.walk(r) if isinstance(x, ast.Name)} - {"j", "n", "i"}):
            badd.append(n)
    col.ob("G12", "S2", f"{rel}::_get_bucket_batch_sampler_params::length-divisor-is-positive", bool(divs) and not badd,
           f"`{u(badd[0]) if badd else ''}` divides by a bucket's length bound, which is 0 when the shortest utterances are empty: "
           f"size_batch_by_length=True then raises ZeroDivisionError at construction", rel, badd[0].lineno if badd else bp.line,
           sample=[u(x) for x in divs])


def _deprecated_arguments_fall_back_on_the_parameter_they_name(ctx: Ctx):
    """S5: the data sets and loaders still accept some settings as (deprecated) arguments; `if x is not None: <warn: use params.<p>> else:
    x = params.<q>`. The parameter the warning sends the user to and the one the fallback reads are the same (`p == q`): reading a
    sibling (the right context from `context_left`) gives every window the wrong width whenever the two settings differ - with the
    defaults (equal) nothing shows."""
    import re
    col, pkg = ctx.col, ctx.pkg
    n_sites = 0
    for modname in ("_datasets", "_dataloaders"):
        mi = pkg.module(modname)
        for f in pkg.all_functions():
            if f.module is not mi:
                continue
            for n in own_nodes(f.node):
                if isinstance(n, ast.If) and n.orelse and (isinstance(n.test, ast.Name) or (
                        isinstance(n.test, ast.UnaryOp) and isinstance(n.test.op, ast.Not) and isinstance(n.test.operand, ast.Name))):
                    # the same construct with the argument tested for TRUTH: an explicit 0 / False counts as 'not given'
                    xt = n.test.id if isinstance(n.test, ast.Name) else n.test.operand.id
                    fb_ = n.orelse if isinstance(n.test, ast.Name) else n.body
                    if any(isinstance(st, ast.Assign) and any(isinstance(t_, ast.Name) and t_.id == xt for t_ in st.targets) and isinstance(st.value, ast.Attribute)
                           and isinstance(st.value.value, ast.Name) and st.value.value.id == "params" for st in fb_):
                        n_sites += 1
                        col.ob("G5", "S5", f"{mi.relname}::{f.qualname}::deprecated-argument({xt})-is-tested-against-None", False,
                               f"`if {u(n.test)}:` decides whether the deprecated argument `{xt}` was given by its truth value: an explicit 0 (no context on "
                               f"that side) or False is replaced by the parameter object's setting", mi.relname, n.lineno)
                    continue
                if not (isinstance(n, ast.If) and n.orelse and isinstance(n.test, ast.Compare) and len(n.test.ops) == 1
                        and isinstance(n.test.ops[0], (ast.IsNot, ast.Is)) and isinstance(n.test.comparators[0], ast.Constant)
                        and n.test.comparators[0].value is None and isinstance(n.test.left, ast.Name)):
                    continue
                given, fallback = (n.body, n.orelse) if isinstance(n.test.ops[0], ast.IsNot) else (n.orelse, n.body)
                x = n.test.left.id
                named = set()
                for c in ast.walk(ast.Module(body=list(given), type_ignores=[])):
                    if isinstance(c, ast.Call) and call_name(c).endswith("warn") and c.args:
                        txt = "".join(k.value for k in ast.walk(c.args[0]) if isinstance(k, ast.Constant) and isinstance(k.value, str))
                        named |= set(re.findall(r"params\.([A-Za-z_][A-Za-z_0-9]*)", txt))
                reads = [v.attr for st in fallback if isinstance(st, ast.Assign) and any(isinstance(t_, ast.Name) and t_.id == x for t_ in st.targets)
                         for v in [st.value] if isinstance(v, ast.Attribute) and isinstance(v.value, ast.Name) and v.value.id == "params"]
                if len(named) != 1 or len(reads) != 1:
                    continue
                n_sites += 1
                col.ob("G5", "S5", f"{mi.relname}::{f.qualname}::deprecated-argument({x})-falls-back-on-params.{sorted(named)[0]}", reads[0] in named,
                       f"without the deprecated argument `{x}` the value is read from params.{reads[0]}, while the deprecation warning names "
                       f"params.{sorted(named)[0]} as its replacement: the setting the user configures is not the one that is used", mi.relname, n.lineno,
                       sample=dict(argument=x, named=sorted(named), read=reads[0]))
    col.floor("deprecated_argument_fallbacks", n_sites, 2)


def _mutants():
    from selftest.mutate import Mutant as M
    D = "_dataloaders.py"
    return [
        M("right-context-from-the-left-parameter", "_datasets.py", "right = params.context_right", "right = params.context_left", "deprecated-argument(right)"),
        M("reverse-only-when-padded", "_datasets.py", "            window[-right_pad:] = feat[-1]\n    else:\n        window = feat[frame_idx - left:frame_idx + right + 1]\n    if reverse:\n        window = torch.flip(window, [0])", "            window[-right_pad:] = feat[-1]\n        if reverse:\n            window = torch.flip(window, [0])\n    else:\n        window = feat[frame_idx - left:frame_idx + right + 1]", "option-reverse-honoured-on-every-path-to-a-return"),
        M("bucket-accumulator-kept-on-the-sampler", "_dataloaders.py", "batches: Dict[H, List[int]] = dict()\n        for idx in self.sampler:", "batches = self.__dict__.setdefault('_batches', dict())\n        for idx in self.sampler:", "accumulator"),
        M("empty-data-set-indexed", "_dataloaders.py", "if not len_idx:\n        return (dict(), dict())\n", "", "data-set-sized-list-indexed-under-a-guard"),
        M("zero-length-bound-divides", "_dataloaders.py", "m // max(len_bounds[j], 1)", "m // len_bounds[j]", "length-divisor-is-positive"),
        M("len-memoised-once", "_dataloaders.py", "if self._len is None or self._len[0] != epoch:\n            self._len = (epoch, _get_batch_sampler_len(self.batch_sampler))\n        return self._len[1]", "if self._len is None:\n            self._len = _get_batch_sampler_len(self.batch_sampler)\n        return self._len", "memo-keyed-by-epoch"),
        M("lang-buckets-ignore-drop-last", "_dataloaders.py", "batch_sampler = BucketBatchSampler(utt_sampler, idx2bucket, bucket2size, params.drop_last)", "batch_sampler = BucketBatchSampler(utt_sampler, idx2bucket, bucket2size)", "S5"),
        M("spect-buckets-ignore-drop-last", "_dataloaders.py", "batch_sampler = BucketBatchSampler(utt_sampler, idx2bucket, bucket2size, params.drop_last)", "batch_sampler = BucketBatchSampler(utt_sampler, idx2bucket, bucket2size, False)", "S5", 1),
        M("len-iterates-sampler", D, "for i in batch_sampler.sampler.get_samples_for_epoch(batch_sampler.sampler.epoch))",
          "for i in batch_sampler.sampler)", "counts-the-epoch-iter-will-consume"),
        M("len-next-epoch", D, "batch_sampler.sampler.get_samples_for_epoch(batch_sampler.sampler.epoch)",
          "batch_sampler.sampler.get_samples_for_epoch(batch_sampler.sampler.epoch + 1)", "counts-the-epoch"),
        M("len-ceil-when-dropping", D, "len_ += count // size", "len_ += (count + size - 1) // size", "floor-when-dropping"),
        M("len-flag-inverted", D, "if batch_sampler.drop_incomplete:\n    len_ += count // size", "if not batch_sampler.drop_incomplete:\n    len_ += count // size",
          "floor-when-dropping"),
        M("bucket-length-from-x0", D, "sorted((((x[0] if isinstance(x, tuple) else x).size(0), i) for i, x in enumerate(dataset)))",
          "sorted(((x[0].size(0), i) for i, x in enumerate(dataset)))", "G24"),
        M("sort-refs-only", D, "if has_uttids:\n    refs, uttids = zip(*seq)\nelse:\n    refs = seq\nref_sizes",
          "if has_uttids:\n    refs, uttids = zip(*seq)\nelse:\n    refs = seq\nrefs = sorted(refs, key=lambda x: x.size(0), reverse=True)\nref_sizes", "sort-whole-items-before-unzip"),
        M("sizes-after-padding", D, "feat_sizes = torch.tensor([x.size(0) for x in feats])\n    feats = torch.nn.utils.rnn.pad_sequence(feats, padding_value=0, batch_first=batch_first)",
          "feats = torch.nn.utils.rnn.pad_sequence(feats, padding_value=0, batch_first=batch_first)\n    feat_sizes = torch.tensor([x.size(0) for x in feats])", "unpadded-column"),
        M("ref-sizes-from-feats", D, "ref_sizes = torch.tensor([len(x) for x in refs])\n        refs = torch.nn.utils.rnn.pad_sequence(refs, padding_value=config.INDEX_PAD_VALUE, batch_first=batch_first)\n    else:\n        ref_sizes = refs = None\n    if has_alis:",
          "ref_sizes = torch.tensor([len(x) for x in feats])\n        refs = torch.nn.utils.rnn.pad_sequence(refs, padding_value=config.INDEX_PAD_VALUE, batch_first=batch_first)\n    else:\n        ref_sizes = refs = None\n    if has_alis:", "each-sizes-tensor-measures-its-own-column"),
        M("ali-pad-zero", D, "alis = torch.nn.utils.rnn.pad_sequence(alis, padding_value=config.INDEX_PAD_VALUE, batch_first=batch_first)",
          "alis = torch.nn.utils.rnn.pad_sequence(alis, padding_value=0, batch_first=batch_first)", "pad("),
        M("bucket-no-del", D, "yield batch\n                del batches[hash_]", "yield batch", "bucket-batches-table"),
        M("bucket-wrong-key", D, "batch = batches.setdefault(hash_, [])", "batch = batches.setdefault(batch_size, [])", "bucket-batches-table"),
        M("bucket-leftovers-always", D, "if not self.drop_incomplete:\n            for _, batch in", "if True:\n            for _, batch in", "bucket-batches-table"),
        M("bucket-yield-early", D, "if batch_size == len(batch):\n                yield batch", "if batch_size <= len(batch) + 1:\n                yield batch", "bucket-batches-table"),
        M("collate-shuffles", D, "if sort:\n        seq = sorted(seq, key=lambda x: x[0].size(0), reverse=True)\n    seq = list(zip(*seq))",
          "if sort:\n        seq = sorted(seq, key=lambda x: x[0].size(0), reverse=True)\n    else:\n        seq = [seq[i] for i in torch.randperm(len(seq)).tolist()]\n    seq = list(zip(*seq))", "no-rng"),
        M("seed-positional-again", D, "sort_batch, init_epoch, seed=seed, file_prefix=file_prefix", "sort_batch, init_epoch, seed, file_prefix=file_prefix", "G1"),
        M("twin:rename-hash", D, "hash_", "bucket_id", "", -1, twin=True),
    ]


def selftest(ctx: Ctx):
    from selftest.mutate import run_selftest
    return run_selftest("C14", ctx.pkg.repo, _mutants(), floor=12)


MANIFEST = dict(
    level_text=(
        "Static analysis (no execution) of the batching pipeline: argument binding of every loader constructor chain, "
        "purity of the length prediction (it counts get_samples_for_epoch(sampler.epoch), never a stateful iteration), "
        "producer/consumer item-shape protocol between the data sets and the bucket-parameter helper, typestate of "
        "BucketBatchSampler.__iter__ over its per-index paths (one append to the own bucket, yield+delete paired, "
        "leftovers iff kept), and def-use version rules of the collate functions (sizes from un-padded columns, whole-"
        "item sorting before the unzip, pad values, ids from the same items). Necessary conditions of 'loses nothing / "
        "len agrees / ids stay attached'. BucketBatchSampler.__iter__ (a generator) and _get_batch_sampler_len are interpreted over plain data "
        "(sa/pyinterp.py) for 120 (order, bucket map, sizes, drop) cases, twice per sampler: the batches equal the documented ones and the "
        "reported length is their number; the typestate rules are the fallback. _get_bucket_batch_sampler_params is interpreted the same way "
        "for data sets of 0-9 utterances with ties at and between the quantile boundaries, 1-4 buckets, static and dynamic sizing: every "
        "utterance gets a bucket that has a batch size, equal lengths share a bucket, buckets are monotone in length, and dynamic sizes are "
        "the greatest fitting the frame budget - on that grid, not for all length distributions. Deprecated arguments fall back on the parameter their deprecation warning names (context_left / context_right / reverse); utterance ids are returned last iff requested, also when converted in a statement of their own."),
    level_note="Trusted: python ast; torch pad_sequence / DataLoader. F3, F4 (seed chain, prefix default) and F17 (bare-"
               "tensor items bucketed by their first row) were found by these rules and repaired.",
    technique="static analysis: argument binding, reaching definitions (def-use versions), path typestate, producer/consumer shape protocol, integer interpretation of the per-bucket length contribution; sampler length table (constructor, rank share and __len__ interpreted over the syntax tree); bucket sampler batches and reported length by interpretation of the generator over plain data; bucket assignment and batch-size map by interpretation of the parameter helper over tied length distributions; warning-text / fallback agreement of deprecated arguments",
    design_ref="DESIGN.md section 4 C14",
)
