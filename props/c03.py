"""C03 optimal completion: forwarding, mode, one padding sentinel (G13), loss positions."""
from __future__ import annotations

import ast

from rules import enum as R_enum
from rules import fwd as R_fwd
from sa.astutil import call_name, kwarg, u
from sa.defuse import ReachingDefs
from sa.model import AnalysisError, own_calls, own_nodes
from sa.resolve import bind_args
from . import string_common as SC
from .common import Ctx, plumbing


def run(ctx: Ctx):
    col, pkg, res = ctx.col, ctx.pkg, ctx.res
    rel = "_string.py"
    R_fwd.g5_module_pairs(pkg, res, col, only={"optimal_completion", "hard_optimal_completion_distillation_loss"}, clause="S1")
    col.floor("g5_pairs", col.counts.get("g5_pairs", 0), 2)
    SC.mode_table(ctx, ["optimal_completion"], "S1")
    # which prefixes exist is decided by the kernel's shared length bookkeeping (the eos corrections)
    SC.batch_independence(ctx, "S1")
    SC.no_eos_mask_uses_its_own_extent(ctx, "S1")
    SC.lens_helper_total(ctx, "S1")
    SC.tokens_compared_as_integers(ctx, "S1")
    oc = pkg.func("_string::optimal_completion")
    f = pkg.func("_string::hard_optimal_completion_distillation_loss")
    where = f"{rel}::{f.qualname}"
    calls = [c for c in own_calls(f.node) if call_name(c) == "optimal_completion"]
    if len(calls) != 1:
        raise AnalysisError("the OCD loss does not call optimal_completion exactly once")
    b = bind_args(calls[0], oc, False)
    got = {p.name: u(a) for p, a, _ in b.pairs}
    want = dict(ref="ref", hyp="hyp", eos="eos", include_eos="include_eos", batch_first="batch_first", ins_cost="ins_cost",
                del_cost="del_cost", sub_cost="sub_cost", padding="ignore_index", exclude_last="True", warn="warn")
    col.ob("G1", "S1", f"{where}::optimal_completion-binding", got == want,
           f"optimal_completion is called with {got}; expected {want} (one loss position per hypothesis token needs "
           f"exclude_last=True)", rel, calls[0].lineno, sample=got)
    # ---- S2 as a table first: when the loss tail is inside the interpreted fragment, the table decides the sentinel agreement, the
    # average over the target set and the clamped divisors by value, and the shape-based clauses below are not consulted
    table_decided = _loss_tail_table(ctx, f, rel)
    _validation_head_table(ctx, f, rel)
    SC.completion_table(ctx, "S6")
    # ---- S2 one sentinel: padding of the targets == ignore_index of cross_entropy == the padding mask constant ----
    ce = [c for c in own_calls(f.node) if call_name(c).endswith("cross_entropy")]
    okce = len(ce) == 1 and kwarg(ce[0], "ignore_index") is not None and u(kwarg(ce[0], "ignore_index")) == "ignore_index" \
        and kwarg(ce[0], "reduction") is not None and u(kwarg(ce[0], "reduction")) == "'none'" and u(kwarg(ce[0], "weight")) == "weight"
    tvar = None
    for n in own_nodes(f.node):
        if isinstance(n, ast.Assign) and n.value is calls[0] and isinstance(n.targets[0], ast.Name):
            tvar = n.targets[0].id
    if tvar is None:
        raise AnalysisError("the OCD loss does not bind the optimal-completion targets to a variable")
    from sa.astutil import oriented
    masks = [n for n in own_nodes(f.node) if isinstance(n, ast.Assign) and (oriented(n.value, lambda e: u(e) == tvar) or (None,))[0] == "eq"]
    okm = len(masks) == 1 and u(oriented(masks[0].value, lambda e: u(e) == tvar)[2]) == "ignore_index"
    if not table_decided:
      col.ob("G13", "S2", f"{where}::one-padding-sentinel", okce and okm and got.get("padding") == "ignore_index",
             f"the target padding ({got.get('padding')}), the cross-entropy ignore_index and the padding mask constant "
             f"({u(masks[0].value) if masks else None}) are not the same value: padded target slots would be scored", rel,
             f.line, sample=dict(padding=got.get("padding"), ce=u(ce[0])[:120] if ce else None))
    # the loss per prefix: sum over non-padding targets / max(number of targets, 1), zero where none
    PM = masks[0].targets[0].id if masks and isinstance(masks[0].targets[0], ast.Name) else None
    ce_assign = [n for n in own_nodes(f.node) if isinstance(n, ast.Assign) and ce and any(x is ce[0] for x in ast.walk(n.value))]
    LV = ce_assign[0].targets[0].id if ce_assign and isinstance(ce_assign[0].targets[0], ast.Name) else None
    # decided on the expansion (temporaries forward-substituted): some quotient L / R of the function has
    #   L = <cross entropy ...>.masked_fill(<padding mask>, 0.0).sum(2)   and   R = (~<padding mask>).sum(2).clamp_min(1)
    from sa.inline import Inliner
    inl = Inliner(f.node)
    pmx = inl.text(masks[0].value) if masks else None
    okavg = False
    for n in own_nodes(f.node):
        if not (isinstance(n, ast.BinOp) and isinstance(n.op, ast.Div)):
            continue
        L, R_ = inl.expand(n.left), inl.expand(n.right)
        okL = isinstance(L, ast.Call) and isinstance(L.func, ast.Attribute) and L.func.attr == "sum" and [u(a_) for a_ in L.args] == ["2"] \
            and isinstance(L.func.value, ast.Call) and isinstance(L.func.value.func, ast.Attribute) and L.func.value.func.attr == "masked_fill" \
            and len(L.func.value.args) == 2 and u(L.func.value.args[0]) == pmx and u(L.func.value.args[1]) in ("0.0", "0") \
            and "cross_entropy" in u(L.func.value.func.value)
        rt = u(R_).replace(" ", "")
        okR = pmx is not None and rt in (f"(~({pmx})).sum(2).clamp_min(1)".replace(" ", ""), f"(~({pmx})).sum(2).clamp(min=1)".replace(" ", ""),
                                          f"(~({pmx})).sum(2).clamp(1)".replace(" ", ""))
        okavg = okavg or (okL and okR)
    # every divisor that counts mask entries can be zero (a prefix without targets, an element whose every prefix is padding):
    # it must be clamped to at least one, or the mean is 0 / 0
    unclamped = []
    ncount = 0
    for n in own_nodes(f.node):
        if not (isinstance(n, ast.BinOp) and isinstance(n.op, ast.Div)):
            continue
        R_ = inl.expand(n.right)
        counts = [c for c in ast.walk(R_) if isinstance(c, ast.Call) and isinstance(c.func, ast.Attribute) and c.func.attr == "sum"
                  and pmx is not None and pmx in u(c.func.value)]
        if not counts:
            continue
        ncount += 1
        top = R_
        okc = False
        while isinstance(top, ast.Call) and isinstance(top.func, ast.Attribute):
            if top.func.attr in ("clamp_min", "clamp_min_") and top.args and u(top.args[0]) in ("1", "1.0"):
                okc = True
            if top.func.attr in ("clamp", "clamp_") and ((top.args and u(top.args[0]) in ("1", "1.0")) or any(k.arg == "min" and u(k.value) in ("1", "1.0") for k in top.keywords)):
                okc = True
            top = top.func.value
        if isinstance(R_, ast.Call) and call_name(R_) in ("max", "torch.clamp_min", "torch.clamp") and any(u(a_) in ("1", "1.0") for a_ in list(R_.args)[1:] + [k.value for k in R_.keywords]):
            okc = True
        if not okc:
            unclamped.append(n)
    if not table_decided:
      col.floor("count_divisors", ncount, 2)
    if not table_decided or ncount:
      col.ob("G12", "S2", f"{where}::count-divisors-are-at-least-one", not unclamped,
             f"`{u(unclamped[0])[:100] if unclamped else ''}` divides by a number of non-padding entries that is 0 for a prefix (or a whole "
             f"sequence) without targets - e.g. an empty reference: the quotient is 0 / 0 = NaN and the mean over the batch is NaN", rel,
             unclamped[0].lineno if unclamped else f.line, sample=ncount)
    if not table_decided:
      col.ob("G16", "S2", f"{where}::average-over-target-set", PM is not None and LV is not None and okavg,
             "the per-prefix loss is not (sum over non-padding targets) / max(number of targets, 1)", rel, f.line)
    R_enum.g8_dispatch(pkg, res, col, f, "reduction", "S2", members=["mean", "sum", "none"], allow_else=0)
    # mean reduction: per-sequence average over its non-padding prefixes, i.e. both partial sums run over the
    # *sequence* axis of the (T, N) / (N, T) layout selected by batch_first, before the batch mean
    from sa.astutil import eval_under_flag, guards_of, parent_map
    rdf = ReachingDefs(f.node)
    pmf = parent_map(f.node)
    axes = []
    for c in own_calls(f.node):
        if not (isinstance(c.func, ast.Attribute) and c.func.attr in ("sum", "mean") and c.args):
            continue
        from sa.astutil import reached_for
        if not reached_for(guards_of(pmf, c), "reduction", "mean", others=("sum", "none")):
            continue  # (the mean branch: `if reduction == 'mean':`, or the fall-through after the other reductions returned)
        a = c.args[0]
        axes.append((c, eval_under_flag(a, "batch_first", True, rdf), eval_under_flag(a, "batch_first", False, rdf)))
    if len(axes) < 2:
        raise AnalysisError("C03: the mean branch of the OCD loss no longer reduces over a layout-dependent axis twice")
    for c, vt, vf in axes:
        if vt is None or vf is None:
            raise AnalysisError(f"C03: cannot evaluate the reduction axis of `{u(c)[:60]}` under batch_first")
    col.ob("G14", "S2", f"{where}::mean-reduces-over-sequence-axis", all((vt, vf) == (1, 0) for _, vt, vf in axes),
           f"the mean reduction sums over axis {[(vt, vf) for _, vt, vf in axes]} (batch_first=True, False); the loss "
           f"and the padding mask are laid out like the targets, (N, T) when batch_first else (T, N), so the "
           f"per-sequence average over non-padding prefixes needs axis (1, 0): otherwise prefixes are averaged across "
           f"the batch and short sequences are mis-weighted", rel, axes[0][0].lineno, sample=[u(c)[:80] for c, _, _ in axes])
    # in optimal_completion: targets buffer filled with `padding`, scattered by count mask
    rdo = ReachingDefs(oc.node)
    fulls = [c for c in own_calls(oc.node) if call_name(c) == "torch.full" and len(c.args) >= 2]
    col.ob("G13", "S2", f"{rel}::optimal_completion::targets-initialised-with-padding", len(fulls) == 1 and u(fulls[0].args[1]) == "padding",
           "the target buffer is not initialised with the padding value", rel, oc.line)
    # the scatter mask of the target buffer: count > position (tokens first, then only padding)
    sc = [c for c in own_calls(oc.node) if isinstance(c.func, ast.Attribute) and c.func.attr in ("masked_scatter_", "masked_scatter") and c.args]
    # decided on the expansion, either orientation: <counts>.unsqueeze(-1) > arange(C)  /  arange(C) < <counts>.unsqueeze(-1),
    # with counts a sum of the mask
    from sa.astutil import oriented
    from sa.inline import Inliner
    inl_o = Inliner(oc.node, rdo)
    tmv = inl_o.expand(sc[0].args[0]) if len(sc) == 1 else None
    oktm = False
    o_ = oriented(tmv, lambda e: isinstance(e, ast.Call) and call_name(e) == "torch.arange") if tmv is not None else None
    if o_ is not None:
        op_, _, other_ = o_
        oktm = op_ == "lt" and isinstance(other_, ast.Call) and isinstance(other_.func, ast.Attribute) and other_.func.attr == "unsqueeze" \
            and [u(a_) for a_ in other_.args] == ["-1"] and isinstance(other_.func.value, ast.Call) \
            and isinstance(other_.func.value.func, ast.Attribute) and other_.func.value.func.attr == "sum"
    col.ob("G12", "S2", f"{rel}::optimal_completion::targets-left-aligned", oktm,
           f"target slots are filled under `{u(tmv) if tmv is not None else None}`; expected count > position (tokens first, then only padding)", rel, oc.line)
    plumbing(ctx, "S1")
    return dict(
        explanation=(
            "Decides for C03: (S1) forwarding of OptimalCompletion / the OCD loss, optimal_completion runs the kernel in "
            "mask mode, the loss calls it with exclude_last=True and binds options by name; (S2) one sentinel: the "
            "targets' padding, cross_entropy's ignore_index and the padding-mask constant are the same parameter; targets "
            "are left-aligned (count > position) in a buffer initialised with the padding; the per-prefix loss is the sum "
            "over non-padding targets divided by max(count, 1); every reduction is handled. NOT decided: the diagonal-"
            "minimum argument, duplicate collapsing (sort / neighbour comparison / scatter), the averaging values."),
        decided=["S1", "S2"],
        not_decided=["targets are exactly the distance-preserving tokens", "duplicate collapsing", "loss values"],
        assumptions=["torch cross_entropy ignore_index semantics"],
    )


def _validation_head_table(ctx: Ctx, f, rel: str):
    """S2b: the loss exists for every include_eos setting: with include_eos=False the eos only delimits the sequences and need not be a
    class; with include_eos=True it is a target and must be a class index different from ignore_index. The statements before the
    target lists are computed (argument checks) are interpreted (sa/interp.py, exact values) for well-shaped inputs and
    eos in {None, -1, 0, V - 1, V}, include_eos on / off, ignore_index in {-100, 0}: they must raise exactly when include_eos is set and
    eos is given and (eos < 0 or eos >= V or eos == ignore_index)."""
    import numpy as np
    from sa.interp import Interp
    from sa.inteval import NotEvaluable
    from sa.teval import frac_array
    col = ctx.col
    where = f"{rel}::{f.qualname}"
    body = f.node.body
    start = next((i for i, st in enumerate(body) if any(isinstance(c, ast.Call) and call_name(c) == "optimal_completion" for c in ast.walk(st))), None)
    if not start:
        return
    head = ast.FunctionDef(name="head", args=f.node.args, body=body[:start] + [ast.Return(value=ast.Constant(value=True))], decorator_list=[], lineno=f.node.lineno)
    ast.fix_missing_locations(head)
    V = 6
    bad, n_rows = None, 0
    try:
        for eos in (None, -1, 0, V - 1, V):
            for inc in (True, False):
                for ig in (-100, 0):
                    env = {a.arg: None for a in f.node.args.args}
                    env.update(logits=frac_array(np.zeros((3, 2, V), dtype=int).tolist()), ref=frac_array(np.zeros((4, 2), dtype=int).tolist()),
                               hyp=frac_array(np.zeros((3, 2), dtype=int).tolist()), eos=eos, include_eos=inc, batch_first=False, ignore_index=ig,
                               reduction="mean", warn=False, ins_cost=1.0, del_cost=1.0, sub_cost=1.0)
                    kind, got = Interp(tensors=True).run(head, env)
                    n_rows += 1
                    want = inc and eos is not None and (eos < 0 or eos >= V or eos == ig)
                    if (kind == "raise") != want and bad is None:
                        bad = (eos, inc, ig, kind)
    except NotEvaluable:
        return
    col.floor("ocd_validation_rows", n_rows, 20)
    col.ob("G12", "S2", f"{where}::validation-table", bad is None,
           (f"with eos={bad[0]}, include_eos={bad[1]}, ignore_index={bad[2]} and {V} classes the argument checks {'raise' if bad[3] == 'raise' else 'pass'}; "
            f"documented: refused exactly when include_eos is set and the eos is not a class index or equals ignore_index - with include_eos=False "
            f"the eos only delimits the sequences and any value is legal, so the loss must exist") if bad else "", rel, f.line, sample=dict(rows=n_rows))


def _loss_tail_table(ctx: Ctx, f, rel: str):
    """S2 as a table: the tail of the hard OCD loss - from the target lists to the returned value - interpreted over exact values
    (sa/interp.py with sa/teval.py; nothing is run). The target lists (three sequences x three prefixes x two slots, with prefixes
    and a whole sequence that have no target) and the per-slot cross entropies (distinct rationals, zero where the target is the
    ignore index, as cross_entropy defines) are given; the result is compared with the documented value for every reduction,
    both layouts and a negative, a zero and a positive ignore index:

        per prefix:  sum of the cross entropies of its targets / max(number of targets, 1)
        'none' -> that matrix;  'sum' -> its total;  'mean' -> mean over sequences of (sum over prefixes / max(prefixes with a target, 1))"""
    import numpy as np
    from fractions import Fraction as Fr
    from sa.interp import Interp
    from sa.inteval import NotEvaluable
    from sa.teval import DivisionByZero, frac_array
    col = ctx.col
    where = f"{rel}::{f.qualname}"
    body = f.node.body
    start = next((i for i, st in enumerate(body) if any(isinstance(c, ast.Call) and call_name(c) == "optimal_completion" for c in ast.walk(st))), None)
    if start is None:
        raise AnalysisError("C03: the hard OCD loss no longer calls optimal_completion")
    tail = ast.FunctionDef(name="tail", args=f.node.args, body=body[start:], decorator_list=[], lineno=f.node.lineno)
    T_ = [[[3, None], [2, 4], [None, None]], [[None, None], [None, None], [5, None]], [[None, None], [None, None], [None, None]]]  # (N, T, U)
    LV = [[[Fr(2), Fr(3)], [Fr(5), Fr(7)], [Fr(11), Fr(13)]], [[Fr(17), Fr(19)], [Fr(23), Fr(29)], [Fr(31), Fr(37)]],
          [[Fr(41), Fr(43)], [Fr(47), Fr(53)], [Fr(59), Fr(61)]]]
    bad, n_rows = None, 0
    try:
        for ignore in (-100, 0, 9):
            for bf in (True, False):
                for red in ("none", "sum", "mean"):
                    opt = np.array([[[ignore if x is None else x for x in row] for row in seq] for seq in T_], dtype=object)
                    lv = frac_array(LV)
                    if not bf:
                        opt, lv = np.swapaxes(opt, 0, 1), np.swapaxes(lv, 0, 1)
                    opt = frac_array(opt.tolist())

                    def leaf(x, env, opt=opt, lv=lv, ignore_=ignore):
                        if isinstance(x, ast.Call):
                            nm = call_name(x)
                            if nm == "optimal_completion":
                                # the target lists are padded with what the call asks for (`padding=`; the library default otherwise)
                                pk = [k.value for k in x.keywords if k.arg == "padding"]
                                pad_ = holder["it"].eval(pk[0], env) if pk else -100
                                return np.where(opt == ignore_, pad_, opt) if pad_ != ignore_ else opt
                            if nm.endswith("cross_entropy"):
                                kws = {k.arg: k.value for k in x.keywords}
                                if "reduction" not in kws or u(kws["reduction"]) != "'none'":
                                    raise NotEvaluable("cross_entropy without reduction='none'")
                                it_ = holder["it"]
                                tg = it_.eval(x.args[1] if len(x.args) > 1 else kws["target"], env)
                                ig = it_.eval(kws["ignore_index"], env) if "ignore_index" in kws else -100
                                flat = lv.reshape(-1)
                                if tg.shape != flat.shape:
                                    raise NotEvaluable("cross_entropy target shape")
                                from sa.interp import Raised
                                if any((int(t_) < 0 or int(t_) >= 6) and t_ != ig for t_ in tg.tolist()):
                                    raise Raised("IndexError (cross_entropy: a target that is not ignored is out of bounds)")
                                return np.where(tg == ig, Fr(0), flat)
                        return None
                    holder = {}
                    it = Interp(leaf=leaf, tensors=True)
                    holder["it"] = it
                    env = {a.arg: None for a in f.node.args.args}
                    env.update(ignore_index=ignore, batch_first=bf, reduction=red, include_eos=True, warn=True,
                               logits=frac_array(np.zeros(opt.shape[:2] + (6,), dtype=int).tolist()))
                    kind, got = it.run(tail, env)
                    n_rows += 1
                    # documented value
                    mask = np.array([[[x is not None for x in row] for row in seq] for seq in T_])
                    L0 = frac_array(LV)
                    cnt = mask.sum(2)
                    per = (np.where(mask, L0, Fr(0)).sum(2)) / np.maximum(cnt, 1)  # (N, T)
                    if red == "none":
                        want = per if bf else per.T
                    elif red == "sum":
                        want = per.sum()
                    else:
                        want = sum(per[n_].sum() / max(int((cnt[n_] > 0).sum()), 1) for n_ in range(per.shape[0])) / per.shape[0]
                    same = kind == "return" and (np.array_equal(np.asarray(got, dtype=object), np.asarray(want, dtype=object))
                                                  if hasattr(want, "shape") else (not hasattr(got, "shape") or getattr(got, "size", 2) == 1) and got == want)
                    if not same and bad is None:
                        bad = (ignore, bf, red, kind, got, want)
    except DivisionByZero as e:
        col.ob("G12", "S2", f"{where}::loss-table", False,
               f"`{e}` divides by zero for the reference target lists (a prefix without targets, a sequence whose every prefix is padding): the "
               f"quotient is 0 / 0 = NaN and the mean over the batch is NaN; a divisor that counts targets must be clamped to at least one", rel, f.line)
        return True
    except NotEvaluable as e:
        col.undecided(f"{where}: the tail of the loss is outside the interpreted fragment ({e})")
        return False
    col.floor("ocd_loss_table_rows", n_rows, 18)

    def _show(v):
        return str(v.tolist() if hasattr(v, "tolist") else v)[:90]
    col.ob("G12", "S2", f"{where}::loss-table", bad is None,
           (f"with ignore_index={bad[0]}, batch_first={bad[1]}, reduction={bad[2]!r} the loss tail computes {_show(bad[4]) if bad[3] == 'return' else 'raise ' + str(bad[4])} "
            f"for the reference target lists; the documented value (per prefix: sum over its targets / max(#targets, 1); 'mean': per sequence, sum over "
            f"prefixes / max(#prefixes with a target, 1), then the batch mean) is {_show(bad[5])}") if bad else "", rel, f.line, sample=dict(rows=n_rows))
    return True


def _mutants():
    from selftest.mutate import Mutant as M
    _extra = [
        M("mean-over-batch-axis", "_string.py", "seq_dim = 1 if batch_first else 0", "seq_dim = 0 if batch_first else 1", "mean-reduces-over-sequence-axis"),
        M("mean-denominator-fixed-axis", "_string.py", "(~padding_mask).any(2).sum(seq_dim)", "(~padding_mask).any(2).sum(0)", "G"),
        M("twin:axis-by-int", "_string.py", "seq_dim = 1 if batch_first else 0", "seq_dim = int(batch_first)", "", twin=True),
    ]
    S = "_string.py"
    return _extra + [
        M("loss-includes-last-prefix", S, "padding=ignore_index, exclude_last=True, warn=warn)", "padding=ignore_index, exclude_last=False, warn=warn)", "optimal_completion-binding"),
        M("padding-default-used", S, "padding=ignore_index, exclude_last=True, warn=warn)", "exclude_last=True, warn=warn)", "G"),
        M("mask-compares-other-constant", S, "padding_mask = optimals == ignore_index", "padding_mask = optimals == config.INDEX_PAD_VALUE", "one-padding-sentinel"),
        M("ce-ignores-default", S, "weight=weight, ignore_index=ignore_index, reduction='none'", "weight=weight, reduction='none'", "loss-table"),
        M("no-clamp", S, "loss = loss / (~padding_mask).sum(2).clamp_min(1)", "loss = loss / (~padding_mask).sum(2)", "loss-table"),
        M("oc-not-mask-mode", S, "sub_cost, warn, return_mask=True, exclude_last=exclude_last)", "sub_cost, warn, return_prf_dsts=True, exclude_last=exclude_last)", "kernel-mode"),
        M("targets-right-aligned", S, "target_mask = counts.unsqueeze(-1) > torch.arange(C, device=device)", "target_mask = counts.unsqueeze(-1) >= torch.arange(C, device=device)", "targets-left-aligned"),
        M("targets-zero-filled", S, "targets = torch.full((H, N, C), padding, dtype=torch.long, device=device)", "targets = torch.full((H, N, C), 0, dtype=torch.long, device=device)", "targets-initialised"),
        M("twin:rename-optimals", S, "optimals", "targets_", "", -1, twin=True),
    ]


def selftest(ctx: Ctx):
    from selftest.mutate import run_selftest
    return run_selftest("C03", ctx.pkg.repo, _mutants(), floor=7)


MANIFEST = dict(
    level_text=(
        "Static analysis (no execution): forwarding/binding of the optimal-completion options, kernel mode, and the "
        "single-sentinel table (target padding == cross-entropy ignore_index == padding-mask constant), left alignment "
        "of the targets, the averaging shape of the loss and the axis of the mean reduction (the sequence axis of the "
        "layout chosen by batch_first, evaluated under both values of the flag). Structural clauses of C03 ('followed only by padding', "
        "'zero where there are none', one loss position per hypothesis token); that the targets are exactly the "
        "distance-preserving tokens is value-level and not decided."
        " optimal_completion itself (kernel in its mask mode included) is interpreted over exact values for four cost triples x eos / include_eos / layout / exclude_last and compared, prefix by prefix, with the tokens at which the pair's Levenshtein row is minimal - decided on that grid, not for all lengths. The completion table includes a cost triple whose substitution is dearer by one part in 100000 (row minima that close are not ties). A functional and its Module share one default per common option (G5)."),
    level_note="Trusted: python ast; torch cross_entropy semantics.",
    technique="static analysis: argument binding, literal/sentinel table agreement, expression-shape rules, layout-axis evaluation under the batch_first flag; interpretation of the loss tail over exact tensor values (syntax tree only) compared with the documented value for every reduction / layout / ignore index; optimal_completion interpreted completely over exact tensor values (syntax tree only) and compared with the minimal columns of a per-pair Levenshtein table on a finite grid",
    design_ref="DESIGN.md section 4 C03",
)
