"""Shared structural checks for the two beam-style searches (C04 BeamSearch, C05 CTCPrefixSearch):
the language-model state must follow the surviving paths, with the right index space."""
from __future__ import annotations

import ast
from typing import Dict, List, Optional, Set, Tuple

from sa.astutil import call_name, guards_of, parent_map, u
from sa.defuse import Def, ReachingDefs
from sa.model import AnalysisError, FuncInfo, own_calls, own_nodes
from sa.norm import Normalizer, padd, pmul, pstr


class SearchLoop:
    def __init__(self, f: FuncInfo, advance_name: str, src_slot: int, n_slots: int):
        self.f = f
        self.rd = ReachingDefs(f.node)
        self.pm = parent_map(f.node)
        self.advance_name = advance_name
        self.src_slot = src_slot
        self.adv_call = None
        self.adv_assign = None
        for n in own_nodes(f.node):
            if isinstance(n, ast.Assign) and isinstance(n.value, ast.Call) and call_name(n.value) == advance_name \
                    and isinstance(n.targets[0], ast.Tuple):
                self.adv_call, self.adv_assign = n.value, n
        if self.adv_call is None:
            raise AnalysisError(f"{f.key}: unpacked call to {advance_name} not found")
        if len(self.adv_assign.targets[0].elts) != n_slots:
            raise AnalysisError(f"{f.key}: {advance_name} result is unpacked into "
                                f"{len(self.adv_assign.targets[0].elts)} slots, expected {n_slots}")
        self.calc_assign = None
        for n in own_nodes(f.node):
            if isinstance(n, ast.Assign) and isinstance(n.value, ast.Call) and isinstance(n.value.func, ast.Attribute) \
                    and n.value.func.attr == "calc_idx_log_probs" and isinstance(n.targets[0], ast.Tuple):
                self.calc_assign = n
        if self.calc_assign is None:
            raise AnalysisError(f"{f.key}: unpacked call to lm.calc_idx_log_probs not found")

    # defs produced by unpacking a call
    def slot_defs(self, assign: ast.Assign, slot: Tuple[int, ...]) -> List[Def]:
        return [d for d in self.rd.defs if d.stmt is assign and d.slot == slot]

    def slot_name(self, assign: ast.Assign, slot: Tuple[int, ...]) -> str:
        ds = self.slot_defs(assign, slot)
        if len(ds) != 1:
            raise AnalysisError(f"{self.f.key}: slot {slot} of the unpack at line {assign.lineno} is not a name")
        return ds[0].name

    # index-space kinds -----------------------------------------------------------
    def index_kind(self, d: Def, depth: int = 0) -> Tuple[str, Optional[ast.AST]]:
        """('local'|'flat'|'unknown', stride expr)"""
        if depth > 6:
            return "unknown", None
        if d.stmt is self.adv_assign and d.slot == (self.src_slot,):
            return "local", None
        v = d.value
        if d.kind == "assign" and v is not None:
            # as written first; then with temporaries forward-substituted (`offsets = arange(..).unsqueeze(1)`) and shape-only
            # wrappers removed. Only the first-level temporaries of the index expression are substituted, so that the stride
            # and stop of the arange keep the names the stride rule compares.
            if not hasattr(self, "_inl"):
                from sa.inline import Inliner
                self._inl = Inliner(self.f.node, self.rd, max_depth=1)
            for ve, defs_of in ((v, self.rd.defs_of), (self._inl.expand(v), self._inl.defs_of)):
                while isinstance(ve, ast.Call) and isinstance(ve.func, ast.Attribute) and ve.func.attr in ("flatten", "view", "reshape", "contiguous"):
                    ve = ve.func.value
                if isinstance(ve, ast.BinOp) and isinstance(ve.op, ast.Add):
                    for a, b in ((ve.left, ve.right), (ve.right, ve.left)):
                        ar = _find_arange(a) or _find_arange(self._deep().expand(a))
                        if ar is not None and isinstance(b, ast.Name):
                            ks = {self.index_kind(x, depth + 1)[0] for x in defs_of(b)}
                            if ks == {"local"}:
                                return "flat", a
                            return "unknown", None
        if d.kind == "assign" and isinstance(v, ast.Call) and call_name(v) == "torch.cat" and v.args \
                and isinstance(v.args[0], (ast.List, ast.Tuple)) and v.args[0].elts:
            first = v.args[0].elts[0]
            if isinstance(first, ast.Name):
                ks = {self.index_kind(x, depth + 1)[0] for x in self.rd.defs_of(first)}
                if len(ks) == 1:
                    return ks.pop(), None
        return "unknown", None

    def _deep(self):
        if not hasattr(self, "_inl_deep"):
            from sa.inline import Inliner
            self._inl_deep = Inliner(self.f.node, self.rd)
        return self._inl_deep

    def use_kinds(self, e: ast.AST) -> Tuple[Set[str], List[ast.AST]]:
        """Index-space kinds of the source-index names inside expression e."""
        kinds, strides = set(), []
        # the index may be built in place: `(arange(0, W*N, W).unsqueeze(1) + src).flatten()`
        ve = e
        while isinstance(ve, ast.Call) and isinstance(ve.func, ast.Attribute) and ve.func.attr in ("flatten", "view", "reshape", "contiguous"):
            ve = ve.func.value
        if isinstance(ve, ast.BinOp) and isinstance(ve.op, ast.Add):
            for a, b in ((ve.left, ve.right), (ve.right, ve.left)):
                ar = _find_arange(a) or _find_arange(self._deep().expand(a))
                if ar is not None and isinstance(b, ast.Name):
                    ks = {self.index_kind(x)[0] for x in self.rd.defs_of(b)}
                    if ks == {"local"}:
                        return {"flat"}, [a]
        for n in ast.walk(e):
            if isinstance(n, ast.Name) and isinstance(n.ctx, ast.Load):
                for d in self.rd.defs_of(n):
                    k, s = self.index_kind(d)
                    if k != "unknown":
                        kinds.add(k)
                        if s is not None:
                            strides.append(s)
        return kinds, strides


def _find_arange(e: ast.AST) -> Optional[ast.Call]:
    """arange(0, W*N, W)[.unsqueeze(1)] -> the arange call."""
    for n in ast.walk(e):
        if isinstance(n, ast.Call) and call_name(n) == "torch.arange":
            return n
    return None


def check_index_spaces(col, sl: SearchLoop, rel: str, clause: str, reshape_width_of: str):
    """gather(dim>=1, i) needs the beam-local index; extract_by_src(_, i.flatten()) needs the flat one,
    built with stride = the width the step's extension scores were shaped with."""
    f = sl.f
    where = f"{rel}::{f.qualname}"
    n_g = n_e = 0
    for c in own_calls(f.node):
        if isinstance(c.func, ast.Attribute) and c.func.attr == "gather" and len(c.args) == 2:
            kinds, _ = sl.use_kinds(c.args[1])
            if not kinds:
                continue
            n_g += 1
            col.ob("G14", clause, f"{where}::gather({u(c.func.value)[:30]})::beam-local-index", kinds == {"local"},
                   f"`{u(c)[:90]}` indexes a per-element beam axis with a {sorted(kinds)} source index (the offset, "
                   f"flattened index would read another batch element's slot)", rel, c.lineno, sample=u(c)[:120])
        if isinstance(c.func, ast.Attribute) and c.func.attr == "extract_by_src" and len(c.args) == 2:
            kinds, strides = sl.use_kinds(c.args[1])
            n_e += 1
            col.ob("G14", clause, f"{where}::extract_by_src({u(c.args[0])})::flat-index", kinds == {"flat"},
                   f"`{u(c)[:90]}` re-orders the flattened (N*width) model state with a {sorted(kinds) or 'non-'}source "
                   f"index; it needs the batch-offset (flat) index", rel, c.lineno, sample=u(c)[:120])
            for ar in strides:
                ok, why = _stride_ok(ar, sl, reshape_width_of)
                col.ob("G14", clause, f"{where}::extract_by_src({u(c.args[0])})::stride", ok,
                       f"the batch offset `{u(ar)}` {why}", rel, ar.lineno, sample=u(ar))
    col.count("gather_by_source_index_sites", n_g)
    col.count("extract_by_src_sites", n_e)
    return n_g, n_e


def _stride_ok(off: ast.AST, sl: SearchLoop, reshape_width_of: str):
    """The batch offset added to the beam-local source index, by value: with N = 3 batch elements and the step's width W = 4 it must be
    (0, 4, 8) - `arange(0, W * N, W)`, `arange(N) * W`, a named vector ... The width is the one the step's extension scores were
    shaped with (another width variable gets another value here, so using it shows)."""
    import numpy as np
    from sa.inteval import NotEvaluable
    from sa.teval import teval
    # the width the extension scores were shaped with
    widths = set()
    for c in own_calls(sl.f.node):
        if isinstance(c.func, ast.Attribute) and c.func.attr in ("view", "reshape", "expand") and len(c.args) == 3 \
                and isinstance(c.args[2], (ast.Name, ast.Attribute)):
            tgt = sl.pm.get(c)
            while tgt is not None and not isinstance(tgt, ast.stmt):
                tgt = sl.pm.get(tgt)
            if isinstance(tgt, ast.Assign) and any(reshape_width_of in u(t) for t in tgt.targets):
                widths.add(u(c.args[1]))
    if not widths:
        return False, f"cannot be compared: no (N, width, V) shaping of {reshape_width_of} found"
    ex = sl._deep().expand(off)

    def leaf(x):
        t = u(x)
        if t in widths:
            return 4
        if isinstance(x, ast.Attribute) and x.attr in ("device", "dtype"):
            return "<meta>"
        if isinstance(x, ast.Subscript) and isinstance(x.value, ast.Attribute) and x.value.attr == "shape":
            return 3
        if isinstance(x, ast.Call) and isinstance(x.func, ast.Attribute) and x.func.attr == "size" and len(x.args) == 1:
            return 3
        if isinstance(x, ast.Attribute) and t.startswith("self.") and ("width" in x.attr):
            return 5
        if isinstance(x, ast.Name):
            return 7 if "width" in x.id else 3
        return None
    try:
        v = teval(ex, {}, leaf)
    except NotEvaluable as e:
        return False, f"cannot be evaluated ({e})"
    got = [int(z) for z in np.asarray(v).reshape(-1).tolist()] if hasattr(v, "shape") else v
    if got != [0, 4, 8]:
        return False, (f"is {got} for 3 batch elements and a step width of 4 (the width {sorted(widths)} the extension scores are shaped with); "
                       f"the flattened (batch, width) state needs offsets (0, 4, 8) = stride * batch index")
    return True, ""


def make_call_summary(res, ctx_func: FuncInfo):
    """Slot-aware summaries for calls to package functions whose every return is a tuple: slot i of the
    result derives (value flow) only from the arguments bound to the parameters that slot i of the callee's
    return derives from."""
    from sa.resolve import bind_args
    cache = {}

    def summary(call: ast.Call, slot):
        r = res.resolve_call(call, ctx_func)
        if not r:
            return None
        callee = r[0][-1]
        key = id(callee)
        if key not in cache:
            rdc = ReachingDefs(callee.node)
            per_slot = None
            for st, _ in rdc.return_envs:
                if not isinstance(st.value, ast.Tuple):
                    per_slot = None
                    break
                cur = []
                for e in st.value.elts:
                    der = rdc.derives(e, value_flow=True)
                    cur.append({d.name for d in der.defs if d.kind == "param"})
                if per_slot is None:
                    per_slot = cur
                elif len(per_slot) == len(cur):
                    per_slot = [a | b for a, b in zip(per_slot, cur)]
                else:
                    per_slot = None
                    break
            cache[key] = per_slot
        per_slot = cache[key]
        if per_slot is None or not slot or slot[0] >= len(per_slot):
            return None
        b = bind_args(call, callee, r[1])
        return [a for p, a, _ in b.pairs if p.name in per_slot[slot[0]]]

    return summary


def fusion_component_lineage(ctx, clause: str, class_names=("ShallowFusionLanguageModel", "ExtractableShallowFusionLanguageModel",
                                                       "MixableShallowFusionLanguageModel")):
    """Shallow fusion keeps one state dict per component: slot 0 / 1 of `split_dicts` and formal 0 / 1 of `merge_dicts`
    belong to `self.first` / `self.second`. A state that reaches a method of one component, or the other component's
    slot of `merge_dicts`, from the wrong lineage makes that component's state stop following the paths."""
    import ast
    from sa.astutil import u
    from sa.defuse import ReachingDefs
    from sa.model import own_calls
    col, pkg = ctx.col, ctx.pkg
    COMP = ("first", "second")
    nsites = 0
    for cn in class_names:
        ci = pkg.cls(f"_lm::{cn}")
        for fl in ci.methods.values():
            for m in fl:
                if m.is_overload:
                    continue
                rd = ReachingDefs(m.node)
                rel = m.module.relname

                def comp_of_call(c):
                    f_ = c.func
                    if isinstance(f_, ast.Attribute) and isinstance(f_.value, ast.Attribute) and u(f_.value.value) == "self" \
                            and f_.value.attr in COMP:
                        return f_.value.attr
                    return None

                def lineage(e, depth=0, seen=None):
                    seen = seen if seen is not None else set()
                    out = set()
                    if depth > 10:
                        return out
                    if isinstance(e, ast.Call):
                        c = comp_of_call(e)
                        if c:
                            return {c}
                    if isinstance(e, ast.Name):
                        for d in rd.defs_of(e):
                            if id(d) in seen:
                                continue
                            seen.add(id(d))
                            v = d.value
                            if v is None:
                                continue
                            if isinstance(v, ast.Call) and u(v.func) == "self.split_dicts" and d.kind == "unpack" and d.slot:
                                out.add(COMP[d.slot[0]] if d.slot[0] < 2 else "?")
                            elif isinstance(v, ast.Call) and comp_of_call(v):
                                out.add(comp_of_call(v))
                            elif d.kind in ("assign", "unpack"):
                                out |= lineage(v, depth + 1, seen)
                        return out
                    for ch in ast.iter_child_nodes(e):
                        out |= lineage(ch, depth + 1, seen)
                    return out
                for c in own_calls(m.node):
                    comp = comp_of_call(c)
                    if comp:
                        for a in list(c.args) + [k.value for k in c.keywords]:
                            ln = lineage(a)
                            if not ln:
                                continue
                            nsites += 1
                            col.ob("G2", clause, f"{rel}::{m.qualname}::self.{comp}.{c.func.attr}({u(a)})-own-state", ln == {comp},
                                   f"`{u(c)[:80]}` hands `self.{comp}` a state of lineage {sorted(ln)} (slot of split_dicts / "
                                   f"result of the other component): the {comp} component's state no longer follows its own "
                                   f"history", rel, c.lineno, nontrivial=False)
                    elif u(c.func) == "self.merge_dicts" and len(c.args) == 2:
                        for i, a in enumerate(c.args):
                            ln = lineage(a)
                            nsites += 1
                            col.ob("G2", clause, f"{rel}::{m.qualname}::merge_dicts[{COMP[i]}]<-{u(a)}", ln == {COMP[i]},
                                   f"`{u(c)}` stores a state of lineage {sorted(ln)} under the {COMP[i]} component's prefix",
                                   rel, c.lineno, nontrivial=False)
    col.count("fusion_state_sites", nsites)
    col.floor("fusion_state_sites", nsites, 16)


def finished_mass_on_eos(ctx, f, clause: str, floor: int = 1):
    """A finished path puts its whole mass on eos: the step's scores are first cleared (-inf) under the per-path finished
    mask F and then the eos column is set to 0 under `F & one_hot(eos)`. Both writes must be masked by the SAME mask F: a
    different (e.g. per-element) mask in the first write leaves the model's own scores on the non-eos columns of a finished
    path, so it re-enters the beam as itself with junk appended."""
    import ast
    from sa.astutil import is_neg_inf, u
    from sa.defuse import ReachingDefs
    from sa.model import AnalysisError, own_nodes
    col = ctx.col
    rd = ReachingDefs(f.node)
    rel = f.module.relname
    where = f"{rel}::{f.qualname}"

    def strip_shape(e):
        while isinstance(e, ast.Call) and isinstance(e.func, ast.Attribute) and e.func.attr in ("unsqueeze", "to", "view", "expand", "bool"):
            e = e.func.value
        return e

    from sa.inline import Inliner
    inl = Inliner(f.node, rd)

    def mask_base(e):
        """(base Name node of the function, has one_hot factor) of a mask expression; temporaries are forward-substituted."""
        e = strip_shape(inl.expand(e))
        conj = []

        def flat(x):
            if isinstance(x, ast.BinOp) and isinstance(x.op, ast.BitAnd):
                flat(x.left), flat(x.right)
            else:
                conj.append(strip_shape(x))
        flat(e)
        def _col_sel(v_):
            # the eos column: one_hot(eos, V), or `arange(V) == eos`
            return any(isinstance(x, ast.Call) and u(x.func).endswith("one_hot") for x in ast.walk(v_)) or any(
                isinstance(x, ast.Compare) and len(x.ops) == 1 and isinstance(x.ops[0], ast.Eq)
                and any(isinstance(c_, ast.Call) and call_name(c_) == "torch.arange" for s2 in (x.left, x.comparators[0]) for c_ in ast.walk(s2))
                and any("eos" in u(s2) for s2 in (x.left, x.comparators[0])) for x in ast.walk(v_))

        def _is_onehot(s_):
            if _col_sel(s_):
                return True
            if isinstance(s_, ast.Name):
                o2_ = inl.orig.get(id(s_), s_)
                if any(d_.value is not None and _col_sel(d_.value) for d_ in rd.defs_of(o2_)):
                    return True
            # a named one-hot vector, possibly with a placeholder definition on the branch where there is no eos
            if isinstance(s_, ast.Name):
                o_ = inl.orig.get(id(s_), s_)
                # (its own definitions only: through the loop everything derives from everything)
                return any(d_.value is not None and any(isinstance(x, ast.Call) and u(x.func).endswith("one_hot") for x in ast.walk(d_.value))
                           for d_ in rd.defs_of(o_))
            return False
        oh = [s for s in conj if _is_onehot(s)]
        rest = [s for s in conj if s not in oh]
        if len(rest) == 1 and isinstance(rest[0], ast.Name) and len(oh) <= 1:
            return inl.orig.get(id(rest[0]), rest[0]), bool(oh)
        return None, False

    def same_value(a, b):
        return a.id == b.id and rd.defs_of(a) == rd.defs_of(b)
    n = 0
    for st in own_nodes(f.node):
        if not (isinstance(st, ast.Assign) and isinstance(st.value, ast.Call) and isinstance(st.value.func, ast.Attribute)
                and st.value.func.attr == "masked_fill" and len(st.value.args) == 2):
            continue
        c2 = st.value
        v2 = c2.args[1]
        if not (isinstance(v2, ast.Constant) and v2.value == 0):
            continue
        b2, oh = mask_base(c2.args[0])
        if not oh or b2 is None:
            continue
        # the tensor it is applied to must be the result of the -inf write
        recv = c2.func.value
        firsts = []
        if isinstance(recv, ast.Name):
            for d in rd.defs_of(recv):
                v = d.value
                if isinstance(v, ast.Call) and isinstance(v.func, ast.Attribute) and v.func.attr == "masked_fill" \
                        and len(v.args) == 2 and is_neg_inf(v.args[1]):
                    firsts.append(v)
        elif isinstance(recv, ast.Call) and isinstance(recv.func, ast.Attribute) and recv.func.attr == "masked_fill" \
                and len(recv.args) == 2 and is_neg_inf(recv.args[1]):
            firsts.append(recv)
        n += 1
        ok = False
        got = None
        if len(firsts) == 1:
            b1, oh1 = mask_base(firsts[0].args[0])
            got = u(firsts[0].args[0])
            ok = b1 is not None and not oh1 and same_value(b1, b2)
        col.ob("G13", clause, f"{where}::finished-path-cleared-under-its-own-mask", ok,
               f"the eos column is set to 0 under `{u(b2)}` & one_hot(eos) but the other columns are cleared under `{got}`: a "
               f"finished path keeps the model's scores for non-eos tokens and competes as a continuation of itself", rel,
               st.lineno, sample=dict(cleared_under=got, eos_set_under=u(c2.args[0])))
    if n < floor:
        col.undecided(f"{where}: the 'finished path puts its mass on eos' idiom was not found")


def initial_state_reaches_the_model(ctx, f: FuncInfo, clause: str):
    """The search modules take the model's initial state from the caller (`initial_state`; `prev_` inside). By value: the statements of
    `forward` that define the first argument of the FIRST `lm.update_input(state, history)` call (a backward slice over plain assignments
    and conditionals) are interpreted (sa/pyinterp.py) once with a state given and once without: the model receives exactly the caller's
    state when one is given, an empty one otherwise. A state that is accepted and then replaced by a fresh dict restarts a stateful model
    from its default - every extension probability is conditioned on the wrong context, only for callers that pass a state."""
    import copy
    from sa.inteval import NotEvaluable
    from sa.pyinterp import PyInterp, Raised
    col = ctx.col
    rel = f.module.relname
    where = f"{rel}::{f.qualname}"
    state_formal = next((p.name for p in f.params[1:] if "prev" in p.name or "state" in p.name), None)
    # the first update_input call in statement order, with the statements that precede it on the way down
    def find(block, before):
        for i_, st in enumerate(block):
            hit = next((c for c in ast.walk(st) if isinstance(c, ast.Call) and isinstance(c.func, ast.Attribute) and c.func.attr == "update_input"), None)
            if hit is None:
                continue
            pre = before + list(block[:i_])
            if isinstance(st, (ast.If, ast.For, ast.While, ast.With)):
                for sub in (st.body, getattr(st, "orelse", [])):
                    if any(hit is c for s_ in sub for c in ast.walk(s_)):
                        return find(sub, pre)
            return hit, pre
        return None, before
    call, pre = find(list(f.node.body), [])
    if call is None or state_formal is None or not call.args:
        col.undecided(f"{where}: no lm.update_input(state, ...) call / state formal found")
        return
    need = {x.id for x in ast.walk(call.args[0]) if isinstance(x, ast.Name)}
    keep = []
    for st in reversed(pre):
        stores = {t.id for x in ast.walk(st) if isinstance(x, (ast.Assign, ast.AnnAssign, ast.AugAssign))
                  for t in (x.targets if isinstance(x, ast.Assign) else [x.target]) if isinstance(t, ast.Name)}
        if stores & need and isinstance(st, (ast.Assign, ast.AnnAssign, ast.If)):
            keep.append(st)
            need |= {x.id for x in ast.walk(st) if isinstance(x, ast.Name) and isinstance(x.ctx, ast.Load)}
    keep.reverse()
    fn = ast.FunctionDef(name="_state", args=ast.arguments(posonlyargs=[], args=[ast.arg(arg=state_formal)], kwonlyargs=[], kw_defaults=[], defaults=[]),
                         body=[copy.deepcopy(s_) for s_ in keep] + [ast.Return(value=copy.deepcopy(call.args[0]))], decorator_list=[])
    ast.fix_missing_locations(fn)
    bad = None
    try:
        for given in ({"h": "the caller's state"}, None):
            got = PyInterp().call_function(fn, [copy.deepcopy(given)], {})
            want = given if given is not None else {}
            if got != want and bad is None:
                bad = (given, got)
    except (NotEvaluable, Raised, KeyError, TypeError, AttributeError) as e_:
        col.undecided(f"{where}: the definition of the state handed to lm.update_input is outside the interpreted fragment ({e_})")
        return
    col.ob("G12", clause, f"{where}::initial-state-reaches-the-model", bad is None,
           (f"called {'with the state ' + str(bad[0]) if bad[0] is not None else 'without a state'}, the model's update_input receives {bad[1]}: "
            f"{'the state the caller passed is dropped and a stateful model starts from its default' if bad[0] is not None else 'expected an empty state'}") if bad else "",
           rel, call.lineno, sample=dict(statements=len(keep)))


def eos_is_stored_normalised(ctx, f: FuncInfo, clause: str):
    """The search modules accept the end-of-sequence token as an index from either end of the vocabulary (-V .. V - 1) and compare tokens
    with `self.eos`; tokens are non-negative, so the stored value is the index counted from the front. By value: the statements of the
    constructor that define what is stored in `self.eos` (a backward slice; validators return their first argument) are interpreted
    (sa/pyinterp.py) for eos = None, 0, V - 1, -1 and -V with V = 5: None stays None, every other value is stored as eos mod V. A negative
    value stored as given never equals a token - no path ever ends, and the forced re-emission indexes one_hot with a negative class."""
    import copy
    from sa.inteval import NotEvaluable
    from sa.pyinterp import Obj, PyInterp, Raised
    col = ctx.col
    rel = f.module.relname
    where = f"{rel}::{f.qualname}"
    body = list(f.node.body)
    store_at = next((i_ for i_, st in enumerate(body) if isinstance(st, ast.Assign) and any(
        isinstance(t_, ast.Attribute) and u(t_) == "self.eos" for t_ in st.targets)), None)
    if store_at is None:
        col.undecided(f"{where}: no top-level `self.eos = ...` found")
        return
    stored = body[store_at].value
    need = {x.id for x in ast.walk(stored) if isinstance(x, ast.Name)}
    keep = []
    for st in reversed(body[:store_at]):
        stores = {t.id for x in ast.walk(st) if isinstance(x, (ast.Assign, ast.AnnAssign, ast.AugAssign))
                  for t in (x.targets if isinstance(x, ast.Assign) else [x.target]) if isinstance(t, ast.Name)}
        if stores & need and isinstance(st, (ast.Assign, ast.AnnAssign, ast.If)):
            keep.append(st)
            need |= {x.id for x in ast.walk(st) if isinstance(x, ast.Name) and isinstance(x.ctx, ast.Load)}
    keep.reverse()
    params = [p.name for p in f.params[1:] if p.name in need]
    fn = ast.FunctionDef(name="_eos", args=ast.arguments(posonlyargs=[], args=[ast.arg(arg=p_) for p_ in params], kwonlyargs=[], kw_defaults=[], defaults=[]),
                         body=[copy.deepcopy(s_) for s_ in keep] + [ast.Return(value=copy.deepcopy(stored))], decorator_list=[])
    ast.fix_missing_locations(fn)
    V = 5
    holder = {}

    def leaf(e, env):
        if isinstance(e, ast.Call) and call_name(e).startswith("argcheck.") and e.args:
            return holder["it"].eval(e.args[0], env)
        return None
    bad = None
    try:
        for eos in (None, 0, V - 1, -1, -V):
            it = PyInterp(leaf=leaf)
            holder["it"] = it
            args = [eos if p_ == "eos" else (Obj(vocab_size=V) if p_ == "lm" else None) for p_ in params]
            got = it.call_function(fn, args, {})
            want = None if eos is None else eos % V
            if (got != want or type(got) is not type(want)) and bad is None:
                bad = (eos, got, want)
    except (NotEvaluable, Raised, KeyError, TypeError, AttributeError) as e_:
        col.undecided(f"{where}: the definition of self.eos is outside the interpreted fragment ({e_})")
        return
    col.ob("G12", clause, f"{where}::eos-stored-as-an-index-from-the-front", bad is None,
           (f"constructed with eos={bad[0]} over a vocabulary of {V}, the module stores {bad[1]!r}; tokens are compared with the stored value, "
            f"so it must be {bad[2]!r}") if bad else "", rel, body[store_at].lineno, sample=dict(statements=len(keep)))
