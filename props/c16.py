"""C16 crash safety of an epoch update: path/typestate rules over training.py (G10)."""
from __future__ import annotations

import ast
from typing import Dict, List, Optional, Set

from sa.astutil import attr_chain, call_name, func_stmts, guards_of, kwarg, parent_map, u
from sa.defuse import ReachingDefs
from sa.model import AnalysisError, own_calls, own_nodes
from sa.paths import Decision, Event, PathEnumerator, dedupe_exceptional
from .common import Ctx, plumbing

MOD = "training"
CLS = "TrainingStateController"
CKPT_FN = "save_model_and_optimizer_with_info"
HIST_FN = "save_info_to_hist"
DEL_FN = "_clean_up_files"
MODEL_PATH_FN = "get_model_path_with_info"
OPTIM_PATH_FN = "get_optimizer_path_with_info"
WRITE_PRIMS = {
    "torch.save": "save", "os.replace": "replace", "os.rename": "replace", "os.remove": "remove",
    "os.unlink": "remove", "shutil.move": "replace", "shutil.copy": "save", "shutil.copyfile": "save",
    "shutil.rmtree": "remove", "os.rmdir": "remove", "os.truncate": "save",
}
DESIGNATED = {
    CKPT_FN: {"save", "replace", "tmpfile"},
    HIST_FN: {"open-append"},
    DEL_FN: {"remove"},
}


def _self_call(n: ast.AST, names) -> Optional[str]:
    if (isinstance(n, ast.Call) and isinstance(n.func, ast.Attribute) and isinstance(n.func.value, ast.Name)
            and n.func.value.id == "self" and n.func.attr in names):
        return n.func.attr
    return None


def _event(n: ast.AST) -> Optional[str]:
    s = _self_call(n, (CKPT_FN, HIST_FN, DEL_FN))
    return {CKPT_FN: "CKPT", HIST_FN: "HIST", DEL_FN: "DEL"}.get(s)


class Prov:
    """Provenance of checkpoint-path expressions inside update_for_epoch."""

    def __init__(self, f, rd: ReachingDefs):
        self.f = f
        self.rd = rd
        from sa.inline import Inliner
        self.inl = Inliner(f.node, rd)
        # the info object that is saved: the argument of the CKPT calls
        self.new_info_defs = set()
        self.cache_store_line = None
        for n in own_nodes(f.node):
            if _self_call(n, (CKPT_FN,)) and n.args:
                a = n.args[-1]
                if isinstance(a, ast.Name):
                    self.new_info_defs |= {id(d) for d in rd.defs_of(a)}
            if isinstance(n, ast.Assign):
                for t in n.targets:
                    if isinstance(t, ast.Subscript) and attr_chain(t.value) == "self.cache_hist":
                        self.cache_store_line = n.lineno
        if not self.new_info_defs:
            raise AnalysisError("C16: cannot find the info object passed to the checkpoint saver")

    def info_kind(self, x: ast.expr) -> str:
        """new | last | prev_best | cur_best | other for the info expression x."""
        if isinstance(x, ast.Name):
            if {id(d) for d in self.rd.defs_of(x)} & self.new_info_defs:
                return "new"
        der = self.rd.derives(x)
        kinds = set()
        for c in der.calls():
            if _self_call(c, ("get_info",)) and c.args:
                a = self.inl.expand(c.args[0])  # a named `prev = epoch - 1` is the same row
                if isinstance(a, ast.BinOp) and isinstance(a.op, ast.Sub) and u(a.right) == "1":
                    kinds.add("last")
                    continue
                ader = self.rd.derives(a)
                bests = [cc for cc in ader.calls() if _self_call(cc, ("get_best_epoch",))]
                if bests:
                    for b in bests:
                        if self.cache_store_line is not None and b.lineno > self.cache_store_line:
                            kinds.add("cur_best")
                        else:
                            kinds.add("prev_best")
                else:
                    kinds.add("other")
        if len(kinds) == 1:
            return kinds.pop()
        return "other" if kinds else "unknown"

    def path_kind(self, e: ast.expr):
        """(file kind, info kind) of a checkpoint path expression, or None."""
        der = self.rd.derives(e)
        out = set()
        for c in der.calls():
            s = _self_call(c, (MODEL_PATH_FN, OPTIM_PATH_FN))
            if s and c.args:
                out.add(("model" if s == MODEL_PATH_FN else "optim", self.info_kind(c.args[0])))
        if len(out) == 1:
            return out.pop()
        return None if not out else ("mixed", "mixed")


def run(ctx: Ctx):
    col, pkg, res = ctx.col, ctx.pkg, ctx.res
    rel = pkg.module(MOD).relname
    upd = pkg.func(f"{MOD}::{CLS}.update_for_epoch")
    where = f"{rel}::{CLS}.update_for_epoch"
    pe = PathEnumerator(_event, loop_iters=(0, 1))
    paths = dedupe_exceptional(pe.paths(upd.node.body))
    col.floor("update_for_epoch_paths", len(paths), 20)
    rd = ReachingDefs(upd.node)
    prov = Prov(upd, rd)
    pm = parent_map(upd.node)

    def has_state_dir(p):
        for d in p.decisions:
            if "state_dir" in d.test:
                inner = d.test
                pos = ("is not None" in inner) == d.taken if ("is None" in inner or "is not None" in inner) else d.taken
                return pos
        return None

    # ---- O1 exactly one save and one append on every normal return ----------------
    # ---- O2 save precedes append unless under a data-dependent collision guard ------
    # ---- O3 deletions follow both -----------------------------------------------
    sigs = {}
    n_ret = 0
    for p in paths:
        labs = [e.label for e in p.events if not e.attempted]
        sig = (tuple(p.labels()), p.exit)
        first = sig not in sigs
        sigs.setdefault(sig, p)
        if p.exit != "return":
            # exceptional exit: no deletion may have happened before a failed save
            if "DEL" in labs:
                col.ob("G10", "O3", f"{where}::delete-on-exceptional-path", False,
                       f"a path that raises has already deleted files: {p.describe()}", rel,
                       p.exit_node.lineno if p.exit_node else upd.line, sample=p.describe())
            continue
        n_ret += 1
        sd = has_state_dir(p)
        if sd is None:
            raise AnalysisError("C16: update_for_epoch has a return path with no state_dir decision")
        nck, nh = labs.count("CKPT"), labs.count("HIST")
        desc = p.describe()
        if sd:
            col.ob("G10", "O1", f"{where}::path[{'/'.join(labs)}]::one-save-one-append",
                   nck == 1 and nh == 1,
                   f"with a state directory a normal return performs {nck} checkpoint saves and {nh} "
                   f"history appends (expected exactly 1 and 1): {desc}", rel, p.exit_node.lineno,
                   sample=desc, nontrivial=first)
        else:
            col.ob("G10", "O1", f"{where}::path[{'/'.join(labs)}]::no-state-dir",
                   nck == 0 and nh == 1,
                   f"without a state directory a normal return performs {nck} saves / {nh} appends: {desc}",
                   rel, p.exit_node.lineno, sample=desc, nontrivial=first)
        if nck >= 1 and nh >= 1:
            ick, ih = labs.index("CKPT"), labs.index("HIST")
            if ih < ick:
                # history first: needs a collision guard taken True on this path
                hist_ev = [e for e in p.events if e.label == "HIST"][0]
                g = _collision_guard(hist_ev.node, pm, rd, prov, p)
                taken = any(isinstance(d, Decision) and d.taken and g is not None and d.test == g[1]
                            for d in p.decisions)
                if g is None or not taken:
                    col.ob("G10", "O2", f"{where}::hist-before-ckpt[unguarded]", False,
                           "history is appended before the checkpoint is saved on a path not guarded by a "
                           f"collision predicate over the new checkpoint paths: {desc}", rel, hist_ev.node.lineno,
                           sample=desc)
                else:
                    col.ob("G10", "O2", f"{where}::hist-before-ckpt[collision-guard:{g[0]}]", False,
                           "when the new checkpoint path collides with an existing one the history is appended "
                           "before the checkpoint is replaced; a crash in between leaves the epoch recorded with "
                           f"the previous parameters: {desc}", rel, hist_ev.node.lineno, sample=desc)
            else:
                col.ob("G10", "O2", f"{where}::path[{'/'.join(labs)}]::ckpt-before-hist", True, "", rel,
                       p.exit_node.lineno, sample=desc, nontrivial=first)
        if "DEL" in labs:
            idel = labs.index("DEL")
            ok = "CKPT" in labs[:idel] and "HIST" in labs[:idel]
            col.ob("G10", "O3", f"{where}::path[{'/'.join(labs)}]::delete-last", ok,
                   f"old checkpoints are deleted before both the new checkpoint and the history entry are "
                   f"written: {desc}", rel, p.exit_node.lineno, sample=desc, nontrivial=first)
    col.count("update_for_epoch_event_signatures", len(sigs))
    col.floor("update_for_epoch_return_paths", n_ret, 10)
    # the keep-last-and-best configuration must actually clean up (otherwise "holds exactly
    # those two epochs' files" fails): some return path has a DEL
    col.ob("G10", "O3", f"{where}::cleanup-exists", any("DEL" in [e.label for e in p.events] for p in paths),
           "no path of update_for_epoch deletes superseded checkpoints", rel, upd.line)

    # ---- O4 deletion set provenance ------------------------------------------------
    # (which files remain after every completed update is decided by value - the checkpoint table, O13; how the deletion set is put
    #  together is read from the code only when the update is outside the interpreted fragment)
    from . import ckpt_table as CT
    if not CT.check(ctx, "G10", "O13"):
        _o4(ctx, upd, rd, prov, pm, where, rel)
    # the 'nothing to delete' branch is decided by the best epoch AFTER this update: only if the previous epoch is (still) the best
    # are its files the best checkpoint. Tested on the best epoch from before the update, two improvements in a row leave the
    # previous epoch's files - neither last nor best any more - on disk for ever
    from sa.inline import Inliner as _InlO9
    inl9 = _InlO9(upd.node, rd)
    tests9 = []
    from sa.inteval import NotEvaluable as _NE9, int_eval as _ie9
    for n_ in own_nodes(upd.node):
        if isinstance(n_, ast.Compare) and len(n_.ops) == 1 and isinstance(n_.ops[0], (ast.Eq, ast.NotEq)):
            # `<best> == epoch - 1`, `<best> + 1 == epoch`, `epoch - <best> == 1` ...: a comparison of a best-epoch name B with `epoch`
            # that holds exactly when B == epoch - 1 (decided on a grid), whichever side carries the offset
            bests = [x for x in ast.walk(n_) if isinstance(x, ast.Name) and _best_kind(x, rd, prov) is not None]
            if len(bests) != 1 or not any(isinstance(x, ast.Name) and x.id == "epoch" for x in ast.walk(inl9.expand(n_))):
                continue
            try:
                ex_ = inl9.__class__(upd.node, rd, keep={bests[0].id, "epoch"}).expand(n_)
                hold = {(b_, e_): bool(_ie9(ex_, {bests[0].id: b_, "epoch": e_})) for b_ in range(0, 6) for e_ in range(1, 6)}
            except _NE9:
                continue
            eq = isinstance(n_.ops[0], ast.Eq)
            if all(v_ == ((b_ == e_ - 1) == eq) for (b_, e_), v_ in hold.items()):
                tests9.append((n_, _best_kind(bests[0], rd, prov)))
    col.count("previous-epoch-is-best tests", len(tests9))
    bad9 = [(n_, k_) for n_, k_ in tests9 if k_ != "cur_best"]
    col.ob("G10", "O9", f"{where}::previous-epoch-kept-iff-it-is-the-current-best", bool(tests9) and not bad9,
           (f"`{u(bad9[0][0])}` compares the previous epoch with the best epoch from BEFORE this update ({bad9[0][1]}): when the new epoch "
            f"becomes the best right after the previous one did, the clean-up is skipped and the previous epoch's checkpoint stays in the "
            f"state directory") if bad9 else "the branch that keeps the previous epoch's files (current best == epoch - 1) was not found",
           rel, bad9[0][0].lineno if bad9 else upd.line, sample=[(u(n_), k_) for n_, k_ in tests9])
    # ---- O7 refusal to overwrite the best checkpoint -------------------------------
    _o7(ctx, upd, paths, rd, prov, where, rel)
    # ---- O5 atomic publish -----------------------------------------------------------
    _o5(ctx, rel)
    # ---- O6 who may write ------------------------------------------------------------
    _o6(ctx, rel)
    # ---- O8 reader / writer path agreement -----------------------------------------
    _o9_o10(ctx, rel)
    _o8(ctx, rel)
    _o11(ctx, rel)
    # O12: the clean-up visits EVERY path it is given: a path that does not exist (the never-written epoch 0, a file removed by hand)
    # is skipped, it does not end the loop - otherwise the superseded checkpoints that come after it in the set stay on disk for good
    cu = ctx.pkg.func(f"{MOD}::{CLS}._clean_up_files")
    exits = []
    n_loops = 0
    for lp in own_nodes(cu.node):
        if isinstance(lp, (ast.For, ast.While)):
            n_loops += 1
            for x in ast.walk(lp):
                if isinstance(x, (ast.Break, ast.Return)) or (isinstance(x, ast.Raise) and not any(isinstance(h, ast.ExceptHandler) and any(y is x for y in ast.walk(h)) for h in ast.walk(lp))):
                    exits.append(x)
    ctx.col.floor("clean_up_loops", n_loops, 1)
    ctx.col.ob("G10", "O12", f"{rel}::{CLS}._clean_up_files::every-path-is-visited", not exits,
               (f"the clean-up loop is left by `{type(exits[0]).__name__.lower()}` at line {exits[0].lineno}: the first path that is skipped (or fails) ends "
                f"the whole clean-up, and the checkpoints after it in the set are never deleted - the state directory then holds more than the "
                f"last and best epochs' files") if exits else "", rel, exits[0].lineno if exits else cu.line)
    plumbing(ctx, "S0", g3=False, g4=False)
    return dict(
        explanation=(
            "Decides structural clauses O1-O8 of C16 on every feasible syntactic path of "
            "TrainingStateController.update_for_epoch and its three effect functions: exactly one checkpoint "
            "save and one history append per normal return (O1); checkpoint before history except under a "
            "data-dependent collision guard (O2; the guarded exception itself is the known finding F8); "
            "deletions after both (O3); deletion set = previous-last U (previous-best if it changed) minus "
            "new paths (O4); temp-file + os.replace publication, all temporaries written before the first "
            "replace (O5); who-may-write and append-mode history (O6); refusal before any write when the new "
            "path equals the best path (O7); loaders and deleter use the saver's path helpers with matching "
            "kinds (O8). NOT decided: equality of loaded parameters, 'same history as uninterrupted' (needs "
            "C15 arithmetic), file-system behaviour (os.replace atomicity is trusted)."),
        decided=["O1", "O2", "O3", "O4", "O5", "O6", "O7", "O8"],
        not_decided=["parameter equality after reload", "history equality with the uninterrupted run",
                     "filesystem semantics (atomic rename, fsync)"],
        assumptions=["os.replace within one directory is atomic", "exceptions other than those raised by the "
                     "designated effect calls do not occur between effects",
                     "a crash point is any position between two effect events of a path"],
    )


def _collision_guard(hist_call: ast.Call, pm, rd: ReachingDefs, prov: Prov, path=None):
    """The innermost guard of the history-first call: returns (kind, test text) when the guard
    is a name whose definition data-depends on both new checkpoint paths. When the flag has several definitions (the common
    save block hoisted out of the branches), the one on the given path is judged: the definition all of whose enclosing
    branch decisions were taken by the path."""
    gs = guards_of(pm, hist_call)
    if not gs:
        return None
    test, pol = gs[-1]
    if not pol:
        return None
    if not isinstance(test, ast.Name):
        return _classify_collision(test, test, rd, prov)  # the predicate written in the test itself
    defs = list(rd.defs_of(test))
    if len(defs) > 1 and path is not None:
        taken = {(d_.test, d_.taken) for d_ in path.decisions}
        tests = {d_.test for d_ in path.decisions}
        on_path = []
        for d_ in defs:
            st_ = getattr(d_, "stmt", None)
            if st_ is None:
                continue
            if isinstance(d_.value, ast.Constant) and not d_.value.value:
                continue  # `flag = False` cannot be the definition under which the flag was found true
            g_ = guards_of(pm, st_, early_exits=False)
            # (a branch without effect events is not a recorded decision of the path: it does not contradict)
            if all((u(t_), pol_) in taken for t_, pol_ in g_ if u(t_) in tests):
                on_path.append(d_)
        # the last one in program order wins (a later definition on the same path overwrites an earlier one)
        defs = sorted(on_path, key=lambda d_: d_.line)[-1:] if on_path else defs
    if len(defs) != 1:
        return None
    d = defs[0]
    v = d.value
    if v is None or isinstance(v, ast.Constant):
        return None
    return _classify_collision(v, test, rd, prov)


def _classify_collision(v: ast.AST, test: ast.AST, rd: ReachingDefs, prov: Prov):
    from sa.inline import Inliner
    inl_ = getattr(prov, "_inl", None)
    if inl_ is None:
        # checkpoint-path variables are the rule's vocabulary: they stay names, everything else is looked through
        keep_ = {n.id for n in ast.walk(prov.f.node) if isinstance(n, ast.Name) and isinstance(n.ctx, ast.Load) and prov.path_kind(n) and prov.path_kind(n)[0] != "mixed"}
        inl_ = prov._inl = Inliner(prov.f.node, rd, keep=keep_)
    v = inl_.expand(v)  # the two path sets may have been given names first
    # classify
    news = set()
    for n in ast.walk(v):
        if isinstance(n, ast.Name) and isinstance(n.ctx, ast.Load):
            k = prov.path_kind(n)
            if k and k[1] == "new":
                news.add(k[0])
    if news != {"model", "optim"}:
        return None
    while isinstance(v, ast.Call) and call_name(v) == "bool" and len(v.args) == 1:
        v = v.args[0]
    if isinstance(v, ast.BinOp) and isinstance(v.op, ast.BitAnd):
        return ("intersection", u(test))
    # `not A.isdisjoint(B)` / `A.intersection(B)`: the same non-empty-intersection test
    if isinstance(v, ast.UnaryOp) and isinstance(v.op, ast.Not) and isinstance(v.operand, ast.Call) and isinstance(v.operand.func, ast.Attribute) \
            and v.operand.func.attr == "isdisjoint" and len(v.operand.args) == 1:
        return ("intersection", u(test))
    if isinstance(v, ast.Call) and isinstance(v.func, ast.Attribute) and v.func.attr == "intersection" and len(v.args) == 1:
        return ("intersection", u(test))
    # any(p in A for p in B): a non-empty intersection, element by element
    if isinstance(v, ast.Call) and call_name(v) == "any" and len(v.args) == 1 and isinstance(v.args[0], (ast.GeneratorExp, ast.ListComp)) \
            and isinstance(v.args[0].elt, ast.Compare) and len(v.args[0].elt.ops) == 1 and isinstance(v.args[0].elt.ops[0], ast.In) \
            and len(v.args[0].generators) == 1 and u(v.args[0].elt.left) == u(v.args[0].generators[0].target):
        return ("intersection", u(test))
    if all(isinstance(c, ast.Call) and call_name(c) == "os.path.exists"
           for c in (v.values if isinstance(v, ast.BoolOp) and isinstance(v.op, ast.Or) else [None])):
        return ("exists", u(test))
    # any(os.path.exists(p) for p in (a, b))
    if isinstance(v, ast.Call) and call_name(v) == "any" and len(v.args) == 1 and isinstance(v.args[0], (ast.GeneratorExp, ast.ListComp)) \
            and isinstance(v.args[0].elt, ast.Call) and call_name(v.args[0].elt) == "os.path.exists":
        return ("exists", u(test))
    # any(map(os.path.exists, (a, b)))
    if isinstance(v, ast.Call) and call_name(v) == "any" and len(v.args) == 1 and isinstance(v.args[0], ast.Call) and call_name(v.args[0]) == "map" \
            and len(v.args[0].args) == 2 and u(v.args[0].args[0]) == "os.path.exists":
        return ("exists", u(test))
    return ("other", u(test))


def _o4(ctx, upd, rd, prov, pm, where, rel):
    col = ctx.col
    dels = [n for n in own_nodes(upd.node) if _self_call(n, (DEL_FN,))]
    col.count("cleanup_call_sites", len(dels))
    for call in dels:
        # the deleted collection: names inside the call's arguments
        roots = [n for a in call.args for n in ast.walk(a) if isinstance(n, ast.Name) and isinstance(n.ctx, ast.Load)
                 and n.id not in ("tuple", "list", "sorted", "set")]
        direct = [a for a in call.args if isinstance(a, ast.Name) and prov.path_kind(a) is not None
                  and prov.path_kind(a)[0] != "mixed"]
        if direct:
            # paths passed directly: each must be a superseded path, and nothing subtracts the new paths
            for r in direct:
                k = prov.path_kind(r)
                col.ob("G10", "O4", f"{where}::cleanup-member[{k}]", k[1] in ("last", "prev_best"),
                       f"`{u(r)}` is deleted but is not a previous-last / previous-best checkpoint path", rel,
                       r.lineno, sample=dict(member=u(r), provenance=k))
            col.ob("G10", "O4", f"{where}::cleanup-minus-new-paths", False,
                   "checkpoint paths are deleted directly, without subtracting the new checkpoint paths "
                   "(a format without the epoch field would delete the checkpoint just written)", rel, call.lineno)
            continue
        if len(roots) != 1:
            raise AnalysisError("C16-O4: deletion argument is not a single collection variable")
        root = roots[0]
        # walk the def chain of the collection: assign {..}, |= {..} (guarded), -= {..}
        chain = []
        cur = rd.defs_of(root)
        seen = set()
        while cur:
            nxt = frozenset()
            for d in cur:
                if id(d) in seen:
                    continue
                seen.add(id(d))
                chain.append(d)
                nxt |= getattr(d, "prev", frozenset())
            cur = nxt
        added, removed = [], []
        last_op = None
        from sa.inline import Inliner as _InlS
        inl_set = _InlS(upd.node, rd, keep={root.id} | {n_.id for n_ in ast.walk(upd.node) if isinstance(n_, ast.Name)
                                                        and isinstance(n_.ctx, ast.Load) and prov.path_kind(n_) and prov.path_kind(n_)[0] != "mixed"})

        def set_ops(e):
            """[(op, elts)] of a set expression: displays joined by | / + (add) and - (sub), left to right; a display that
            was given a name first (`new_paths = {a, b}`) is looked through."""
            if isinstance(e, ast.Name) and e.id != root.id:
                e = inl_set.expand(e)
            if isinstance(e, (ast.Set, ast.List, ast.Tuple)):
                return [("add", list(e.elts))]
            if isinstance(e, ast.Call) and call_name(e) in ("set", "list", "tuple", "frozenset") and not e.keywords:
                if not e.args:
                    return [("add", [])]  # the empty collection
                if len(e.args) == 1:
                    return set_ops(e.args[0])
            if isinstance(e, ast.BinOp) and isinstance(e.op, (ast.BitOr, ast.Add, ast.Sub)):
                lft, rgt = set_ops(e.left), set_ops(e.right)
                if lft is None or rgt is None or len(rgt) != 1 or rgt[0][0] != "add":
                    return None
                return lft + [("sub" if isinstance(e.op, ast.Sub) else "add", rgt[0][1])]
            return None
        for d in sorted(chain, key=lambda d: d.line):
            st = d.stmt
            if d.kind == "assign":
                ops = set_ops(d.value)
                if ops is None:
                    raise AnalysisError("C16-O4: deletion set is not built from set displays")
            elif d.kind == "aug":
                op = type(st.op).__name__
                ops = set_ops(st.value)
                if ops is None or len(ops) != 1:
                    raise AnalysisError("C16-O4: deletion set update is not a set display")
                if op in ("BitOr", "Add"):
                    pass
                elif op == "Sub":
                    ops = [("sub", ops[0][1])]
                else:
                    raise AnalysisError(f"C16-O4: unknown set update {op}")
            else:
                continue
            for kind_, elts in ops:
                if kind_ == "add":
                    for e in elts:
                        added.append((e, guards_of(pm, st)))
                    last_op = "add"
                else:
                    removed.extend(elts)
                    last_op = "sub"
        base_guards = {u(t) for t, _ in guards_of(pm, call)}
        for e, gs in added:
            k = prov.path_kind(e)
            extra = [(t, pol) for t, pol in gs if u(t) not in base_guards]
            okk = k is not None and k[1] in ("last", "prev_best")
            col.ob("G10", "O4", f"{where}::cleanup-member[{k}]", okk,
                   f"`{u(e)}` enters the deletion set but is not a previous-last / previous-best checkpoint "
                   f"path (provenance {k})", rel, e.lineno, sample=dict(member=u(e), provenance=k))
            if k is not None and k[1] == "prev_best":
                # must be guarded by `previous best != current best`
                ok = False
                for t, pol in extra:
                    if isinstance(t, ast.Compare) and len(t.ops) == 1 and isinstance(t.ops[0], (ast.NotEq, ast.Eq)):
                        want = isinstance(t.ops[0], ast.NotEq) == pol
                        ks = {_best_kind(x, rd, prov) for x in (t.left, t.comparators[0])}
                        if want and ks == {"prev_best", "cur_best"}:
                            ok = True
                col.ob("G10", "O4", f"{where}::cleanup-prev-best-guard[{k[0]}]", ok,
                       f"the previous best checkpoint `{u(e)}` is scheduled for deletion without the guard "
                       f"'previous best != current best': the best checkpoint can be deleted", rel, e.lineno,
                       sample=dict(member=u(e), guards=[u(t) for t, _ in extra]))
        rk = {prov.path_kind(e) for e in removed}
        ok = last_op == "sub" and {("model", "new"), ("optim", "new")} <= rk
        col.ob("G10", "O4", f"{where}::cleanup-minus-new-paths", ok,
               "the new checkpoint paths are not subtracted from the deletion set after the last union "
               "(a format without the epoch field would delete the checkpoint just written)", rel, call.lineno,
               sample=dict(removed=[u(e) for e in removed], last_op=last_op))


def _best_kind(x, rd, prov):
    der = rd.derives(x)
    ks = set()
    for c in der.calls():
        if _self_call(c, ("get_best_epoch",)):
            ks.add("cur_best" if prov.cache_store_line is not None and c.lineno > prov.cache_store_line
                   else "prev_best")
    return ks.pop() if len(ks) == 1 else None


def _o7(ctx, upd, paths, rd, prov, where, rel):
    col = ctx.col
    # comparisons new-path == cur-best-path
    tests = {}
    for n in own_nodes(upd.node):
        if isinstance(n, ast.Compare) and len(n.ops) == 1 and isinstance(n.ops[0], (ast.Eq, ast.NotEq)):
            a, b = prov.path_kind(n.left), prov.path_kind(n.comparators[0])
            if a and b and a[0] == b[0] and {a[1], b[1]} == {"new", "cur_best"}:
                tests[u(n)] = (a[0], isinstance(n.ops[0], ast.Eq))
    kinds = {k for k, _ in tests.values()}
    col.ob("G10", "O7", f"{where}::refusal-tests", kinds == {"model", "optim"},
           f"update_for_epoch does not compare both new checkpoint paths with the best epoch's paths "
           f"(found {sorted(kinds)})", rel, upd.line, sample=dict(tests=list(tests)))
    n = 0
    for p in paths:
        evs = [e.label for e in p.events]
        decs = {d.test: d.taken for d in p.decisions}
        hit = [t for t, (k, iseq) in tests.items() if t in decs and decs[t] == iseq]
        if hit:
            n += 1
            ok = p.exit == "raise" and not evs
            col.ob("G10", "O7", f"{where}::refuse[{tests[hit[0]][0]}]", ok,
                   f"a path on which the new checkpoint path equals the best checkpoint path does not raise "
                   f"before writing: {p.describe()}", rel, p.exit_node.lineno if p.exit_node else upd.line,
                   sample=p.describe())
        elif "CKPT" in evs and any("keep_last_and_best_only" in d.test and d.taken for d in p.decisions):
            # reaching a save in keep-last-and-best mode: either current epoch is the best, or both
            # equalities were tested and were false
            cb = [d for d in p.decisions if isinstance(_parse(d.test), ast.Compare) and _is_curbest_ne_epoch(d, rd, upd)]
            if cb and cb[0].taken:
                tested = {tests[t][0] for t in tests if t in decs}
                col.ob("G10", "O7", f"{where}::save-after-refusal-tests", tested == {"model", "optim"},
                       f"a save is reached with best != current epoch without testing both path equalities: "
                       f"{p.describe()}", rel, upd.line, sample=p.describe(), nontrivial=False)
    col.count("refusal_paths", n)


def _parse(s):
    try:
        return ast.parse(s, mode="eval").body
    except SyntaxError:
        return None


def _is_curbest_ne_epoch(d: Decision, rd, upd) -> bool:
    t = _parse(d.test)
    if not (isinstance(t, ast.Compare) and len(t.ops) == 1 and isinstance(t.ops[0], ast.NotEq)):
        return False
    names = {u(t.left), u(t.comparators[0])}
    return "epoch" in names and len(names) == 2


def _saver_table(ctx, rel, where) -> bool:
    """O8 by value: `save_model_and_optimizer_with_info` interpreted over plain data (sa/pyinterp.py; nothing is run) against a modelled
    directory: NamedTemporaryFile creates a fresh entry in the directory it is given, torch.save stores a tag of the object written,
    os.replace moves an entry. For the writing rank with a state directory: afterwards the directory holds exactly the model's state under
    the model path and the optimizer's state under the optimizer path (no temporary left, nothing else), both temporaries were created in
    the directory of their destination, and no destination was replaced before both temporaries were written. Without a state directory
    and for every other rank nothing is touched. False when outside the interpreted fragment."""
    from sa.inteval import NotEvaluable
    from sa.pyinterp import Obj, PyInterp, Raised
    col, pkg = ctx.col, ctx.pkg
    cls = [st for st in pkg.module(MOD).tree.body if isinstance(st, ast.ClassDef) and st.name == CLS]
    if not cls:
        return False
    methods = {st.name: st for st in cls[0].body if isinstance(st, ast.FunctionDef)}
    if not all(k in methods for k in (CKPT_FN, MODEL_PATH_FN, OPTIM_PATH_FN)):
        return False
    bad, rows = None, 0
    try:
        for state_dir, rank, fmts in (("D", 0, ("model_{epoch:03d}.pt", "optim_{epoch:03d}.pt")), ("D", -1, ("m/{epoch}.pt", "o/{epoch}.pt")),
                                      ("D", 0, ("same_dir/model.pt", "same_dir/optim.pt")), ("D", 1, ("model.pt", "optim.pt")),
                                      (None, 0, ("model.pt", "optim.pt"))):
            fs, events, holder = {}, [], {}
            model, optim = Obj(tag="MODEL"), Obj(tag="OPTIMIZER")

            def leaf(e, env):
                it = holder["it"]
                if not isinstance(e, ast.Call):
                    return None
                cn = call_name(e)
                if isinstance(e.func, ast.Attribute) and e.func.attr == "state_dict" and not e.args:
                    who = it.eval(e.func.value, env)
                    if who is model or who is optim:
                        return who.attrs["tag"] + "-STATE"
                    return None
                if cn == "os.path.join":
                    return "/".join(str(it.eval(a, env)) for a in e.args)
                if cn == "os.path.dirname":
                    p_ = str(it.eval(e.args[0], env))
                    return p_.rsplit("/", 1)[0] if "/" in p_ else ""
                if cn == "os.makedirs":
                    return "made"
                if cn.endswith("NamedTemporaryFile"):
                    d_ = kwarg(e, "dir")
                    dl = kwarg(e, "delete")
                    name = f"{it.eval(d_, env) if d_ is not None else '/tmp'}/tmp{len(events)}"
                    if dl is None or it.eval(dl, env):
                        events.append(("TEMP-DELETED-ON-CLOSE", name))
                    fs[name] = "<empty>"
                    events.append(("TEMP", name))
                    return Obj(name=name)
                if cn == "torch.save" and len(e.args) + len(e.keywords) >= 2:
                    what = it.eval(e.args[0], env)
                    f_ = it.eval(e.args[1] if len(e.args) > 1 else kwarg(e, "f"), env)
                    name = f_.attrs["name"] if isinstance(f_, Obj) and "name" in f_.attrs else f_
                    if not isinstance(name, str):
                        raise NotEvaluable("torch.save target")
                    fs[name] = what
                    events.append(("SAVE", name))
                    return "saved"
                if cn in ("os.replace", "os.rename", "shutil.move") and len(e.args) == 2:
                    src, dst = it.eval(e.args[0], env), it.eval(e.args[1], env)
                    if src not in fs:
                        raise Raised("FileNotFoundError")
                    fs[dst] = fs.pop(src)
                    events.append(("REPLACE", src, dst))
                    return "replaced"
                if cn in ("os.remove", "os.unlink") and len(e.args) == 1:
                    p_ = it.eval(e.args[0], env)
                    if p_ not in fs:
                        raise Raised("FileNotFoundError")
                    del fs[p_]
                    return "removed"
                if cn == "os.path.exists":
                    return ("yes",) if it.eval(e.args[0], env) in fs else ()
                return None
            it = PyInterp(leaf=leaf)
            holder["it"] = it
            self_ = Obj(state_dir=state_dir, _rank=rank, params=Obj(saved_model_fmt=fmts[0], saved_optimizer_fmt=fmts[1]))
            self_.__dict__["cls"] = cls[0]
            info = {"epoch": 7}
            rows += 1
            try:
                it.call_function(methods[CKPT_FN], [self_, model, optim, info], {})
                outcome = None
            except Raised as r_:
                outcome = r_.kind
            cfg = f"state_dir={state_dir!r}, rank {rank}, file names {fmts}"
            writes = state_dir is not None and rank <= 0
            want = {f"D/{fmts[0].format(**info)}": "MODEL-STATE", f"D/{fmts[1].format(**info)}": "OPTIMIZER-STATE"} if writes else {}
            problem = None
            if outcome is not None:
                problem = f"the call raises {outcome}"
            elif fs != want:
                problem = f"afterwards the directory holds {dict(sorted(fs.items()))}; documented: {want}"
            elif writes:
                temps = [ev_[1] for ev_ in events if ev_[0] == "TEMP"]
                moved = {ev_[1]: ev_[2] for ev_ in events if ev_[0] == "REPLACE"}
                first_repl = min([i_ for i_, ev_ in enumerate(events) if ev_[0] == "REPLACE"], default=None)
                if any(ev_[0] == "TEMP-DELETED-ON-CLOSE" for ev_ in events):
                    problem = "a temporary is created to be deleted when it is closed: there is nothing left to move into place"
                elif any(t_ in moved and t_.rsplit("/", 1)[0] != moved[t_].rsplit("/", 1)[0] for t_ in temps):
                    problem = f"a temporary is not created in the directory of its destination ({moved}): the move is not atomic across file systems"
                elif first_repl is None or sum(1 for ev_ in events[:first_repl] if ev_[0] == "SAVE") < 2:
                    problem = "a checkpoint file is moved into place before both temporaries are written"
            if problem and bad is None:
                bad = (cfg, problem)
    except (NotEvaluable, Raised, KeyError, AttributeError, IndexError, TypeError, ValueError):
        return False
    col.ob("G10", "O8", f"{where}::saver-table", bad is None,
           (f"[{bad[0]}] {bad[1]}") if bad else "", rel, methods[CKPT_FN].lineno, sample=dict(rows=rows))
    return True


def _o5(ctx, rel):
    col, pkg = ctx.col, ctx.pkg
    f = pkg.func(f"{MOD}::{CLS}.{CKPT_FN}")
    where = f"{rel}::{CLS}.{CKPT_FN}"
    rd = ReachingDefs(f.node)
    pm = parent_map(f.node)
    saves = [c for c in own_calls(f.node) if call_name(c) == "torch.save"]
    repl = [c for c in own_calls(f.node) if call_name(c) in ("os.replace", "os.rename")]
    col.floor("torch_save_sites", len(saves), 1)
    col.floor("os_replace_sites", len(repl), 1)
    for c in saves:
        tgt = c.args[1] if len(c.args) > 1 else kwarg(c, "f")
        ok = False
        why = "target is not a NamedTemporaryFile handle"
        if isinstance(tgt, ast.Name):
            for d in rd.defs_of(tgt):
                v = d.value
                if d.kind == "with" and isinstance(v, ast.Call) and call_name(v).endswith("NamedTemporaryFile"):
                    dirkw = kwarg(v, "dir")
                    delkw = kwarg(v, "delete")
                    okdir = False
                    if dirkw is not None:
                        der = rd.derives(dirkw)
                        okdir = any(isinstance(cc, ast.Call) and call_name(cc) == "os.path.dirname"
                                    for cc in der.calls())
                    okdel = isinstance(delkw, ast.Constant) and delkw.value is False
                    ok = okdir and okdel
                    why = ("temporary is not created in the destination's directory (os.replace would cross "
                           "file systems / not be atomic)" if not okdir else
                           "temporary is created with delete=True") if not ok else ""
        col.ob("G10", "O5", f"{where}::torch.save->tmp", ok,
               f"checkpoint bytes are written to `{u(tgt)}`: {why}", rel, c.lineno, sample=u(c))
    for c in repl:
        src, dst = c.args[0], c.args[1]
        sd = rd.derives(src)
        ok = any(isinstance(n, ast.Attribute) and n.attr == "name" for n in sd.nodes())
        dd = rd.derives(dst)
        okd = any(_self_call(cc, (MODEL_PATH_FN, OPTIM_PATH_FN)) for cc in dd.calls())
        col.ob("G10", "O5", f"{where}::replace(tmp->final)", ok and okd,
               f"os.replace({u(src)}, {u(dst)}) does not move a temporary's name onto a checkpoint path",
               rel, c.lineno, sample=u(c))

    def ev(n):
        if isinstance(n, ast.Call):
            cn = call_name(n)
            if cn == "torch.save":
                return "SAVE"
            if cn in ("os.replace", "os.rename"):
                return "REPLACE"
        return None

    pe = PathEnumerator(ev, loop_iters=(0, 1, 2), exc_edges=False)
    ps = pe.paths(f.node.body)
    bad = None
    full = 0
    for p in ps:
        labs = [e.label for e in p.events]
        if "REPLACE" in labs and "SAVE" in labs[labs.index("REPLACE"):]:
            bad = p
        if labs.count("SAVE") == 2 and labs.count("REPLACE") == 2:
            full += 1
    col.ob("G10", "O5", f"{where}::all-temporaries-before-first-replace", bad is None,
           "a checkpoint file is replaced before every temporary has been written: a failure while writing the "
           f"second file leaves model and optimizer from different epochs: {bad.describe() if bad else ''}",
           rel, f.line, sample=[p.labels() for p in ps][:6])
    col.count("ckpt_saver_paths", len(ps))
    # the saved pairs: (model.state_dict(), model path), (optimizer.state_dict(), optimizer path)
    pairs = 0
    from sa.inline import Inliner as _InlP
    inl_p = _InlP(f.node)
    cands = []
    for n in own_nodes(f.node):
        if isinstance(n, ast.Tuple) and len(n.elts) == 2:
            cands.append((n, n.elts[0], n.elts[1]))
        # `zip((state_a, state_b), (path_a, path_b))`: paired position by position
        if isinstance(n, ast.Call) and call_name(n) == "zip" and len(n.args) == 2:
            a_, b_ = (inl_p.expand(x) for x in n.args)
            if isinstance(a_, (ast.Tuple, ast.List)) and isinstance(b_, (ast.Tuple, ast.List)) and len(a_.elts) == len(b_.elts):
                for x_, y_ in zip(a_.elts, b_.elts):
                    cands.append((n, x_, y_))
    for n, e0, e1 in cands:
        e0, e1 = inl_p.expand(e0), inl_p.expand(e1)
        if isinstance(e0, ast.Call) and isinstance(e0.func, ast.Attribute) and e0.func.attr == "state_dict":
            who = u(e0.func.value)
            pth = _self_call(e1, (MODEL_PATH_FN, OPTIM_PATH_FN))
            if pth:
                pairs += 1
                ok = (who == "model") == (pth == MODEL_PATH_FN)
                col.ob("G10", "O8", f"{where}::pair[{who}]", ok,
                       f"`{who}.state_dict()` is written to the path built by {pth}", rel, n.lineno, sample=u(n)[:120])
    # (the saver table decides the pairing by value, however the two writes are laid out; the written-out pairs are required only where
    # the table could not be evaluated)
    col.floor("saved_pairs", pairs, 0 if _saver_table(ctx, rel, where) else 2)


def _o6(ctx, rel):
    col, pkg = ctx.col, ctx.pkg
    mi = pkg.module(MOD)
    nprim = 0
    for f in pkg.all_functions():
        if f.module is not mi:
            continue
        where = f"{rel}::{f.qualname}"
        for c in own_calls(f.node):
            cn = call_name(c)
            kind = WRITE_PRIMS.get(cn)
            if cn.endswith("NamedTemporaryFile") or cn.endswith("mkstemp"):
                kind = "tmpfile"
            if cn == "open" or cn.endswith(".open"):
                mode = c.args[1] if len(c.args) > 1 else kwarg(c, "mode")
                m = mode.value if isinstance(mode, ast.Constant) else ("r" if mode is None else "?")
                if m == "a":
                    kind = "open-append"
                elif any(ch in m for ch in "wax+?"):
                    kind = "open-write"
            if kind is None:
                continue
            nprim += 1
            allowed = DESIGNATED.get(f.name, set()) if f.cls is not None and f.cls.name == CLS else set()
            col.ob("G10", "O6", f"{where}::{kind}", kind in allowed,
                   f"`{cn}` ({kind}) occurs in {f.qualname}; file mutation is reserved to "
                   f"{sorted(DESIGNATED)}", rel, c.lineno, sample=dict(function=f.qualname, call=u(c)[:80]))
    col.floor("write_primitives", nprim, 3)
    history_header_rule(ctx, "O6")


def history_header_rule(ctx, clause: str, rule: str = "G10"):
    """The history reader (csv.DictReader) takes the first line as the header: the writer must emit the header exactly when the
    file holds nothing yet - not merely when it does not exist (an interrupted first update or a pre-created file leaves an
    existing empty file)."""
    col, pkg = ctx.col, ctx.pkg
    rel = pkg.module(MOD).relname
    # history header only when the file did not exist
    f = pkg.func(f"{MOD}::{CLS}.{HIST_FN}")
    rd = ReachingDefs(f.node)
    pm = parent_map(f.node)
    rows = [c for c in own_calls(f.node) if isinstance(c.func, ast.Attribute) and c.func.attr == "writerow"]
    col.floor("writerow_sites", len(rows), 2)
    # as a truth table: the conjunction of the tests the header row is written under, with named flags looked through, evaluated
    # (sa/inteval.py) in the three states of the history file - absent, present and empty, present with rows; os.path.exists /
    # getsize / stat().st_size / tell() answer from the state. The header is due in the first two and only there.
    from sa.inline import Inliner
    from sa.inteval import NotEvaluable, int_eval
    inl_ = Inliner(f.node, rd)

    class _Inl:
        """Names looked through; a flag assigned in both arms of one `if` (`if exists: flag = size == 0 else: flag = True`) is read as
        the conditional expression it is."""

        @staticmethod
        def expand(t_):
            if isinstance(t_, ast.Name):
                ds = [d for d in rd.defs_of(t_) if d.kind == "assign" and d.value is not None]
                if len(ds) == 2 and len(list(rd.defs_of(t_))) == 2:
                    for n_ in own_nodes(f.node):
                        if isinstance(n_, ast.If) and n_.orelse:
                            in_body = [d for d in ds if any(d.stmt is x for b_ in n_.body for x in ast.walk(b_))]
                            in_else = [d for d in ds if any(d.stmt is x for b_ in n_.orelse for x in ast.walk(b_))]
                            if len(in_body) == 1 and len(in_else) == 1 and in_body[0] is not in_else[0]:
                                return ast.IfExp(test=inl_.expand(n_.test), body=inl_.expand(in_body[0].value), orelse=inl_.expand(in_else[0].value))
            return inl_.expand(t_)
    inl = _Inl
    guarded = [c for c in rows if any(not (isinstance(t_, ast.Compare) and "rank" in u(t_)) and "state_csv_path" not in u(t_) or True for t_, _ in guards_of(pm, c))
               and any(any(k_ in u(inl.expand(t_)) for k_ in ("exists", "getsize", "st_size", "tell")) for t_, _ in guards_of(pm, c))]
    okh, why = False, "the CSV header row is not guarded by an emptiness test of the history file"
    if len(guarded) == 1:
        gs = [(inl.expand(t_), p_) for t_, p_ in guards_of(pm, guarded[0])
              if any(k_ in u(inl.expand(t_)) for k_ in ("exists", "getsize", "st_size", "tell"))]
        try:
            table = {}
            for state, (ex_, size_) in (("absent", (False, 0)), ("empty", (True, 0)), ("rows", (True, 120))):
                def leaf(x, ex_=ex_, size_=size_):
                    if isinstance(x, ast.Call):
                        cn = call_name(x)
                        if cn in ("os.path.exists", "os.path.isfile"):
                            return ex_
                        if cn == "os.path.getsize" or cn.endswith(".tell"):
                            if not ex_:
                                raise NotEvaluable("size of an absent file")
                            return size_
                    if isinstance(x, ast.Attribute) and x.attr == "st_size":
                        if not ex_:
                            raise NotEvaluable("size of an absent file")
                        return size_
                    return None
                table[state] = all(bool(int_eval(t_, {"__leaf__": leaf})) == p_ for t_, p_ in gs)
            okh = table == {"absent": True, "empty": True, "rows": False}
            if not okh:
                why = ("the CSV header is written only when the history file does not *exist*" if table == {"absent": True, "empty": False, "rows": False}
                       else f"the CSV header is written in the states {table} of the history file (absent / empty / with rows); it is due exactly when the file holds nothing yet")
        except NotEvaluable as e:
            why = f"the test the header row is written under cannot be evaluated for an absent / empty / filled history file ({e})"
    col.ob(rule, clause, f"{rel}::{CLS}.{HIST_FN}::header-iff-the-history-is-empty", okh and len(guarded) == 1, why, rel, f.line,
           sample="a crash after open(path, 'a') and before the first flush leaves an existing, empty file: every later update then "
                  "appends rows without a header and the next controller raises KeyError('epoch')")


def _o9_o10(ctx, rel):
    """O9: after an interrupted update, files of that attempt (old checkpoints whose clean-up did not run, temporaries of a
    save that did not finish) are in the state directory; 'exactly those two epochs' files and nothing else' needs some code
    that looks at the directory (listdir / scandir / glob) and reconciles it with the history.
    O10: the in-memory history is extended (`self.cache_hist[epoch] = info`) before the refusals that can still `raise` in
    the same update; after such an exception the controller believes in an epoch that was never recorded, and the next
    update's row makes the file no prefix of any uninterrupted history."""
    col, pkg = ctx.col, ctx.pkg
    ci = pkg.cls(f"{MOD}::{CLS}")
    listing = []
    for fl in ci.methods.values():
        for m in fl:
            for c in own_calls(m.node):
                if call_name(c) in ("os.listdir", "os.scandir", "glob.glob", "glob.iglob") or (
                        isinstance(c.func, ast.Attribute) and c.func.attr in ("iterdir", "glob", "rglob")):
                    listing.append((m.qualname, u(c)[:60]))
    col.ob("G10", "O9", f"{rel}::{CLS}::state-directory-reconciled-with-the-history", bool(listing),
           "no method of the controller ever lists the state directory: old checkpoints whose clean-up was cut short by a crash, "
           "and NamedTemporaryFile(delete=False) files of a save that did not finish, stay there after every later completed "
           "update, so the directory does not hold 'exactly the last and best epochs' files and nothing else'", rel, ci.node.lineno,
           sample=listing)
    f = pkg.func(f"{MOD}::{CLS}.update_for_epoch")
    stores = [n for n in own_nodes(f.node) if isinstance(n, ast.Assign) and any(
        isinstance(t, ast.Subscript) and u(t.value) == "self.cache_hist" for t in n.targets)]
    raises = [n for n in own_nodes(f.node) if isinstance(n, ast.Raise)]
    if len(stores) != 1:
        raise AnalysisError(f"C16: expected one extension of self.cache_hist in update_for_epoch, found {len(stores)}")
    late = [r for r in raises if r.lineno > stores[0].lineno]
    col.ob("G10", "O10", f"{rel}::{CLS}.update_for_epoch::no-refusal-after-the-in-memory-history-was-extended", not late,
           f"`{u(stores[0])}` (line {stores[0].lineno}) precedes {len(late)} `raise` statement(s) of the same update (first at line "
           f"{min(r.lineno for r in late) if late else 0}): when a refusal fires (e.g. 'would overwrite best') nothing is written, yet "
           f"get_last_epoch() already counts the epoch, and the next recorded row skips it", rel, stores[0].lineno,
           sample=[r.lineno for r in late])


def _o11(ctx, rel):
    """O11: which epoch is 'best' decides which files are kept, and it must be the same answer before and after the history is
    reloaded from the csv file - where every metric has been through the column's format string. get_best_epoch therefore orders
    the epochs by the value AS STORED (`float(fmt.format(v))`): an ordering comparison with an operand that comes from the history
    without passing through the format sees a different number than the reloaded controller will."""
    col, pkg = ctx.col, ctx.pkg
    f = pkg.func(f"{MOD}::{CLS}.get_best_epoch")
    rd = ReachingDefs(f.node)
    n_cmp, raw = 0, []
    for n in own_nodes(f.node):
        ops = []
        if isinstance(n, ast.Compare) and all(isinstance(o, (ast.Lt, ast.LtE, ast.Gt, ast.GtE)) for o in n.ops):
            ops = [n.left] + list(n.comparators)
        elif isinstance(n, ast.Call) and call_name(n) in ("min", "max") and len(n.args) >= 2:
            ops = list(n.args)
        if not ops:
            continue
        hist = [o for o in ops if "cache_hist" in " ".join(u(x) for x in rd.derives(o).exprs) or "cache_hist" in u(o)]
        if not hist:
            continue
        n_cmp += 1
        for o in ops:
            if isinstance(o, ast.Constant):
                continue
            der = rd.derives(o)
            through = any(isinstance(c.func, ast.Attribute) and c.func.attr == "format" for c in list(der.calls()) + [c for c in ast.walk(o) if isinstance(c, ast.Call)])
            # every definition of a plain name must itself be a rounded value
            if isinstance(o, ast.Name):
                through = all(d.value is not None and (any(isinstance(c, ast.Call) and isinstance(c.func, ast.Attribute) and c.func.attr == "format" for c in ast.walk(d.value))
                                                       or (isinstance(d.value, ast.Name) and any(isinstance(c.func, ast.Attribute) and c.func.attr == "format" for c in rd.derives(d.value).calls())))
                              for d in rd.defs_of(o) if d.kind != "param")
            if not through:
                raw.append((n, o))
    col.floor("best_epoch_comparisons", n_cmp, 1)
    col.ob("G13", "O11", f"{rel}::{CLS}.get_best_epoch::epochs-ordered-by-the-value-as-stored", not raw,
           (f"`{u(raw[0][0])[:70]}` orders epochs with `{u(raw[0][1])}`, a metric that has not been through the column's format string: "
            f"two epochs that are equal as stored (and after a reload) are told apart now, so the 'best' epoch - and the checkpoint files "
            f"kept for it - changes when the controller is re-created from its history file") if raw else "", rel,
           raw[0][0].lineno if raw else f.line, sample=dict(comparisons=n_cmp))


def _o8(ctx, rel):
    col, pkg = ctx.col, ctx.pkg
    n = 0
    for name in ("load_model_for_epoch", "load_model_and_optimizer_for_epoch"):
        f = pkg.func(f"{MOD}::{CLS}.{name}")
        rd = ReachingDefs(f.node)
        where = f"{rel}::{CLS}.{name}"
        for c in own_calls(f.node):
            if isinstance(c.func, ast.Attribute) and c.func.attr == "load_state_dict" and c.args:
                who = u(c.func.value)
                if who not in ("model", "optimizer"):
                    continue
                der = rd.derives(c.args[0])
                loads = [cc for cc in der.calls() if call_name(cc) == "torch.load"]
                if not loads:
                    continue  # brand-new optimizer state
                n += 1
                kinds = set()
                for ld in loads:
                    pder = rd.derives(ld.args[0])
                    for cc in pder.calls():
                        s = _self_call(cc, (MODEL_PATH_FN, OPTIM_PATH_FN))
                        if s:
                            kinds.add("model" if s == MODEL_PATH_FN else "optimizer")
                col.ob("G10", "O8", f"{where}::{who}.load_state_dict<-{sorted(kinds)}", kinds == {who},
                       f"`{who}` is restored from a file whose path is built for {sorted(kinds)} "
                       f"(the saver writes {who} state to the {who} path helper)", rel, c.lineno,
                       sample=dict(target=who, path_kinds=sorted(kinds)))
    col.floor("loader_restore_sites", n, 3)
    f = pkg.func(f"{MOD}::{CLS}.delete_model_and_optimizer_for_epoch")
    ks = {s for c in own_calls(f.node) for s in [_self_call(c, (MODEL_PATH_FN, OPTIM_PATH_FN))] if s}
    col.ob("G10", "O8", f"{rel}::{CLS}.delete_model_and_optimizer_for_epoch::helpers",
           ks == {MODEL_PATH_FN, OPTIM_PATH_FN} and any(_self_call(c, (DEL_FN,)) for c in own_calls(f.node)),
           "the deleter does not build both paths with the saver's helpers", rel, f.line)


MANIFEST = dict(
    level_text=(
        "Static path/typestate analysis (no execution): on every feasible syntactic path of "
        "TrainingStateController.update_for_epoch and its three effect functions the ordering clauses O1-O8 "
        "of DESIGN.md section 4/C16 hold (one save + one append per return, save before append except under a "
        "data-dependent collision guard, deletions last and only of superseded previous-last/previous-best "
        "paths, temp-file + os.replace publication, who-may-write, refusal to overwrite the best checkpoint, "
        "reader/writer path-helper agreement). These are necessary conditions for crash safety at every crash "
        "point between two file-system effects; parameter equality after reload and file-system semantics are "
        "not decided. save_model_and_optimizer_with_info is interpreted over plain data against a modelled directory (temporary files, torch.save tags, os.replace moves) for the writing rank, other ranks and no state directory: exactly {model path: model state, optimizer path: optimizer state} afterwards, temporaries in the destination's directory, both written before the first move."),
    level_note=(
        "Trusted: python ast; os.replace atomic within a directory; only the designated effect calls touch the "
        "file system; a crash point = any position between two effect events of an enumerated path (loops "
        "unrolled 0/1(/2)). Known finding F8 (collision branch appends history first) is listed in "
        "known_findings.json."),
    technique="static analysis: syntax-directed CFG path enumeration + typestate over effect events, reaching-definitions provenance; checkpoint table: __init__ / update_for_epoch interpreted against a modelled state directory over every metric history of length 3 and 4 (files held after every completed update = last and best epoch with their own parameters; epoch-less names refused exactly when the best checkpoint would be overwritten); the checkpoint saver interpreted against a modelled directory",
    design_ref="DESIGN.md section 4 C16, section 3 G10",
)


def _mutants():
    from selftest.mutate import Mutant as M
    T = "training.py"
    return [
        M("new-paths-subtracted-before-the-old-best-union", T, "clean_up = {last_model_pth, last_optim_pth}\n                    if last_best != cur_best:\n                        clean_up |= {last_best_model_pth, last_best_optim_pth}\n                    clean_up -= {model_pth, optim_pth}",
          "clean_up = {last_model_pth, last_optim_pth} - {model_pth, optim_pth}\n                    if last_best != cur_best:\n                        clean_up |= {last_best_model_pth, last_best_optim_pth}", "cleanup-minus-new-paths"),
        M("twin:cleanup-as-one-expression", T, "clean_up = {last_model_pth, last_optim_pth}\n                    if last_best != cur_best:\n                        clean_up |= {last_best_model_pth, last_best_optim_pth}\n                    clean_up -= {model_pth, optim_pth}",
          "clean_up = {last_model_pth, last_optim_pth}\n                    if last_best != cur_best:\n                        clean_up = clean_up | {last_best_model_pth, last_best_optim_pth}\n                    clean_up = clean_up - {model_pth, optim_pth}", "", twin=True),
        M("swap-save-hist-no-conflict", T,
          "self.save_model_and_optimizer_with_info(model, optimizer, info)\nself.save_info_to_hist(info)",
          "self.save_info_to_hist(info)\nself.save_model_and_optimizer_with_info(model, optimizer, info)",
          "G10/O2", 0),
        M("constant-guard", T,
          "save_info_first = os.path.exists(model_pth) or os.path.exists(optim_pth)",
          "save_info_first = True", "hist-before-ckpt[unguarded]"),
        M("cleanup-removed", T,
          "clean_up -= {model_pth, optim_pth}\nself._clean_up_files(*tuple(clean_up))",
          "pass", "cleanup-exists"),
        M("cleanup-moved-up", T,
          "if save_info_first:\n    self.save_info_to_hist(info)\ntry:",
          "self._clean_up_files(last_model_pth, last_optim_pth)\nif save_info_first:\n    self.save_info_to_hist(info)\ntry:",
          "G10/O3", 0),
        M("drop-minus-new-paths", T, "clean_up -= {model_pth, optim_pth}", "pass", "checkpoint-table"),
        M("drop-best-guard", T,
          "if last_best != cur_best:\n    clean_up |= {last_best_model_pth, last_best_optim_pth}",
          "clean_up |= {last_best_model_pth, last_best_optim_pth}", "checkpoint-table"),
        M("delete-current-best", T,
          "clean_up |= {last_best_model_pth, last_best_optim_pth}",
          "clean_up |= {best_model_pth, best_optim_pth}", "G10/O4"),
        M("direct-torch-save", T,
          "with tempfile.NamedTemporaryFile('wb', dir=dir_, delete=False) as f:\n    torch.save(obj, f)\n    replaces.append((f.name, path))",
          "torch.save(obj, path)", "G10/O5"),
        M("tmp-without-dir", T, "tempfile.NamedTemporaryFile('wb', dir=dir_, delete=False)",
          "tempfile.NamedTemporaryFile('wb', delete=False)", "torch.save->tmp"),
        M("replace-inside-save-loop", T,
          "replaces.append((f.name, path))", "replaces.append((f.name, path))\nos.replace(f.name, path)",
          "all-temporaries-before-first-replace"),
        M("history-mode-w", T, "with open(self.state_csv_path, 'a') as f:", "with open(self.state_csv_path, 'w') as f:",
          "G10/O6"),
        M("header-always", T, "if write_header:\n    wr.writerow(names)", "wr.writerow(names)", "header-iff-the-history-is-empty"),
        M("header-only-if-missing", T, "write_header = not os.path.exists(self.state_csv_path) or os.path.getsize(self.state_csv_path) == 0", "write_header = not os.path.exists(self.state_csv_path)", "header-iff-the-history-is-empty"),
        M("save-in-other-method", T, "def get_last_epoch(self) -> int:\n    \"\"\"Return the last finished epoch from training, or 0 if no history\"\"\"",
          "def get_last_epoch(self) -> int:\n    torch.save(self.cache_hist, self.state_csv_path + '.bak')", "G10/O6"),
        M("drop-refusal", T,
          "if model_pth == best_model_pth:", "if False and model_pth == best_model_pth:", "G10/O7"),
        M("refusal-after-save", T, "elif optim_pth == best_optim_pth:", "elif optim_pth == last_optim_pth:",
          "G10/O7"),
        M("loader-swapped-paths", T,
          "optimizer_state_dict = torch.load(optim_pth, map_location='cpu')",
          "optimizer_state_dict = torch.load(model_pth, map_location='cpu')", "G10/O8"),
        M("saver-swapped-pairs", T,
          "(model.state_dict(), self.get_model_path_with_info(info))",
          "(model.state_dict(), self.get_optimizer_path_with_info(info))", "G10/O8"),
        M("hist-dropped-in-else", T,
          "if not save_info_first:\n    self.save_info_to_hist(info)", "pass", "G10/O1", 1),
        M("double-hist", T,
          "if not save_info_first:\n    self.save_info_to_hist(info)", "self.save_info_to_hist(info)", "G10/O1", 0),
        M("last-best-after-cache-update", T,
          "last_best_info = self.get_info(last_best)", "last_best_info = self.get_info(self.get_best_epoch(best_is_train))",
          "checkpoint-table"),
        # twins
        M("twin:rename-local", T, "save_info_first", "hist_first", "", -1, twin=True),
        M("twin:rename-last-model-pth", T, "last_model_pth", "prev_model_pth", "", -1, twin=True),
    ]


def selftest(ctx: Ctx):
    from selftest.mutate import run_selftest
    return run_selftest("C16", ctx.pkg.repo, _mutants(), floor=18)
