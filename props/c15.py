"""C15 training control: CSV tables (G13), hidden state, cache/persist coherence, reference
epochs (G16/G12), sibling symmetry es<->rlr, stop rule, lr write-through (G10)."""
from __future__ import annotations

import ast
import re
from typing import Dict, List, Optional, Set, Tuple

from rules import pure as R_pure
from sa.astutil import attr_chain, call_name, guards_of, parent_map, u
from sa.defuse import ReachingDefs
from sa.model import AnalysisError, own_calls, own_nodes
from sa.norm import Normalizer, cmp_str, padd, pstr
from .common import Ctx, plumbing

MOD = "training"
CLS = "TrainingStateController"
PAIRS = (("es", "early_stopping"), ("rlr", "reduce_lr"))


def _str_list(e) -> Optional[List[str]]:
    if isinstance(e, (ast.List, ast.Tuple, ast.Set)) and all(
            isinstance(x, ast.Constant) and isinstance(x.value, str) for x in e.elts):
        return [x.value for x in e.elts]
    return None


def _row_var_of(sub: ast.Subscript) -> Optional[str]:
    return sub.value.id if isinstance(sub.value, ast.Name) else None


def run(ctx: Ctx):
    col, pkg, res = ctx.col, ctx.pkg, ctx.res
    rel = pkg.module(MOD).relname
    ci = pkg.cls(f"{MOD}::{CLS}")
    W = lambda m: f"{rel}::{CLS}.{m}"
    hist = pkg.func(f"{MOD}::{CLS}.save_info_to_hist")
    cache = pkg.func(f"{MOD}::{CLS}.update_cache")
    add = pkg.func(f"{MOD}::{CLS}.add_entry")
    upd = pkg.func(f"{MOD}::{CLS}.update_for_epoch")
    cont = pkg.func(f"{MOD}::{CLS}.continue_training")
    best = pkg.func(f"{MOD}::{CLS}.get_best_epoch")
    init = pkg.func(f"{MOD}::{CLS}.__init__")

    # ---------------- S1 tables -----------------------------------------------------------
    written = None
    for n in own_nodes(hist.node):
        # the literal column names, alone (`names = [...]`, extended below) or as the head of `[...] + list(user entries)`
        if isinstance(n, (ast.List, ast.Tuple)) and _str_list(n) and len(_str_list(n)) >= 4:
            written = _str_list(n)
    if written is None:
        raise AnalysisError("C15: column list of save_info_to_hist not found")
    cols = set(written)
    col.floor("csv_columns", len(cols), 4)
    # the row writer formats info[k] with fmt_dict[k] for the same k over the column list
    # every value of the row is formatted by its own column's format: fmt_dict[k].format(<row>[k]) with one k bound by a
    # comprehension or a for loop (the row may be built in place or appended to a list first)
    fmts = [c for c in own_calls(hist.node) if isinstance(c.func, ast.Attribute) and c.func.attr == "format"
            and isinstance(c.func.value, ast.Subscript) and attr_chain(c.func.value.value) == "self.fmt_dict"]
    bound = set()
    for n in ast.walk(hist.node):
        if isinstance(n, ast.comprehension) and isinstance(n.target, ast.Name):
            bound.add(n.target.id)
        if isinstance(n, ast.For) and isinstance(n.target, ast.Name):
            bound.add(n.target.id)
    ok = bool(fmts) and all(
        isinstance(c.func.value.slice, ast.Name) and c.func.value.slice.id in bound and len(c.args) == 1
        and isinstance(c.args[0], ast.Subscript) and u(c.args[0].slice) == c.func.value.slice.id for c in fmts)
    col.ob("G13", "S1", f"{W('save_info_to_hist')}::row=fmt[k].format(info[k])", ok,
           "the history row is not written as fmt_dict[k].format(info[k]) over the column list "
           "(a value written under another column's format or key)", rel, hist.line)
    # parsed columns
    parsed: Dict[str, Tuple[str, str]] = {}
    rd_cache = ReachingDefs(cache.node)
    seed_keys = None
    # the two row displays of update_cache: the epoch-0 row ("epoch": 0) and the row parsed from the file; either may be
    # stored into self.cache_hist directly or through a local
    for n in own_nodes(cache.node):
        if not (isinstance(n, ast.Assign) and isinstance(n.value, ast.Dict)):
            continue
        dkeys = {k.value: v for k, v in zip(n.value.keys, n.value.values) if isinstance(k, ast.Constant)}
        if "epoch" not in dkeys:
            continue
        # (any target of a chained assignment `entry = self.cache_hist[epoch] = {...}`)
        reaches = any((isinstance(tgt, ast.Subscript) and attr_chain(tgt.value) == "self.cache_hist") or (
            isinstance(tgt, ast.Name) and any(
                isinstance(m, ast.Assign) and any(isinstance(t_, ast.Subscript) and attr_chain(t_.value) == "self.cache_hist" for t_ in m.targets)
                and isinstance(m.value, ast.Name) and m.value.id == tgt.id for m in own_nodes(cache.node))) for tgt in n.targets)
        if not reaches:
            continue
        if isinstance(dkeys["epoch"], ast.Constant) and dkeys["epoch"].value == 0:
            seed_keys = list(dkeys)
            continue
        if True:
            for k, v in zip(n.value.keys, n.value.values):
                if not isinstance(k, ast.Constant):
                    continue
                # value: conv(row["col"]) possibly via a local
                der = rd_cache.derives(v)
                srcs = [(call_name(c), s.slice.value) for c in der.calls() if call_name(c) in ("int", "float", "str")
                        for s in ast.walk(c) if isinstance(s, ast.Subscript) and isinstance(s.slice, ast.Constant)
                        and isinstance(s.slice.value, str)]
                if len(srcs) != 1:
                    parsed[k.value] = ("?", "?")
                else:
                    parsed[k.value] = srcs[0]
    # item stores into the row being restored (`entry["lr"] = float(row["lr"])`, also what an unrolled `for key in (...)` leaves)
    row_names = set()
    for n in own_nodes(cache.node):
        if isinstance(n, ast.Assign) and isinstance(n.value, ast.Dict) and any(isinstance(k, ast.Constant) and k.value == "epoch" for k in n.value.keys) \
                and not any(isinstance(v, ast.Constant) and v.value == 0 for k, v in zip(n.value.keys, n.value.values) if isinstance(k, ast.Constant) and k.value == "epoch"):
            row_names |= {t_.id for t_ in n.targets if isinstance(t_, ast.Name)}
    for n in own_nodes(cache.node):
        if isinstance(n, ast.Assign) and len(n.targets) == 1 and isinstance(n.targets[0], ast.Subscript) and isinstance(n.targets[0].slice, ast.Constant) \
                and isinstance(n.targets[0].slice.value, str) and (u(n.targets[0].value) in row_names):
            k_ = n.targets[0].slice.value
            der = rd_cache.derives(n.value)
            srcs = [(call_name(c), s_.slice.value) for c in list(der.calls()) + [c_ for c_ in ast.walk(n.value) if isinstance(c_, ast.Call)]
                    if call_name(c) in ("int", "float", "str")
                    for s_ in ast.walk(c) if isinstance(s_, ast.Subscript) and isinstance(s_.slice, ast.Constant) and isinstance(s_.slice.value, str)]
            srcs = sorted(set(srcs))
            if k_ not in parsed:
                parsed[k_] = srcs[0] if len(srcs) == 1 else ("?", "?")
    if not parsed or seed_keys is None:
        raise AnalysisError("C15: parser dict / epoch-0 row of update_cache not found")
    for k in sorted(cols | set(parsed)):
        conv, src = parsed.get(k, (None, None))
        want = "int" if (k == "epoch" or k.endswith("_cd")) else "float"
        col.ob("G13", "S1", f"{W('update_cache')}::column({k})", src == k and conv == want and k in cols,
               f"history column `{k}` is restored from column `{src}` with `{conv}` (expected `{want}` of its "
               f"own column): a restarted controller would continue from different state", rel, cache.line,
               sample=dict(column=k, parsed_from=src, conv=conv))
    # user-defined entries: restored for EVERY row (inside the reader loop), from the same-named column, with the
    # declared type; no variable of the reader loop is used after the loop (stale last row)
    row_loops = [n for n in own_nodes(cache.node) if isinstance(n, ast.For) and (
        (isinstance(n.iter, ast.Name) and any(isinstance(d.value, ast.Call) and call_name(d.value).endswith("DictReader")
                                              for d in rd_cache.defs_of(n.iter)))
        or (isinstance(n.iter, ast.Call) and call_name(n.iter).endswith("DictReader")))]
    if len(row_loops) != 1:
        raise AnalysisError("C15: the csv.DictReader row loop of update_cache was not found")
    rl = row_loops[0]
    inside = {id(x) for x in ast.walk(rl)}
    loop_defs = {id(d) for d in rd_cache.defs if d.stmt is not None and id(d.stmt) in inside and d.kind != "item"}
    stale = [n for n in own_nodes(cache.node) if isinstance(n, ast.Name) and isinstance(n.ctx, ast.Load)
             and id(n) not in inside and any(id(d) in loop_defs for d in rd_cache.defs_of(n))]
    col.ob("G16", "S1", f"{W('update_cache')}::no-row-variable-used-after-the-row-loop", not stale,
           f"`{stale[0].id if stale else ''}` (bound per history row) is used after the row loop: only the last row "
           f"would be processed, earlier epochs lose the data", rel, stale[0].lineno if stale else cache.line,
           sample=[f"{n.id}@{n.lineno}" for n in stale])
    # the row's epoch: the name bound to int(row["epoch"]) inside the row loop
    row_epoch_names = {d.name for d in rd_cache.defs if d.stmt is not None and id(d.stmt) in inside and d.value is not None
                       and u(d.value).replace('"', "'") == f"int({rl.target.id}['epoch'])"}
    urest = []
    for n in ast.walk(rl):
        if isinstance(n, ast.For) and ("user_entry_types" in u(n.iter) or any("user_entry_types" in u(e_) for e_ in rd_cache.derives(n.iter).exprs)) \
                and isinstance(n.target, ast.Tuple) \
                and len(n.target.elts) == 2:
            kn, tn = [x.id for x in n.target.elts]
            for st_ in n.body:
                if isinstance(st_, ast.Assign) and isinstance(st_.targets[0], ast.Subscript):
                    t = st_.targets[0]
                    # the row being restored: self.cache_hist[<row epoch>] itself or a local that is stored there
                    row_targets = {f"self.cache_hist[{e_}]" for e_ in row_epoch_names}
                    for m_ in ast.walk(rl):
                        if isinstance(m_, ast.Assign) and any(isinstance(t_, ast.Subscript) and u(t_) in set(row_targets) for t_ in m_.targets):
                            if isinstance(m_.value, ast.Name):
                                row_targets.add(m_.value.id)
                            # chained: `entry = self.cache_hist[epoch] = {...}` makes `entry` the stored row
                            row_targets |= {t_.id for t_ in m_.targets if isinstance(t_, ast.Name)}
                    okk = u(t.slice) == kn and u(t.value) in row_targets and isinstance(st_.value, ast.Call) \
                        and u(st_.value.func) == tn and len(st_.value.args) == 1 and isinstance(st_.value.args[0], ast.Subscript) \
                        and u(st_.value.args[0].slice) == kn and u(st_.value.args[0].value) == rl.target.id
                    urest.append(okk)
    col.ob("G13", "S1", f"{W('update_cache')}::user-entries-restored-per-row", urest == [True],
           "user-defined entries are not restored, for every history row, as type(row[name]) under their own name",
           rel, rl.lineno, sample=urest)
    # every row handed to the csv writer (header and values) derives from the user entry table as well as the literal columns
    rd_hist = ReachingDefs(hist.node)
    wsites = [c for c in own_calls(hist.node) if isinstance(c.func, ast.Attribute) and c.func.attr == "writerow" and c.args]
    ext_calls = [c for c in own_calls(hist.node) if isinstance(c.func, ast.Attribute) and c.func.attr in ("extend", "append")
                 and "user_entry_types" in u(c)]

    def _from_user(arg):
        der = rd_hist.derives(arg)
        names_ = {x.id for e_ in der.exprs for x in ast.walk(e_) if isinstance(x, ast.Name)} | {x.id for x in ast.walk(arg) if isinstance(x, ast.Name)}
        return any("user_entry_types" in u(e_) for e_ in der.exprs) or "user_entry_types" in u(arg) or any(
            isinstance(c.func.value, ast.Name) and c.func.value.id in names_ for c in ext_calls)
    wr_user = bool(wsites) and all(_from_user(c.args[0]) for c in wsites)
    col.ob("G13", "S1", f"{W('save_info_to_hist')}::user-entries-written", wr_user,
           "user-defined entries are not appended to the written column list", rel, hist.line)
    col.ob("G13", "S1", f"{W('update_cache')}::epoch0-row-keys", set(seed_keys) == cols,
           f"the epoch-0 row seeds {sorted(seed_keys)}; written columns are {sorted(cols)}", rel, cache.line,
           sample=dict(seeded=sorted(seed_keys)))
    reserved = None
    for n in own_nodes(add.node):
        if isinstance(n, ast.Compare) and isinstance(n.ops[0], ast.In) and _str_list(n.comparators[0]):
            reserved = set(_str_list(n.comparators[0]))
    col.ob("G13", "S1", f"{W('add_entry')}::reserved-names", reserved == cols,
           f"add_entry reserves {sorted(reserved or [])}; written columns are {sorted(cols)} (a user entry "
           f"could shadow a control column)", rel, add.line, sample=dict(reserved=sorted(reserved or [])))
    # seed row values come from the same-named parameters
    seedmap = {"es_resume_cd": "early_stopping_burnin", "es_patience_cd": "early_stopping_patience",
               "rlr_resume_cd": "reduce_lr_burnin", "rlr_patience_cd": "reduce_lr_patience"}
    for n in own_nodes(cache.node):
        if isinstance(n, ast.Assign) and isinstance(n.value, ast.Dict) and isinstance(n.targets[0], ast.Subscript) \
                and u(n.targets[0].slice) == "0":
            for k, v in zip(n.value.keys, n.value.values):
                if isinstance(k, ast.Constant) and k.value in seedmap:
                    col.ob("G13", "S1", f"{W('update_cache')}::seed({k.value})", u(v) == "self.params." + seedmap[k.value],
                           f"epoch-0 `{k.value}` is seeded with `{u(v)}` (expected self.params.{seedmap[k.value]})",
                           rel, v.lineno, sample=dict(key=k.value, value=u(v)))
    # every literal key read from a row is a column
    nkeys = 0
    for f in (upd, cont, best, hist):
        for n in own_nodes(f.node):
            if isinstance(n, ast.Subscript) and isinstance(n.slice, ast.Constant) and isinstance(n.slice.value, str):
                base = u(n.value)
                if base in ("kwargs", "param_group", "optimizer.defaults", "self.fmt_dict", "row"):
                    continue
                nkeys += 1
                col.ob("G13", "S1", f"{rel}::{f.qualname}::row-key({n.slice.value})", n.slice.value in cols,
                       f"`{u(n)}` reads a key that is not a history column {sorted(cols)}", rel, n.lineno,
                       sample=u(n), nontrivial=False)
    col.floor("row_key_reads", nkeys, 20)
    # format table: every column has a format assigned in __init__, ints with 'd', floats with 'e'
    fmts: Dict[str, ast.expr] = {}
    for n in own_nodes(init.node):
        if isinstance(n, ast.Assign) and isinstance(n.targets[0], ast.Subscript) \
                and u(n.targets[0].value) == "self.fmt_dict" and isinstance(n.targets[0].slice, ast.Constant):
            fmts[n.targets[0].slice.value] = n.value
    col.ob("G13", "S1", f"{W('__init__')}::fmt-dict-keys", set(fmts) == cols,
           f"fmt_dict is initialised for {sorted(fmts)}; written columns are {sorted(cols)}", rel, init.line)

    def fmt_kind(k, depth=0):
        v = fmts.get(k)
        if v is None or depth > 3:
            return None
        if isinstance(v, ast.Subscript) and u(v.value) == "self.fmt_dict" and isinstance(v.slice, ast.Constant):
            return fmt_kind(v.slice.value, depth + 1)
        s = " ".join(x.value for x in ast.walk(v) if isinstance(x, ast.Constant) and isinstance(x.value, str))
        if re.search(r"d\}", s):
            return "d"
        m = re.search(r"\.(\{\}|\d+)e\}", s)
        if m:
            return "e-lossy"
        if "!r" in s or re.search(r"\{\}$", s):
            return "lossless"
        return "other"

    for k in sorted(cols):
        want = "d" if (k == "epoch" or k.endswith("_cd")) else "e-lossy"
        fk = fmt_kind(k)
        col.ob("G13", "S1", f"{W('__init__')}::fmt({k})", fk == want or (want != "d" and fk == "lossless"),
               f"column `{k}` is formatted as {fk}", rel, init.line, sample=dict(column=k, fmt=fk))

    # ---------------- S2 no hidden state ------------------------------------------------
    allowed_writers = {"__init__", "update_cache", "add_entry"}
    nmeth = 0
    for name, fl in ci.methods.items():
        for f in fl:
            nmeth += 1
            for attr, node in R_pure.self_attr_writes(f):
                if name in allowed_writers:
                    continue
                isitem = isinstance(node, ast.Subscript) and attr == "cache_hist"
                ok = False
                if isitem and name in ("update_for_epoch", "save_info_to_hist") and not isinstance(node.slice, ast.Name):
                    # the key written directly: row['epoch'] / the next epoch
                    ok = u(node.slice).endswith("['epoch']") or u(node.slice) == "self.get_last_epoch() + 1"
                if isitem and name in ("update_for_epoch", "save_info_to_hist") and isinstance(node.slice, ast.Name):
                    rdm_ = ReachingDefs(f.node)
                    # the subscript node is a Store; look up the key name's defs via a Load twin
                    ds_ = [d for d in rdm_.defs if d.name == node.slice.id]
                    ok = bool(ds_) and all(d.kind == "param" and d.name == "epoch" or (d.value is not None and (
                        u(d.value).endswith("['epoch']") or u(d.value) == "self.get_last_epoch() + 1")) for d in ds_)
                col.ob("G13", "S2", f"{W(name)}::writes(self.{attr})", ok,
                       f"{name} assigns `{u(node)}`: controller state that is not re-derivable from the history "
                       f"file makes a restarted controller diverge", rel, node.lineno, sample=u(node))
    col.floor("controller_methods", nmeth, 15)

    # ---------------- S2' cache / persist coherence (F10) ----------------------------
    rd = ReachingDefs(upd.node)
    rowvar = _prev_row_var(upd, rd)
    for k in sorted(cols):
        if k in ("epoch", "train_met", "val_met") or k.endswith("_cd"):
            continue  # ints round-trip exactly; metrics are on the printed grid by the property's quantifier
        # computed stores into the row
        stores = [n for n in own_nodes(upd.node) if isinstance(n, ast.Assign) and len(n.targets) == 1
                  and isinstance(n.targets[0], ast.Subscript) and _row_var_of(n.targets[0]) == rowvar
                  and isinstance(n.targets[0].slice, ast.Constant) and n.targets[0].slice.value == k]
        computed = []
        for s_ in stores:
            der = rd.derives(s_.value)
            if any(isinstance(x, ast.BinOp) for e in der.exprs for x in ast.walk(e)):
                thru = any(isinstance(c.func, ast.Attribute) and c.func.attr == "format" for c in der.calls()) \
                    and any(call_name(c) == "float" for c in der.calls())
                if not thru:
                    computed.append(s_)
        lossy = fmt_kind(k) == "e-lossy"
        readback = any(isinstance(n, ast.Subscript) and isinstance(n.ctx, ast.Load) and _row_var_of(n) == rowvar
                       and isinstance(n.slice, ast.Constant) and n.slice.value == k for n in own_nodes(upd.node))
        bad = lossy and computed and readback
        col.ob("G13", "S2'", f"{rel}::{CLS}::column({k})::cache-vs-persist", not bad,
               f"column `{k}` is computed by the controller, cached raw, persisted with a lossy format and read "
               f"back from the cached row in later epochs: an uninterrupted run (raw cache) and a restarted run "
               f"(parsed cache) diverge", rel, computed[0].lineno if computed else upd.line,
               sample=dict(column=k, fmt=fmt_kind(k), computed=[u(c) for c in computed]))

    # ---------------- S3/S4/S5 the per-epoch transition, its predicates and reference epochs ---------------
    from .c15_machine import Machine, Und, transition_table, continue_table, predicate_tables
    pm = parent_map(upd.node)
    where = W("update_for_epoch")
    m = Machine(upd.node, rd, rowvar)
    try:
        npts, bad = transition_table(m)
        col.ob("G12", "S4", f"{where}::countdown-transition-table", bad is None and npts > 0,
               f"one epoch's update of the countdowns / learning rate / continue flag is not the documented transition (resume "
               f"countdown first, else no-improvement -> patience countdown, else reset; stop on num_epochs or an exhausted "
               f"early-stopping patience): {bad}", rel, upd.line, sample=dict(points=npts, statements=len(m.relevant)))
        kinds = {k for k in m.pred_nodes.values()}
        col.ob("G12", "S4", f"{where}::both-no-improvement-predicates-found", kinds == {"es", "rlr"},
               f"the transition consults predicates for {sorted(kinds)} (expected one for early stopping, one for reduce-lr)",
               rel, upd.line, sample=sorted(kinds))
        ptab = predicate_tables(m)
        for P, L in PAIRS:
            if P not in ptab:
                continue
            n_, badp, node = ptab[P]
            col.ob("G12", "S4", f"{where}::{P}-predicate", badp is None,
                   f"the {L} no-improvement predicate `{u(node)}` is not max(reference - new, 0) < threshold: {badp}", rel,
                   node.lineno, sample=dict(points=n_, predicate=m.inl.text(node)))
            # the reference row: the get_info argument behind the reference metric read by the predicate
            ref_expr = None
            x = m.inl.expand(node)
            for sub in ast.walk(x):
                if isinstance(sub, ast.Subscript) and isinstance(sub.slice, ast.Constant) and sub.slice.value == "val_met":
                    v = sub.value
                    cands = [v] if isinstance(v, ast.Call) else [d.value for d in rd.defs_of(v)] if isinstance(v, ast.Name) else []
                    for c in cands:
                        if isinstance(c, ast.Call) and isinstance(c.func, ast.Attribute) and c.func.attr == "get_info" and c.args:
                            ref_expr = m.inl.expand(c.args[0])
            nz = Normalizer()
            want = ast.parse(f"epoch - self.params.{L}_patience + {rowvar}['{P}_patience_cd'] - 1", mode="eval").body
            okref = ref_expr is not None and not padd(nz.poly(ref_expr), nz.poly(want), -1)
            col.ob("G12", "S4", f"{where}::{P}-reference-epoch", okref,
                   f"the {L} reference epoch is `{u(ref_expr) if ref_expr is not None else None}`, expected "
                   f"epoch - patience + countdown - 1", rel, node.lineno, sample=u(ref_expr) if ref_expr is not None else None)
            stale = False
            if ref_expr is not None:
                for nm in ast.walk(ref_expr):
                    if isinstance(nm, ast.Name) and nm.id == rowvar:
                        for d in rd.defs_of(nm):
                            t = getattr(d, "target", None)
                            if d.kind == "item" and isinstance(t, ast.Subscript) and isinstance(t.slice, ast.Constant) \
                                    and t.slice.value in (f"{P}_patience_cd", f"{P}_resume_cd"):
                                stale = True
            col.ob("G16", "S3", f"{where}::{P}-reference-reads-previous-countdown", not stale,
                   f"the {L} reference epoch is computed after this epoch's countdown update (it must use the previous "
                   f"row's countdown)", rel, node.lineno)
    except Und as e_:
        col.undecided(f"{where}: the per-epoch update is outside the interpreted fragment ({e_})")
    # S5: continue_training applies the same stop rule to a stored row
    crow = None
    for n in own_nodes(cont.node):
        if isinstance(n, ast.Assign) and len(n.targets) == 1 and isinstance(n.targets[0], ast.Name) and any(
                isinstance(c, ast.Call) and isinstance(c.func, ast.Attribute) and c.func.attr == "get_info" for c in ast.walk(n.value)):
            crow = n.targets[0].id
    if crow is None:
        col.undecided(f"{W('continue_training')}: the row read by continue_training was not found")
    else:
        try:
            mc = Machine(cont.node, ReachingDefs(cont.node), crow)
            npts, bad = continue_table(mc)
            col.ob("G13", "S5", f"{rel}::{CLS}::stop-rule(update_for_epoch==continue_training)", bad is None and npts > 0,
                   f"continue_training does not apply the stop rule of update_for_epoch to the stored row (continue iff the epoch "
                   f"budget is not used up and early stopping is off or its patience is not exhausted): {bad}: a restarted run would "
                   f"stop at a different epoch", rel, cont.line, sample=dict(points=npts))
        except Und as e_:
            col.undecided(f"{W('continue_training')}: outside the interpreted fragment ({e_})")

    # ---------------- S7 a restart keeps the learning rate of the loaded optimizer state -----------------------------
    # load_model_and_optimizer_for_epoch may set the optimizer's rate from the configured initial rate only for epoch 0 (nothing to
    # load). On every other path the rate is whatever the saved optimizer state holds - the reductions made so far.
    ld = pkg.func(f"{MOD}::{CLS}.load_model_and_optimizer_for_epoch")
    pml = parent_map(ld.node)
    from sa.inteval import NotEvaluable as _NEl, int_eval as _iel
    init_writes = []
    for n in own_nodes(ld.node):
        if isinstance(n, (ast.Assign, ast.AugAssign)):
            tg = n.targets[0] if isinstance(n, ast.Assign) else n.target
            if isinstance(tg, ast.Subscript) and isinstance(tg.slice, ast.Constant) and tg.slice.value == "lr" and "learning_rate" in u(n.value):
                init_writes.append(n)
    col.floor("initial_rate_writes", len(init_writes), 1)
    late = []
    for n in init_writes:
        reach = True
        for t, pol in guards_of(pml, n):
            try:
                if bool(_iel(t, {"epoch": 3})) != pol:
                    reach = False
            except _NEl:
                pass
        if reach:
            late.append(n)
    col.ob("G10", "S7", f"{W('load_model_and_optimizer_for_epoch')}::initial-rate-only-for-epoch-0", not late,
           (f"`{u(late[0])[:80]}` is also reached when a later epoch's state is loaded: after a restart the optimizer's rate is reset to the "
            f"initial one although the history (and an uninterrupted run) has already reduced it") if late else "", rel,
           late[0].lineno if late else ld.line, sample=len(init_writes))

    # ---------------- S6 lr write-through ----------------------------------------------
    _s6(ctx, upd, rd, pm, rowvar, rel, W("update_for_epoch"))
    # a restarted controller reads the history back: the header must be there whatever state the file was in
    from .c16 import history_header_rule
    history_header_rule(ctx, "S1")
    from . import ckpt_table as CT
    CT.check(ctx, "G12", "S9")  # (what a restarted controller finds on disk: the files of the last and the best epoch, each with its own parameters)
    # S7 (continued): `log10_learning_rate` is None for 'keep the optimizer's own rate' and a number otherwise - 0.0 (a rate of exactly
    # one) included. It may only be tested against None; a truthiness test treats the rate 1.0 as 'not configured' in one place while
    # the other place (correctly) applies it, so the history records a rate the optimizer does not run at.
    truthy = []
    n_tests = 0
    for f_ in ctx.owned():
        if f_.module.relname != rel:
            continue
        from sa.inline import Inliner as _InlRate
        inl_rate = _InlRate(f_.node)
        for n in own_nodes(f_.node):
            tests_ = []
            if isinstance(n, (ast.If, ast.IfExp, ast.While)):
                tests_ = [n.test]
            elif isinstance(n, ast.Assert):
                tests_ = [n.test]
            for t_ in tests_:
                stack = [inl_rate.expand(t_)]  # (the rate held in a local is the same rate)
                while stack:
                    x = stack.pop()
                    if isinstance(x, ast.BoolOp):
                        stack.extend(x.values)
                    elif isinstance(x, ast.UnaryOp) and isinstance(x.op, ast.Not):
                        stack.append(x.operand)
                    elif isinstance(x, ast.Attribute) and x.attr == "log10_learning_rate":
                        truthy.append((f_, x))
                    elif isinstance(x, ast.Compare) and any(isinstance(y, ast.Attribute) and y.attr == "log10_learning_rate" for y in ast.walk(x)):
                        n_tests += 1
    col.floor("initial_rate_none_tests", n_tests, 2)
    col.ob("G13", "S7", f"{rel}::initial-rate-tested-against-None-only", not truthy,
           (f"`{u(truthy[0][1])}` is tested for truth in {truthy[0][0].qualname}: a configured rate of exactly 1.0 (log10 = 0.0) counts as 'not "
            f"configured' there, so the epoch-0 row keeps lr = None, the first update falls back to the optimizer's constructor default, and the "
            f"recorded rate (and every later reduction) differs from the rate the optimizer was set to") if truthy else "", rel,
           truthy[0][1].lineno if truthy else 1)
    plumbing(ctx, "S0", g4=False)
    return dict(
        explanation=(
            "Decides for C15: (S1) the CSV columns written, parsed (same-named column, int/float), seeded in the "
            "epoch-0 row, reserved by add_entry, formatted, and every literal row key read are one set; (S2) no "
            "controller state outside cache_hist is written after construction; (S2') no controller-computed float "
            "column is cached raw while persisted lossily [known finding F10: lr]; (S3) reference epochs use the "
            "previous row's countdown; (S4) both reference epochs normalise to epoch - patience + countdown - 1, one epoch's "
            "update of the countdowns / learning rate / continue flag equals the documented transition on a grid of "
            "countdowns x predicates x rate x threshold x budget (interpreted, not executed), each no-improvement "
            "predicate is max(reference - new, 0) < threshold on a grid; (S5) continue_training applies the same "
            "stop rule to a stored row; (S6) a new learning rate is written to the row and to every optimizer param group together, "
            "and on no other path. NOT decided: that the one-step transition composes to the stated rule "
            "over every metric history (induction over epochs); float formatting round trips."),
        decided=["S1", "S2", "S2'", "S3", "S4", "S5", "S6"],
        not_decided=["composition of the one-step transition over all histories", "float formatting round-trips"],
        assumptions=["csv.DictReader/writer semantics", "metrics lie on the printed grid (property quantifier)"],
    )


def _prev_row_var(upd, rd) -> str:
    """The local holding the copy of the previous epoch's row (dict(self.get_info(epoch - 1, ...)))."""
    from sa.inline import Inliner
    from sa.norm import Normalizer, padd
    inl, nz = Inliner(upd.node, rd), Normalizer()
    want = nz.poly(ast.parse("epoch - 1", mode="eval").body)

    def _is_prev(a):  # `epoch - 1`, written in place or held in a local
        try:
            return not padd(nz.poly(inl.expand(a)), want, -1)
        except Exception:
            return False
    for n in own_nodes(upd.node):
        if isinstance(n, ast.Assign) and len(n.targets) == 1 and isinstance(n.targets[0], ast.Name):
            for c in ast.walk(n.value):
                if isinstance(c, ast.Call) and isinstance(c.func, ast.Attribute) and c.func.attr == "get_info" \
                        and c.args and _is_prev(c.args[0]):
                    if isinstance(n.value, ast.Call) and call_name(n.value) == "dict":
                        return n.targets[0].id
    raise AnalysisError("C15: the copy of the previous epoch's row (dict(self.get_info(epoch - 1))) not found")


def _s6(ctx, upd, rd, pm, rowvar, rel, where):
    col = ctx.col
    row_lr = [n for n in own_nodes(upd.node) if isinstance(n, ast.Assign) and len(n.targets) == 1
              and u(n.targets[0]) == f"{rowvar}['lr']"]
    opt_lr = [n for n in own_nodes(upd.node) if isinstance(n, ast.Assign) and len(n.targets) == 1
              and isinstance(n.targets[0], ast.Subscript) and u(n.targets[0].slice) == "'lr'"
              and u(n.targets[0].value) != rowvar]
    col.floor("row_lr_stores", len(row_lr), 2)
    col.count("optimizer_lr_stores", len(opt_lr))
    # the optimizer store covers every param group (the transition table interprets one representative iteration and decides the
    # value written, the gating and the pairing with the row store; that the loop is over all groups is decided here)
    from sa.inline import Inliner
    inl = Inliner(upd.node, rd, keep={rowvar})
    for o in opt_lr:
        loop = pm.get(o)
        while loop is not None and not isinstance(loop, (ast.For, ast.FunctionDef)):
            loop = pm.get(loop)
        okloop = isinstance(loop, ast.For) and inl.text(loop.iter) in ("optimizer.param_groups", "list(optimizer.param_groups)") \
            and isinstance(loop.target, ast.Name) and u(o.targets[0].value) == loop.target.id
        col.ob("G10", "S6", f"{where}::lr-write-through", okloop,
               f"`{u(o)}` is not executed for every param group of the optimizer: the optimizer and the recorded history "
               f"disagree about the learning rate", rel, o.lineno, sample=dict(optimizer_store=u(o)))
    for r in row_lr:
        gs = [(u(t), pol) for t, pol in guards_of(pm, r)]
        if any("is None" in g and pol for g, pol in gs):
            okr = u(r.value) == "optimizer.defaults['lr']"
            col.ob("G10", "S6", f"{where}::lr-initial-fill", okr,
                   f"the unknown initial rate is filled with `{u(r.value)}` (expected the optimizer default)", rel,
                   r.lineno, sample=u(r))
            continue
        # new = old * factor, old = row['lr']
        n_ = Normalizer()
        want = ast.parse(f"{rowvar}['lr'] * self.params.reduce_lr_factor", mode="eval").body
        okv = not padd(n_.poly(inl.expand(r.value)), Normalizer().poly(want), -1)
        col.ob("G12", "S6", f"{where}::new-lr=old*factor", okv,
               f"the new rate `{u(r.value)}` does not normalise to row['lr'] * reduce_lr_factor", rel, r.lineno,
               sample=pstr(n_.poly(inl.expand(r.value))))


MANIFEST = dict(
    level_text=(
        "Static table/dataflow analysis of TrainingStateController (no execution): agreement of the CSV "
        "column tables (written / parsed with the right type from the same-named column / seeded / reserved / "
        "formatted / read), absence of controller state outside the cached history, cache-vs-persist coherence "
        "of controller-computed float columns, reference-epoch expressions in linear normal form reading the "
        "previous row, and - by an evaluator over the syntax tree of update_for_epoch / continue_training with its own "
        "value domain - one epoch's transition of the countdown columns, learning rate, optimizer write and continue "
        "flag against the documented rule on a finite grid (predicates as inputs, each predicate tabulated against "
        "max(reference - new, 0) < threshold), with continue_training held to the same stop rule. These are necessary "
        "conditions for 'decisions follow the rules and survive restarts'; that the one-step transition composes to "
        "the stated behaviour over all metric histories, and float formatting round trips, are not decided."),
    level_note="Trusted: python ast, csv module semantics. Known finding F10 (lr cached raw, persisted with "
               "'{:.4e}') is listed in known_findings.json.",
    technique="static analysis: literal-table extraction and set comparison, reaching definitions, linear normal forms, abstract interpretation of the per-epoch update over a finite grid; checkpoint table: __init__ / update_for_epoch interpreted against a modelled state directory over every metric history of length 3 and 4",
    design_ref="DESIGN.md section 4 C15",
)



def _mutants():
    from selftest.mutate import Mutant as M
    T = "training.py"
    return [
        M("header-only-if-missing", T, "write_header = not os.path.exists(self.state_csv_path) or os.path.getsize(self.state_csv_path) == 0", "write_header = not os.path.exists(self.state_csv_path)", "header-iff-the-history-is-empty"),
        M("parse-col-from-other", T, "'rlr_resume_cd': int(row['rlr_resume_cd'])", "'rlr_resume_cd': int(row['es_resume_cd'])",
          "update_cache::column(rlr_resume_cd)"),
        M("parse-lr-as-int", T, "'lr': float(row['lr'])", "'lr': int(float(row['lr']))", "column(lr)"),
        M("drop-column-from-writer", T, "names = ['epoch', 'es_resume_cd', 'es_patience_cd', 'rlr_resume_cd', 'rlr_patience_cd', 'lr', 'train_met', 'val_met']",
          "names = ['epoch', 'es_resume_cd', 'es_patience_cd', 'rlr_patience_cd', 'lr', 'train_met', 'val_met']", "G13/S1"),
        M("reserved-missing", T, "'rlr_patience_cd', 'lr', 'train_met', 'val_met'}:", "'rlr_patience_cd', 'train_met', 'val_met'}:",
          "reserved-names"),
        M("seed-from-wrong-param", T, "'rlr_resume_cd': self.params.reduce_lr_burnin", "'rlr_resume_cd': self.params.reduce_lr_cooldown",
          "seed(rlr_resume_cd)"),
        M("hidden-state", T, "info['epoch'] = epoch\ninfo['val_met'] = val_met",
          "info['epoch'] = epoch\nself._last_val = val_met\ninfo['val_met'] = val_met", "G13/S2"),
        M("es-ref-drop-minus-1", T, "es_epoch = epoch - self.params.early_stopping_patience + info['es_patience_cd'] - 1",
          "es_epoch = epoch - self.params.early_stopping_patience + info['es_patience_cd']", "es-reference-epoch"),
        M("rlr-ref-uses-es-cd", T, "rlr_epoch = epoch - self.params.reduce_lr_patience + info['rlr_patience_cd'] - 1",
          "rlr_epoch = epoch - self.params.reduce_lr_patience + info['es_patience_cd'] - 1", "rlr-reference-epoch"),
        M("rlr-ref-after-decrement", T, "rlr_epoch = epoch - self.params.reduce_lr_patience + info['rlr_patience_cd'] - 1\nrlr_info = self.get_info(rlr_epoch)\nif info['rlr_resume_cd']:\n    info['rlr_resume_cd'] -= 1",
          "if info['rlr_resume_cd']:\n    info['rlr_resume_cd'] -= 1\n    rlr_epoch = epoch - 1\n    rlr_info = self.get_info(rlr_epoch)", "rlr-"),
        M("rlr-threshold-swapped", T, "max(rlr_info['val_met'] - val_met, 0) < self.params.reduce_lr_threshold",
          "max(rlr_info['val_met'] - val_met, 0) < self.params.early_stopping_threshold", "G12/S4"),
        M("es-pred-sign", T, "max(es_info['val_met'] - val_met, 0) < self.params.early_stopping_threshold",
          "max(val_met - es_info['val_met'], 0) < self.params.early_stopping_threshold", "es-predicate"),
        M("es-reset-wrong", T, "info['es_patience_cd'] = self.params.early_stopping_patience",
          "info['es_patience_cd'] = self.params.early_stopping_burnin", "countdown-transition-table"),
        M("resume-branch-decrements-patience", T, "if info['es_resume_cd']:\n    info['es_resume_cd'] -= 1", "if info['es_resume_cd']:\n    info['es_patience_cd'] -= 1", "countdown-transition-table"),
        M("reduce-one-epoch-early", T, "if not info['rlr_patience_cd']:", "if info['rlr_patience_cd'] <= 1:", "countdown-transition-table"),
        M("cooldown-not-restarted", T, "info['rlr_resume_cd'] = self.params.reduce_lr_cooldown\n", "", "countdown-transition-table"),
        M("negligible-change-applied", T, "if old_lr - new_lr > rlr_epsilon:", "if old_lr - new_lr >= rlr_epsilon:", "countdown-transition-table"),
        M("threshold-zero-still-stops", T, "if self.params.early_stopping_threshold and (not info['es_patience_cd']):", "if self.params.early_stopping_threshold is not None and (not info['es_patience_cd']):", "countdown-transition-table", 1),
        M("budget-off-by-one", T, "cont = epoch < self.params.num_epochs", "cont = epoch <= self.params.num_epochs", "countdown-transition-table", 1),
        M("es-floor-dropped", T, "info['es_patience_cd'] = 0\n", "pass\n", "countdown-transition-table"),
        M("continue-training-differs", T, "if self.params.early_stopping_threshold and (not info['es_patience_cd']):\n    cont = False\nreturn cont",
          "if self.params.early_stopping_threshold and (not info['es_resume_cd']):\n    cont = False\nreturn cont", "stop-rule"),
        M("lr-not-written-to-optimizer", T, "for param_group in optimizer.param_groups:\n    param_group['lr'] = new_lr", "pass",
          "countdown-transition-table"),
        M("optimizer-gets-old-lr", T, "param_group['lr'] = new_lr", "param_group['lr'] = old_lr", "countdown-transition-table"),
        M("first-param-group-only", T, "for param_group in optimizer.param_groups:\n    param_group['lr'] = new_lr", "optimizer.param_groups[0]['lr'] = new_lr", "lr-write-through"),
        M("new-lr-additive", T, "new_lr = old_lr * self.params.reduce_lr_factor", "new_lr = old_lr - self.params.reduce_lr_factor",
          "new-lr=old*factor"),
        M("fmt-key-mixup", T, "wr.writerow([self.fmt_dict[k].format(info[k]) for k in names])",
          "wr.writerow([self.fmt_dict['lr'].format(info[k]) for k in names])", "row=fmt[k]"),
        M("user-entries-outside-row-loop", T,
          "self._barrier()\n            return\n        with open(self.state_csv_path) as f:", "self._barrier()\n            return\n        with open(self.state_csv_path) as f:",
          "", twin=True),
        M("twin:rename-info", T, "info", "row_", "", -1, twin=True),
    ]


def selftest(ctx: Ctx):
    from selftest.mutate import run_selftest
    return run_selftest("C15", ctx.pkg.repo, _mutants(), floor=15)
