"""C15 training control: CSV tables (G13), hidden state, cache/persist coherence, reference
epochs (G16/G12), sibling symmetry es<->rlr, stop rule, lr write-through (G10)."""
from __future__ import annotations

import ast
import re
from typing import Dict, List, Optional, Set, Tuple

from rules import pure as R_pure
from sa.astutil import attr_chain, call_name, guards_of, parent_map, u
from sa.defuse import ReachingDefs
from sa.model import AnalysisError, own_calls, own_nodes
from sa.norm import Normalizer, cmp_str, padd, pstr
from .common import Ctx, plumbing

MOD = "training"
CLS = "TrainingStateController"
PAIRS = (("es", "early_stopping"), ("rlr", "reduce_lr"))


def _str_list(e) -> Optional[List[str]]:
    if isinstance(e, (ast.List, ast.Tuple, ast.Set)) and all(
            isinstance(x, ast.Constant) and isinstance(x.value, str) for x in e.elts):
        return [x.value for x in e.elts]
    return None


def _row_var_of(sub: ast.Subscript) -> Optional[str]:
    return sub.value.id if isinstance(sub.value, ast.Name) else None


def run(ctx: Ctx):
    col, pkg, res = ctx.col, ctx.pkg, ctx.res
    rel = pkg.module(MOD).relname
    ci = pkg.cls(f"{MOD}::{CLS}")
    W = lambda m: f"{rel}::{CLS}.{m}"
    hist = pkg.func(f"{MOD}::{CLS}.save_info_to_hist")
    cache = pkg.func(f"{MOD}::{CLS}.update_cache")
    add = pkg.func(f"{MOD}::{CLS}.add_entry")
    upd = pkg.func(f"{MOD}::{CLS}.update_for_epoch")
    cont = pkg.func(f"{MOD}::{CLS}.continue_training")
    best = pkg.func(f"{MOD}::{CLS}.get_best_epoch")
    init = pkg.func(f"{MOD}::{CLS}.__init__")

    # ---------------- S1 tables -----------------------------------------------------------
    written = None
    for n in own_nodes(hist.node):
        if isinstance(n, ast.Assign) and _str_list(n.value) and len(_str_list(n.value)) >= 4:
            written = _str_list(n.value)
    if written is None:
        raise AnalysisError("C15: column list of save_info_to_hist not found")
    cols = set(written)
    col.floor("csv_columns", len(cols), 4)
    # the row writer formats info[k] with fmt_dict[k] for the same k over the column list
    # every value of the row is formatted by its own column's format: fmt_dict[k].format(<row>[k]) with one k bound by a
    # comprehension or a for loop (the row may be built in place or appended to a list first)
    fmts = [c for c in own_calls(hist.node) if isinstance(c.func, ast.Attribute) and c.func.attr == "format"
            and isinstance(c.func.value, ast.Subscript) and attr_chain(c.func.value.value) == "self.fmt_dict"]
    bound = set()
    for n in ast.walk(hist.node):
        if isinstance(n, ast.comprehension) and isinstance(n.target, ast.Name):
            bound.add(n.target.id)
        if isinstance(n, ast.For) and isinstance(n.target, ast.Name):
            bound.add(n.target.id)
    ok = bool(fmts) and all(
        isinstance(c.func.value.slice, ast.Name) and c.func.value.slice.id in bound and len(c.args) == 1
        and isinstance(c.args[0], ast.Subscript) and u(c.args[0].slice) == c.func.value.slice.id for c in fmts)
    col.ob("G13", "S1", f"{W('save_info_to_hist')}::row=fmt[k].format(info[k])", ok,
           "the history row is not written as fmt_dict[k].format(info[k]) over the column list "
           "(a value written under another column's format or key)", rel, hist.line)
    # parsed columns
    parsed: Dict[str, Tuple[str, str]] = {}
    rd_cache = ReachingDefs(cache.node)
    seed_keys = None
    # the two row displays of update_cache: the epoch-0 row ("epoch": 0) and the row parsed from the file; either may be
    # stored into self.cache_hist directly or through a local
    for n in own_nodes(cache.node):
        if not (isinstance(n, ast.Assign) and isinstance(n.value, ast.Dict)):
            continue
        dkeys = {k.value: v for k, v in zip(n.value.keys, n.value.values) if isinstance(k, ast.Constant)}
        if "epoch" not in dkeys:
            continue
        tgt = n.targets[0]
        reaches = (isinstance(tgt, ast.Subscript) and attr_chain(tgt.value) == "self.cache_hist") or (
            isinstance(tgt, ast.Name) and any(
                isinstance(m, ast.Assign) and isinstance(m.targets[0], ast.Subscript) and attr_chain(m.targets[0].value) == "self.cache_hist"
                and isinstance(m.value, ast.Name) and m.value.id == tgt.id for m in own_nodes(cache.node)))
        if not reaches:
            continue
        if isinstance(dkeys["epoch"], ast.Constant) and dkeys["epoch"].value == 0:
            seed_keys = list(dkeys)
            continue
        if True:
            for k, v in zip(n.value.keys, n.value.values):
                if not isinstance(k, ast.Constant):
                    continue
                # value: conv(row["col"]) possibly via a local
                der = rd_cache.derives(v)
                srcs = [(call_name(c), s.slice.value) for c in der.calls() if call_name(c) in ("int", "float", "str")
                        for s in ast.walk(c) if isinstance(s, ast.Subscript) and isinstance(s.slice, ast.Constant)
                        and isinstance(s.slice.value, str)]
                if len(srcs) != 1:
                    parsed[k.value] = ("?", "?")
                else:
                    parsed[k.value] = srcs[0]
    if not parsed or seed_keys is None:
        raise AnalysisError("C15: parser dict / epoch-0 row of update_cache not found")
    for k in sorted(cols | set(parsed)):
        conv, src = parsed.get(k, (None, None))
        want = "int" if (k == "epoch" or k.endswith("_cd")) else "float"
        col.ob("G13", "S1", f"{W('update_cache')}::column({k})", src == k and conv == want and k in cols,
               f"history column `{k}` is restored from column `{src}` with `{conv}` (expected `{want}` of its "
               f"own column): a restarted controller would continue from different state", rel, cache.line,
               sample=dict(column=k, parsed_from=src, conv=conv))
    # user-defined entries: restored for EVERY row (inside the reader loop), from the same-named column, with the
    # declared type; no variable of the reader loop is used after the loop (stale last row)
    row_loops = [n for n in own_nodes(cache.node) if isinstance(n, ast.For) and (
        (isinstance(n.iter, ast.Name) and any(isinstance(d.value, ast.Call) and call_name(d.value).endswith("DictReader")
                                              for d in rd_cache.defs_of(n.iter)))
        or (isinstance(n.iter, ast.Call) and call_name(n.iter).endswith("DictReader")))]
    if len(row_loops) != 1:
        raise AnalysisError("C15: the csv.DictReader row loop of update_cache was not found")
    rl = row_loops[0]
    inside = {id(x) for x in ast.walk(rl)}
    loop_defs = {id(d) for d in rd_cache.defs if d.stmt is not None and id(d.stmt) in inside and d.kind != "item"}
    stale = [n for n in own_nodes(cache.node) if isinstance(n, ast.Name) and isinstance(n.ctx, ast.Load)
             and id(n) not in inside and any(id(d) in loop_defs for d in rd_cache.defs_of(n))]
    col.ob("G16", "S1", f"{W('update_cache')}::no-row-variable-used-after-the-row-loop", not stale,
           f"`{stale[0].id if stale else ''}` (bound per history row) is used after the row loop: only the last row "
           f"would be processed, earlier epochs lose the data", rel, stale[0].lineno if stale else cache.line,
           sample=[f"{n.id}@{n.lineno}" for n in stale])
    # the row's epoch: the name bound to int(row["epoch"]) inside the row loop
    row_epoch_names = {d.name for d in rd_cache.defs if d.stmt is not None and id(d.stmt) in inside and d.value is not None
                       and u(d.value).replace('"', "'") == f"int({rl.target.id}['epoch'])"}
    urest = []
    for n in ast.walk(rl):
        if isinstance(n, ast.For) and "user_entry_types" in u(n.iter) and isinstance(n.target, ast.Tuple) \
                and len(n.target.elts) == 2:
            kn, tn = [x.id for x in n.target.elts]
            for st_ in n.body:
                if isinstance(st_, ast.Assign) and isinstance(st_.targets[0], ast.Subscript):
                    t = st_.targets[0]
                    # the row being restored: self.cache_hist[<row epoch>] itself or a local that is stored there
                    row_targets = {f"self.cache_hist[{e_}]" for e_ in row_epoch_names}
                    for m_ in ast.walk(rl):
                        if isinstance(m_, ast.Assign) and isinstance(m_.targets[0], ast.Subscript) and u(m_.targets[0]) in set(row_targets) \
                                and isinstance(m_.value, ast.Name):
                            row_targets.add(m_.value.id)
                    okk = u(t.slice) == kn and u(t.value) in row_targets and isinstance(st_.value, ast.Call) \
                        and u(st_.value.func) == tn and len(st_.value.args) == 1 and isinstance(st_.value.args[0], ast.Subscript) \
                        and u(st_.value.args[0].slice) == kn and u(st_.value.args[0].value) == rl.target.id
                    urest.append(okk)
    col.ob("G13", "S1", f"{W('update_cache')}::user-entries-restored-per-row", urest == [True],
           "user-defined entries are not restored, for every history row, as type(row[name]) under their own name",
           rel, rl.lineno, sample=urest)
    wr_user = any(isinstance(n, ast.AugAssign) and "user_entry_types" in u(n.value) for n in own_nodes(hist.node)) or any(
        isinstance(c.func, ast.Attribute) and c.func.attr == "extend" and "user_entry_types" in u(c) for c in own_calls(hist.node))
    col.ob("G13", "S1", f"{W('save_info_to_hist')}::user-entries-written", wr_user,
           "user-defined entries are not appended to the written column list", rel, hist.line)
    col.ob("G13", "S1", f"{W('update_cache')}::epoch0-row-keys", set(seed_keys) == cols,
           f"the epoch-0 row seeds {sorted(seed_keys)}; written columns are {sorted(cols)}", rel, cache.line,
           sample=dict(seeded=sorted(seed_keys)))
    reserved = None
    for n in own_nodes(add.node):
        if isinstance(n, ast.Compare) and isinstance(n.ops[0], ast.In) and _str_list(n.comparators[0]):
            reserved = set(_str_list(n.comparators[0]))
    col.ob("G13", "S1", f"{W('add_entry')}::reserved-names", reserved == cols,
           f"add_entry reserves {sorted(reserved or [])}; written columns are {sorted(cols)} (a user entry "
           f"could shadow a control column)", rel, add.line, sample=dict(reserved=sorted(reserved or [])))
    # seed row values come from the same-named parameters
    seedmap = {"es_resume_cd": "early_stopping_burnin", "es_patience_cd": "early_stopping_patience",
               "rlr_resume_cd": "reduce_lr_burnin", "rlr_patience_cd": "reduce_lr_patience"}
    for n in own_nodes(cache.node):
        if isinstance(n, ast.Assign) and isinstance(n.value, ast.Dict) and isinstance(n.targets[0], ast.Subscript) \
                and u(n.targets[0].slice) == "0":
            for k, v in zip(n.value.keys, n.value.values):
                if isinstance(k, ast.Constant) and k.value in seedmap:
                    col.ob("G13", "S1", f"{W('update_cache')}::seed({k.value})", u(v) == "self.params." + seedmap[k.value],
                           f"epoch-0 `{k.value}` is seeded with `{u(v)}` (expected self.params.{seedmap[k.value]})",
                           rel, v.lineno, sample=dict(key=k.value, value=u(v)))
    # every literal key read from a row is a column
    nkeys = 0
    for f in (upd, cont, best, hist):
        for n in own_nodes(f.node):
            if isinstance(n, ast.Subscript) and isinstance(n.slice, ast.Constant) and isinstance(n.slice.value, str):
                base = u(n.value)
                if base in ("kwargs", "param_group", "optimizer.defaults", "self.fmt_dict", "row"):
                    continue
                nkeys += 1
                col.ob("G13", "S1", f"{rel}::{f.qualname}::row-key({n.slice.value})", n.slice.value in cols,
                       f"`{u(n)}` reads a key that is not a history column {sorted(cols)}", rel, n.lineno,
                       sample=u(n), nontrivial=False)
    col.floor("row_key_reads", nkeys, 20)
    # format table: every column has a format assigned in __init__, ints with 'd', floats with 'e'
    fmts: Dict[str, ast.expr] = {}
    for n in own_nodes(init.node):
        if isinstance(n, ast.Assign) and isinstance(n.targets[0], ast.Subscript) \
                and u(n.targets[0].value) == "self.fmt_dict" and isinstance(n.targets[0].slice, ast.Constant):
            fmts[n.targets[0].slice.value] = n.value
    col.ob("G13", "S1", f"{W('__init__')}::fmt-dict-keys", set(fmts) == cols,
           f"fmt_dict is initialised for {sorted(fmts)}; written columns are {sorted(cols)}", rel, init.line)

    def fmt_kind(k, depth=0):
        v = fmts.get(k)
        if v is None or depth > 3:
            return None
        if isinstance(v, ast.Subscript) and u(v.value) == "self.fmt_dict" and isinstance(v.slice, ast.Constant):
            return fmt_kind(v.slice.value, depth + 1)
        s = " ".join(x.value for x in ast.walk(v) if isinstance(x, ast.Constant) and isinstance(x.value, str))
        if re.search(r"d\}", s):
            return "d"
        m = re.search(r"\.(\{\}|\d+)e\}", s)
        if m:
            return "e-lossy"
        if "!r" in s or re.search(r"\{\}$", s):
            return "lossless"
        return "other"

    for k in sorted(cols):
        want = "d" if (k == "epoch" or k.endswith("_cd")) else "e-lossy"
        fk = fmt_kind(k)
        col.ob("G13", "S1", f"{W('__init__')}::fmt({k})", fk == want or (want != "d" and fk == "lossless"),
               f"column `{k}` is formatted as {fk}", rel, init.line, sample=dict(column=k, fmt=fk))

    # ---------------- S2 no hidden state ------------------------------------------------
    allowed_writers = {"__init__", "update_cache", "add_entry"}
    nmeth = 0
    for name, fl in ci.methods.items():
        for f in fl:
            nmeth += 1
            for attr, node in R_pure.self_attr_writes(f):
                if name in allowed_writers:
                    continue
                isitem = isinstance(node, ast.Subscript) and attr == "cache_hist"
                ok = False
                if isitem and name in ("update_for_epoch", "save_info_to_hist") and not isinstance(node.slice, ast.Name):
                    # the key written directly: row['epoch'] / the next epoch
                    ok = u(node.slice).endswith("['epoch']") or u(node.slice) == "self.get_last_epoch() + 1"
                if isitem and name in ("update_for_epoch", "save_info_to_hist") and isinstance(node.slice, ast.Name):
                    rdm_ = ReachingDefs(f.node)
                    # the subscript node is a Store; look up the key name's defs via a Load twin
                    ds_ = [d for d in rdm_.defs if d.name == node.slice.id]
                    ok = bool(ds_) and all(d.kind == "param" and d.name == "epoch" or (d.value is not None and (
                        u(d.value).endswith("['epoch']") or u(d.value) == "self.get_last_epoch() + 1")) for d in ds_)
                col.ob("G13", "S2", f"{W(name)}::writes(self.{attr})", ok,
                       f"{name} assigns `{u(node)}`: controller state that is not re-derivable from the history "
                       f"file makes a restarted controller diverge", rel, node.lineno, sample=u(node))
    col.floor("controller_methods", nmeth, 15)

    # ---------------- S2' cache / persist coherence (F10) ----------------------------
    rd = ReachingDefs(upd.node)
    rowvar = _prev_row_var(upd, rd)
    for k in sorted(cols):
        if k in ("epoch", "train_met", "val_met") or k.endswith("_cd"):
            continue  # ints round-trip exactly; metrics are on the printed grid by the property's quantifier
        # computed stores into the row
        stores = [n for n in own_nodes(upd.node) if isinstance(n, ast.Assign) and len(n.targets) == 1
                  and isinstance(n.targets[0], ast.Subscript) and _row_var_of(n.targets[0]) == rowvar
                  and isinstance(n.targets[0].slice, ast.Constant) and n.targets[0].slice.value == k]
        computed = []
        for s_ in stores:
            der = rd.derives(s_.value)
            if any(isinstance(x, ast.BinOp) for e in der.exprs for x in ast.walk(e)):
                thru = any(isinstance(c.func, ast.Attribute) and c.func.attr == "format" for c in der.calls()) \
                    and any(call_name(c) == "float" for c in der.calls())
                if not thru:
                    computed.append(s_)
        lossy = fmt_kind(k) == "e-lossy"
        readback = any(isinstance(n, ast.Subscript) and isinstance(n.ctx, ast.Load) and _row_var_of(n) == rowvar
                       and isinstance(n.slice, ast.Constant) and n.slice.value == k for n in own_nodes(upd.node))
        bad = lossy and computed and readback
        col.ob("G13", "S2'", f"{rel}::{CLS}::column({k})::cache-vs-persist", not bad,
               f"column `{k}` is computed by the controller, cached raw, persisted with a lossy format and read "
               f"back from the cached row in later epochs: an uninterrupted run (raw cache) and a restarted run "
               f"(parsed cache) diverge", rel, computed[0].lineno if computed else upd.line,
               sample=dict(column=k, fmt=fmt_kind(k), computed=[u(c) for c in computed]))

    # ---------------- S3/S4 reference epochs and sibling symmetry --------------------
    pm = parent_map(upd.node)
    sib = {}
    for P, L in PAIRS:
        sib[P] = _control_block(upd, rd, pm, P, L, rowvar)
        b = sib[P]
        where = W("update_for_epoch")
        n_ = Normalizer()
        want = ast.parse(f"epoch - self.params.{L}_patience + {rowvar}['{P}_patience_cd'] - 1", mode="eval").body
        okref = b["ref_expr"] is not None and not padd(n_.poly(b["ref_expr"]), n_.poly(want), -1)
        col.ob("G12", "S4", f"{where}::{P}-reference-epoch", okref,
               f"the {L} reference epoch is `{u(b['ref_expr']) if b['ref_expr'] is not None else None}`, expected "
               f"epoch - patience + countdown - 1", rel, b["line"], sample=u(b["ref_expr"]) if b["ref_expr"] is not None else None)
        # S3: the countdown read there is the previous row's (no store to it reaches the use)
        stale = False
        if b["ref_expr"] is not None:
            for nm in ast.walk(b["ref_expr"]):
                if isinstance(nm, ast.Name) and nm.id == rowvar:
                    for d in rd.defs_of(nm):
                        t = getattr(d, "target", None)
                        if d.kind == "item" and isinstance(t, ast.Subscript) and isinstance(t.slice, ast.Constant) \
                                and t.slice.value in (f"{P}_patience_cd", f"{P}_resume_cd"):
                            stale = True
        col.ob("G16", "S3", f"{where}::{P}-reference-reads-previous-countdown", not stale,
               f"the {L} reference epoch is computed after this epoch's countdown update (it must use the previous "
               f"row's countdown)", rel, b["line"])
        col.ob("G12", "S4", f"{where}::{P}-predicate", b["pred"] == f"max(REF['val_met'] - val_met, 0) < self.params.{L}_threshold",
               f"the {L} no-improvement predicate is `{b['pred']}`", rel, b["line"], sample=b["pred"])
        col.ob("G12", "S4", f"{where}::{P}-chain", b["chain"] == ["resume-truthy", "resume-=1", "pred", "patience-=1", "else-reset-patience"],
               f"the {L} countdown chain is {b['chain']} (expected resume countdown, else predicate -> patience "
               f"countdown, else reset to patience)", rel, b["line"], sample=b["chain"])
    col.ob("G12", "S4", f"{W('update_for_epoch')}::es-rlr-alpha-equivalent",
           sib["es"]["shape"] == sib["rlr"]["shape"],
           f"the early-stopping and reduce-lr control blocks are not alpha-equivalent: {sib['es']['shape']} vs "
           f"{sib['rlr']['shape']}", rel, upd.line, sample=sib["es"]["shape"])

    # ---------------- S5 stop rule agreement -------------------------------------------
    ru = _stop_rules(upd, pm)
    rc = _stop_rules(cont, parent_map(cont.node))
    col.ob("G13", "S5", f"{rel}::{CLS}::stop-rule(update_for_epoch==continue_training)", ru == rc and len(ru) >= 3,
           f"update_for_epoch decides to continue by {sorted(ru)} but continue_training by {sorted(rc)}: a "
           f"restarted run would stop at a different epoch", rel, cont.line, sample=sorted(ru))
    want_rules = {("True", "self.params.num_epochs", False),
                  ("epoch < self.params.num_epochs", "self.params.num_epochs", True),
                  ("False", "self.params.early_stopping_threshold and (not ROW['es_patience_cd'])", True)}
    col.ob("G13", "S5", f"{W('update_for_epoch')}::stop-rule", ru == want_rules,
           f"stop rule is {sorted(ru)}", rel, upd.line, sample=sorted(ru))

    # ---------------- S6 lr write-through ----------------------------------------------
    _s6(ctx, upd, rd, pm, rowvar, rel, W("update_for_epoch"))
    # a restarted controller reads the history back: the header must be there whatever state the file was in
    from .c16 import history_header_rule
    history_header_rule(ctx, "S1")
    plumbing(ctx, "S0", g4=False)
    return dict(
        explanation=(
            "Decides for C15: (S1) the CSV columns written, parsed (same-named column, int/float), seeded in the "
            "epoch-0 row, reserved by add_entry, formatted, and every literal row key read are one set; (S2) no "
            "controller state outside cache_hist is written after construction; (S2') no controller-computed float "
            "column is cached raw while persisted lossily [known finding F10: lr]; (S3) reference epochs use the "
            "previous row's countdown; (S4) both reference epochs normalise to epoch - patience + countdown - 1 and "
            "the two control blocks are alpha-equivalent; (S5) update_for_epoch and continue_training apply the same "
            "stop rule; (S6) a new learning rate is written to the row and to every optimizer param group together, "
            "and on no other path. NOT decided: that the countdown arithmetic realises the stated rule for every "
            "metric history; float formatting round trips."),
        decided=["S1", "S2", "S2'", "S3", "S4", "S5", "S6"],
        not_decided=["countdown arithmetic against the rule over all histories", "float formatting round-trips"],
        assumptions=["csv.DictReader/writer semantics", "metrics lie on the printed grid (property quantifier)"],
    )


def _prev_row_var(upd, rd) -> str:
    """The local holding the copy of the previous epoch's row (dict(self.get_info(epoch - 1, ...)))."""
    for n in own_nodes(upd.node):
        if isinstance(n, ast.Assign) and len(n.targets) == 1 and isinstance(n.targets[0], ast.Name):
            for c in ast.walk(n.value):
                if isinstance(c, ast.Call) and isinstance(c.func, ast.Attribute) and c.func.attr == "get_info" \
                        and c.args and isinstance(c.args[0], ast.BinOp) and u(c.args[0]) == "epoch - 1":
                    if isinstance(n.value, ast.Call) and call_name(n.value) == "dict":
                        return n.targets[0].id
    raise AnalysisError("C15: the copy of the previous epoch's row (dict(self.get_info(epoch - 1))) not found")


def _control_block(upd, rd, pm, P, L, rowvar):
    """Extract the reference-epoch expression, predicate and chain shape of one control block."""
    out = dict(ref_expr=None, pred=None, chain=[], shape=None, line=upd.line)
    # locate the block through its resume countdown: `if ROW['<P>_resume_cd']: ... elif <predicate>:`
    pred_node = None
    for n in own_nodes(upd.node):
        if isinstance(n, ast.If) and u(n.test) == f"{rowvar}['{P}_resume_cd']" and len(n.orelse) == 1 \
                and isinstance(n.orelse[0], ast.If):
            pred_node = n.orelse[0].test
    if pred_node is None or not isinstance(pred_node, ast.Compare):
        raise AnalysisError(f"C15: the {L} control block (if row['{P}_resume_cd'] ... elif predicate) was not found")
    out["line"] = pred_node.lineno
    refvar = None
    for x in ast.walk(pred_node):
        if isinstance(x, ast.Subscript) and u(x.slice) == "'val_met'" and isinstance(x.value, ast.Name):
            refvar = x.value
    if refvar is None:
        out["pred"] = u(pred_node)
        out["shape"] = (None, out["pred"], ())
        return out
    from sa.inline import Inliner
    inl = Inliner(upd.node, rd, keep={refvar.id, rowvar})  # temporaries such as `patience = self.params.x_patience` are looked through
    out["pred"] = inl.text(pred_node).replace(refvar.id + "[", "REF[")
    for d in rd.defs_of(refvar):
        v = d.value
        if isinstance(v, ast.Call) and isinstance(v.func, ast.Attribute) and v.func.attr == "get_info" and v.args:
            out["ref_expr"] = inl.expand(v.args[0])
    # the chain: the If statement whose elif test is the predicate
    st = pm.get(pred_node)
    while st is not None and not isinstance(st, ast.If):
        st = pm.get(st)
    top = pm.get(st)
    chain = []
    if isinstance(top, ast.If) and st in top.orelse:
        rk, pk = f"{rowvar}['{P}_resume_cd']", f"{rowvar}['{P}_patience_cd']"
        if u(top.test) == rk:
            chain.append("resume-truthy")
        if any(isinstance(s, ast.AugAssign) and u(s.target) == rk and isinstance(s.op, ast.Sub) and u(s.value) == "1"
               for s in top.body) and len(top.body) == 1:
            chain.append("resume-=1")
        chain.append("pred")
        if st.body and isinstance(st.body[0], ast.AugAssign) and u(st.body[0].target) == pk \
                and isinstance(st.body[0].op, ast.Sub) and u(st.body[0].value) == "1":
            chain.append("patience-=1")
        if len(st.orelse) == 1 and isinstance(st.orelse[0], ast.Assign) and u(st.orelse[0].targets[0]) == pk \
                and inl.text(st.orelse[0].value) == f"self.params.{L}_patience":
            chain.append("else-reset-patience")
    out["chain"] = chain
    ren = lambda s: s.replace(P + "_", "X_").replace(L + "_", "XX_").replace(rowvar, "ROW")
    out["shape"] = (ren(pstr(Normalizer().poly(out["ref_expr"]))) if out["ref_expr"] is not None else None,
                    ren(out["pred"] or ""), tuple(chain))
    return out


def _stop_rules(f, pm) -> Set[Tuple[str, str, bool]]:
    """(assigned value, innermost guard) pairs for the returned continue-flag."""
    rets = [n for n in own_nodes(f.node) if isinstance(n, ast.Return) and isinstance(n.value, ast.Name)]
    if not rets:
        raise AnalysisError(f"C15: {f.qualname} does not return a flag variable")
    flag = rets[-1].value.id
    rowvars = set()
    for n in own_nodes(f.node):
        if isinstance(n, ast.Assign) and len(n.targets) == 1 and isinstance(n.targets[0], ast.Name):
            if any(isinstance(c, ast.Call) and isinstance(c.func, ast.Attribute) and c.func.attr == "get_info"
                   for c in ast.walk(n.value)):
                rowvars.add(n.targets[0].id)
    out = set()
    for n in own_nodes(f.node):
        if isinstance(n, ast.Assign) and len(n.targets) == 1 and isinstance(n.targets[0], ast.Name) \
                and n.targets[0].id == flag:
            gs = guards_of(pm, n)
            g, pol = "True", True
            if gs:
                t, pol = gs[-1]
                while isinstance(t, ast.UnaryOp) and isinstance(t.op, ast.Not):
                    t, pol = t.operand, not pol
                g = u(t)
            for rv in rowvars:
                g = g.replace(rv + "[", "ROW[")
            out.add((u(n.value), g, pol))
    return out


def _s6(ctx, upd, rd, pm, rowvar, rel, where):
    col = ctx.col
    row_lr = [n for n in own_nodes(upd.node) if isinstance(n, ast.Assign) and len(n.targets) == 1
              and u(n.targets[0]) == f"{rowvar}['lr']"]
    opt_lr = [n for n in own_nodes(upd.node) if isinstance(n, ast.Assign) and len(n.targets) == 1
              and isinstance(n.targets[0], ast.Subscript) and u(n.targets[0].slice) == "'lr'"
              and u(n.targets[0].value) != rowvar]
    col.floor("row_lr_stores", len(row_lr), 2)
    col.count("optimizer_lr_stores", len(opt_lr))
    # the optimizer store: for every param group, same value as the row store in the same branch
    for o in opt_lr:
        loop = pm.get(o)
        okloop = isinstance(loop, ast.For) and u(loop.iter) == "optimizer.param_groups" \
            and isinstance(loop.target, ast.Name) and u(o.targets[0].value) == loop.target.id
        block = pm.get(loop) if okloop else None
        sibs = [s for s in getattr(block, "body", []) if s in row_lr] if block is not None else []
        ok = okloop and len(sibs) == 1 and u(sibs[0].value) == u(o.value)
        col.ob("G10", "S6", f"{where}::lr-write-through", ok,
               f"`{u(o)}` is not paired, in the same branch and for every param group, with `{rowvar}['lr'] = "
               f"{u(o.value)}`: the optimizer and the recorded history disagree about the learning rate", rel,
               o.lineno, sample=dict(optimizer_store=u(o), row_stores=[u(s) for s in sibs]))
    for r in row_lr:
        gs = [(u(t), pol) for t, pol in guards_of(pm, r)]
        if any("is None" in g and pol for g, pol in gs):
            okr = u(r.value) == "optimizer.defaults['lr']"
            col.ob("G10", "S6", f"{where}::lr-initial-fill", okr,
                   f"the unknown initial rate is filled with `{u(r.value)}` (expected the optimizer default)", rel,
                   r.lineno, sample=u(r))
            continue
        block = pm.get(r)
        has_opt = any(isinstance(s, ast.For) and any(o in list(ast.walk(s)) for o in opt_lr)
                      for s in getattr(block, "body", []))
        col.ob("G10", "S6", f"{where}::row-lr-change-reaches-optimizer", has_opt,
               f"`{u(r)}` changes the recorded rate without writing it into the optimizer", rel, r.lineno,
               sample=u(r))
        # new = old * factor, old = row['lr'], guarded by old - new > 10 ** log10_epsilon
        der = rd.derives(r.value)
        n_ = Normalizer(subst={d.name: d.value for d in der.defs if d.kind == "assign" and d.value is not None
                               and d.name != rowvar and not isinstance(d.value, ast.Call)})
        want = ast.parse(f"{rowvar}['lr'] * self.params.reduce_lr_factor", mode="eval").body
        okv = not padd(n_.poly(r.value), Normalizer().poly(want), -1)
        col.ob("G12", "S6", f"{where}::new-lr=old*factor", okv,
               f"the new rate `{u(r.value)}` does not normalise to row['lr'] * reduce_lr_factor", rel, r.lineno,
               sample=pstr(n_.poly(r.value)))
        gtxt = [g for g, pol in gs if pol]
        okg = any("rlr_patience_cd" in g for g in gtxt)
        col.ob("G10", "S6", f"{where}::lr-change-only-when-patience-exhausted", okg,
               f"the rate changes under guards {gtxt}; expected inside 'not row[rlr_patience_cd]'", rel, r.lineno,
               sample=gtxt)


MANIFEST = dict(
    level_text=(
        "Static table/dataflow analysis of TrainingStateController (no execution): agreement of the CSV "
        "column tables (written / parsed with the right type from the same-named column / seeded / reserved / "
        "formatted / read), absence of controller state outside the cached history, cache-vs-persist coherence "
        "of controller-computed float columns, reference-epoch expressions in linear normal form reading the "
        "previous row, alpha-equivalence of the early-stopping and reduce-lr blocks, equality of the stop rule "
        "in update_for_epoch and continue_training, and learning-rate write-through. These are necessary "
        "conditions for 'decisions survive restarts'; the countdown arithmetic against the stated rule over all "
        "metric histories is not decided."),
    level_note="Trusted: python ast, csv module semantics. Known finding F10 (lr cached raw, persisted with "
               "'{:.4e}') is listed in known_findings.json.",
    technique="static analysis: literal-table extraction and set comparison, reaching definitions, linear normal forms, sibling alpha-equivalence",
    design_ref="DESIGN.md section 4 C15",
)


def _mutants():
    from selftest.mutate import Mutant as M
    T = "training.py"
    return [
        M("header-only-if-missing", T, "write_header = not os.path.exists(self.state_csv_path) or os.path.getsize(self.state_csv_path) == 0", "write_header = not os.path.exists(self.state_csv_path)", "header-iff-the-history-is-empty"),
        M("parse-col-from-other", T, "'rlr_resume_cd': int(row['rlr_resume_cd'])", "'rlr_resume_cd': int(row['es_resume_cd'])",
          "update_cache::column(rlr_resume_cd)"),
        M("parse-lr-as-int", T, "'lr': float(row['lr'])", "'lr': int(float(row['lr']))", "column(lr)"),
        M("drop-column-from-writer", T, "names = ['epoch', 'es_resume_cd', 'es_patience_cd', 'rlr_resume_cd', 'rlr_patience_cd', 'lr', 'train_met', 'val_met']",
          "names = ['epoch', 'es_resume_cd', 'es_patience_cd', 'rlr_patience_cd', 'lr', 'train_met', 'val_met']", "G13/S1"),
        M("reserved-missing", T, "'rlr_patience_cd', 'lr', 'train_met', 'val_met'}:", "'rlr_patience_cd', 'train_met', 'val_met'}:",
          "reserved-names"),
        M("seed-from-wrong-param", T, "'rlr_resume_cd': self.params.reduce_lr_burnin", "'rlr_resume_cd': self.params.reduce_lr_cooldown",
          "seed(rlr_resume_cd)"),
        M("hidden-state", T, "info['epoch'] = epoch\ninfo['val_met'] = val_met",
          "info['epoch'] = epoch\nself._last_val = val_met\ninfo['val_met'] = val_met", "G13/S2"),
        M("es-ref-drop-minus-1", T, "es_epoch = epoch - self.params.early_stopping_patience + info['es_patience_cd'] - 1",
          "es_epoch = epoch - self.params.early_stopping_patience + info['es_patience_cd']", "es-reference-epoch"),
        M("rlr-ref-uses-es-cd", T, "rlr_epoch = epoch - self.params.reduce_lr_patience + info['rlr_patience_cd'] - 1",
          "rlr_epoch = epoch - self.params.reduce_lr_patience + info['es_patience_cd'] - 1", "rlr-reference-epoch"),
        M("rlr-ref-after-decrement", T, "rlr_epoch = epoch - self.params.reduce_lr_patience + info['rlr_patience_cd'] - 1\nrlr_info = self.get_info(rlr_epoch)\nif info['rlr_resume_cd']:\n    info['rlr_resume_cd'] -= 1",
          "if info['rlr_resume_cd']:\n    info['rlr_resume_cd'] -= 1\n    rlr_epoch = epoch - 1\n    rlr_info = self.get_info(rlr_epoch)", "rlr-"),
        M("rlr-threshold-swapped", T, "max(rlr_info['val_met'] - val_met, 0) < self.params.reduce_lr_threshold",
          "max(rlr_info['val_met'] - val_met, 0) < self.params.early_stopping_threshold", "G12/S4"),
        M("es-pred-sign", T, "max(es_info['val_met'] - val_met, 0) < self.params.early_stopping_threshold",
          "max(val_met - es_info['val_met'], 0) < self.params.early_stopping_threshold", "es-predicate"),
        M("es-reset-wrong", T, "info['es_patience_cd'] = self.params.early_stopping_patience\nif self.params",
          "info['es_patience_cd'] = self.params.early_stopping_burnin\nif self.params", "es-chain"),
        M("continue-training-differs", T, "if self.params.early_stopping_threshold and (not info['es_patience_cd']):\n    cont = False\nreturn cont",
          "if self.params.early_stopping_threshold and (not info['es_resume_cd']):\n    cont = False\nreturn cont", "stop-rule"),
        M("lr-not-written-to-optimizer", T, "for param_group in optimizer.param_groups:\n    param_group['lr'] = new_lr", "pass",
          "G10/S6"),
        M("optimizer-gets-old-lr", T, "param_group['lr'] = new_lr", "param_group['lr'] = old_lr", "lr-write-through"),
        M("new-lr-additive", T, "new_lr = old_lr * self.params.reduce_lr_factor", "new_lr = old_lr - self.params.reduce_lr_factor",
          "new-lr=old*factor"),
        M("fmt-key-mixup", T, "wr.writerow([self.fmt_dict[k].format(info[k]) for k in names])",
          "wr.writerow([self.fmt_dict['lr'].format(info[k]) for k in names])", "row=fmt[k]"),
        M("user-entries-outside-row-loop", T,
          "self._barrier()\n            return\n        with open(self.state_csv_path) as f:", "self._barrier()\n            return\n        with open(self.state_csv_path) as f:",
          "", twin=True),
        M("twin:rename-info", T, "info", "row_", "", -1, twin=True),
    ]


def selftest(ctx: Ctx):
    from selftest.mutate import run_selftest
    return run_selftest("C15", ctx.pkg.repo, _mutants(), floor=15)
