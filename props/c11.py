"""C11 transcript files: path/file re-dispatch (G6), order-preserving parallel reader (G11/G13),
ctm field order across writer/reader (G2), seconds<->frames unit kinds (G14), tier bounds (G12)."""
from __future__ import annotations

import ast
from typing import Dict, Optional

from rules import fwd as R_fwd
from sa.astutil import call_name, guards_of, is_const, kwarg, names_in, parent_map, u
from sa.inline import Inliner
from sa.defuse import ReachingDefs
from sa.model import AnalysisError, own_calls, own_nodes
from sa.resolve import norm_name
from .common import Ctx, plumbing

MOD = "_parsing"
REDISPATCH = {"read_trn_iter", "read_trn", "write_trn", "read_ctm", "write_ctm", "read_textgrid", "write_textgrid"}

Unit = Dict[str, int]


def _umul(a: Unit, b: Unit, sign: int = 1) -> Unit:
    out = dict(a)
    for k, v in b.items():
        out[k] = out.get(k, 0) + sign * v
    return {k: v for k, v in out.items() if v}


class UnitError(Exception):
    pass


def unit_of(e: ast.AST, env: Dict[str, Unit]) -> Optional[Unit]:
    """Unit of an arithmetic expression; None = dimensionless literal (adopts any unit in +/-)."""
    if isinstance(e, ast.Constant) and isinstance(e.value, (int, float)):
        if e.value == 1000:
            return {"ms": 1, "s": -1}
        return None
    if isinstance(e, ast.Name):
        if e.id in env:
            return env[e.id]
        raise UnitError(f"unknown quantity `{e.id}`")
    if isinstance(e, ast.BinOp):
        if isinstance(e.op, (ast.Mult,)):
            a, b = unit_of(e.left, env), unit_of(e.right, env)
            # a bare count times ms/frame is a number of frames expressed in ms
            if a is None and b == {"ms": 1, "frame": -1}:
                return {"ms": 1}
            if b is None and a == {"ms": 1, "frame": -1}:
                return {"ms": 1}
            return _umul(a or {}, b or {})
        if isinstance(e.op, (ast.Div, ast.FloorDiv)):
            a, b = unit_of(e.left, env), unit_of(e.right, env)
            return _umul(a or {}, b or {}, -1)
        if isinstance(e.op, (ast.Add, ast.Sub)):
            a, b = unit_of(e.left, env), unit_of(e.right, env)
            if a is None:
                return b
            if b is None:
                return a
            if a != b:
                raise UnitError(f"`{u(e)}` adds {a} and {b}")
            return a
    if isinstance(e, ast.Call) and call_name(e) in ("max", "min", "int", "round", "float"):
        us = [unit_of(a, env) for a in e.args]
        known = [x for x in us if x is not None]
        if known and any(x != known[0] for x in known):
            raise UnitError(f"`{u(e)}` compares different units {known}")
        return known[0] if known else None
    raise UnitError(f"unsupported expression `{u(e)}`")


def run(ctx: Ctx):
    col, pkg, res = ctx.col, ctx.pkg, ctx.res
    rel = pkg.module(MOD).relname

    # ---- S1 path or file: same output under every option --------------------------------------------
    R_fwd.g6_redispatch(pkg, res, col, clause="S1", only=REDISPATCH)
    col.floor("g6_redispatch_sites", col.counts.get("g6_redispatch_sites", 0), 6)
    # read_trn -> read_trn_iter forwards everything
    R_fwd.g5_delegation(pkg, res, col, [f"{MOD}::read_trn"], {"read_trn_iter"}, clause="S1")

    # ---- S2 one worker or many: same list ---------------------------------------------------------------
    it = pkg.func(f"{MOD}::read_trn_iter")
    where = f"{rel}::read_trn_iter"
    pools = [c for c in own_calls(it.node) if isinstance(c.func, ast.Attribute) and c.func.attr in (
        "imap", "imap_unordered", "map", "map_async", "starmap", "apply_async")]
    col.floor("trn_pool_calls", len(pools), 1)
    for c in pools:
        col.ob("G11", "S2", f"{where}::pool.{c.func.attr}::order-preserving", c.func.attr in ("imap", "map", "starmap"),
               f"the parallel reader collects results with pool.{c.func.attr}: transcripts come back in completion "
               f"order, so reading with several workers yields a differently ordered list", rel, c.lineno, sample=u(c)[:100])
    serial_worker = parallel_worker = None
    serial_arg = parallel_arg = None
    for c in own_calls(it.node):
        if call_name(c) == "_trn_line_to_transcript" and c.args:
            serial_worker, serial_arg = "_trn_line_to_transcript", u(c.args[0])
    for c in pools:
        if c.args:
            parallel_worker = u(c.args[0])
            a = c.args[1] if len(c.args) > 1 else None
            if isinstance(a, ast.GeneratorExp):
                parallel_arg = u(a.elt)
    col.ob("G13", "S2", f"{where}::serial-and-parallel-apply-the-same-worker",
           serial_worker == parallel_worker and serial_arg == parallel_arg,
           f"serial branch applies {serial_worker}({serial_arg}), parallel branch {parallel_worker}({parallel_arg})",
           rel, it.line, sample=dict(serial=(serial_worker, serial_arg), parallel=(parallel_worker, parallel_arg)))
    # both branches drop None results and nothing else: every `yield x` is reached only when x is not None (if-form or
    # `if x is None: continue` form), under no other condition on x; a `yield from` is the recursive path dispatch only
    pm = parent_map(it.node)
    filt = []
    for n in own_nodes(it.node):
        if isinstance(n, ast.YieldFrom):
            if not (isinstance(n.value, ast.Call) and call_name(n.value) == "read_trn_iter"):
                filt.append(f"yield from {u(n.value)[:40]} (unfiltered)")
        elif isinstance(n, ast.Yield):
            if not isinstance(n.value, ast.Name):
                filt.append(f"yield {u(n.value)[:40]}")
                continue
            nm = n.value.id
            conds = set()
            for t, pol in guards_of(pm, n):
                if nm not in names_in(t):
                    continue
                if isinstance(t, ast.Compare) and len(t.ops) == 1 and isinstance(t.left, ast.Name) and t.left.id == nm \
                        and is_const(t.comparators[0], None) and isinstance(t.ops[0], (ast.Is, ast.IsNot)):
                    conds.add("is not None" if isinstance(t.ops[0], ast.IsNot) == pol else "is None")
                else:
                    conds.add(("" if pol else "not ") + u(t))
            filt.append("x " + " and ".join(sorted(conds)) if conds else "unfiltered")
    col.ob("G13", "S2", f"{where}::same-filter-in-both-branches", len(filt) >= 2 and set(filt) == {"x is not None"},
           f"the serial and parallel branches filter results by {filt}", rel, it.line, sample=filt)

    # ---- S3 ctm field order: writer tuple == reader unpack ---------------------------------------------------
    wr = pkg.func(f"{MOD}::write_ctm")
    rdc = pkg.func(f"{MOD}::read_ctm")
    written = None
    for c in own_calls(wr.node):
        if isinstance(c.func, ast.Attribute) and c.func.attr == "append" and c.args and isinstance(c.args[0], ast.Tuple) \
                and len(c.args[0].elts) == 5:
            written = [u(x) for x in c.args[0].elts]
    read = None
    for n in own_nodes(rdc.node):
        if isinstance(n, ast.Assign) and isinstance(n.targets[0], ast.Tuple) and len(n.targets[0].elts) == 5 \
                and isinstance(n.value, ast.Subscript):
            read = [u(x) for x in n.targets[0].elts]
    if written is None or read is None:
        raise AnalysisError("C11: ctm writer tuple / reader unpack not found")

    # positive contradictions only (names are evidence, not requirements): a written field whose name matches a
    # *different* slot of the reader's unpack
    def nn(x):
        return norm_name(x)
    contra = None
    for i, a in enumerate(written):
        for j, b in enumerate(read):
            if i != j and (nn(a) == nn(b)) and nn(written[j]) != nn(b):
                contra = (i, a, j)
    ok = contra is None
    col.ob("G2", "S3", f"{rel}::ctm::field-order(writer==reader)", ok,
           f"write_ctm emits fields {written}; read_ctm unpacks {read}" + (f": `{contra[1]}` is written in slot {contra[0]} "
           f"but read from slot {contra[2]}" if contra else ""), rel, wr.line, sample=dict(written=written, read=read))
    # the written line lists the five fields in the order of the stored tuple: either "{} {} {} {} {}".format(*segment), or an
    # f-string / format over the names the loop unpacks from the tuple, in unpacking order
    fmt = [c for c in own_calls(wr.node) if isinstance(c.func, ast.Attribute) and c.func.attr == "format"
           and isinstance(c.func.value, ast.Constant) and isinstance(c.func.value.value, str) and c.func.value.value.count("{}") == 5]
    ok5 = len(fmt) == 1 and len(fmt[0].args) == 1 and isinstance(fmt[0].args[0], ast.Starred)
    if not ok5:
        fields = None
        for c in fmt:
            if len(c.args) == 5 and all(isinstance(a, ast.Name) for a in c.args):
                fields = [a.id for a in c.args]
        for n in own_nodes(wr.node):
            if isinstance(n, ast.JoinedStr):
                fv = [v.value for v in n.values if isinstance(v, ast.FormattedValue)]
                if len(fv) == 5 and all(isinstance(a, ast.Name) for a in fv):
                    fields = [a.id for a in fv]
        if fields is not None:
            for n in own_nodes(wr.node):
                if isinstance(n, ast.For) and isinstance(n.target, ast.Tuple) and [u(t) for t in n.target.elts] == fields:
                    ok5 = True
    col.ob("G2", "S3", f"{rel}::write_ctm::five-fields-in-tuple-order", ok5,
           "the ctm line is not formatted from the 5-tuple in order", rel, wr.line)
    # duration <-> end are inverse: writer duration = end - start; reader end = start + float(dur)
    wdur = [n for n in own_nodes(wr.node) if isinstance(n, ast.Assign) and u(n.targets[0]) == written[3]]
    # writer: duration = end - start, with (token, start, end) unpacked from the transcript triple
    trip = [n for n in own_nodes(wr.node) if isinstance(n, ast.Assign) and isinstance(n.targets[0], ast.Tuple)
            and len(n.targets[0].elts) == 3 and isinstance(n.value, ast.Name)]
    okw = False
    if trip and len(wdur) == 1:
        tk, st_, en_ = [u(t) for t in trip[0].targets[0].elts]
        okw = u(wdur[0].value) == f"{en_} - {st_}" and written[2] == st_ and written[4] == tk
    rend = [n for n in own_nodes(rdc.node) if isinstance(n, ast.Assign) and isinstance(n.value, ast.BinOp)
            and isinstance(n.value.op, ast.Add) and read[3] in u(n.value) and read[2] in u(n.value)]
    okr_ = len(rend) == 1 and u(rend[0].value).replace("float(", "").replace(")", "") == f"{read[2]} + {read[3]}"
    okd = okw and okr_
    col.ob("G12", "S3", f"{rel}::ctm::duration-end-inverse", okd,
           f"writer: {u(wdur[0]) if wdur else None}; reader: {u(rend[0]) if rend else None}; expected duration = end - "
           f"start and end = start + duration", rel, wr.line)
    # mapping orientation
    # (wherever the lookups sit: an assignment, a conditional expression, a try block)
    okm = any(isinstance(x, ast.Subscript) and isinstance(x.ctx, ast.Load) and u(x.value) == "utt2wc" and isinstance(x.slice, ast.Name)
              for x in own_nodes(wr.node)) and any(
        isinstance(x, ast.Subscript) and isinstance(x.ctx, ast.Load) and u(x.value) == "wc2utt" and isinstance(x.slice, ast.Tuple)
        and [u(e_) for e_ in x.slice.elts] == [read[0], read[1]] for x in own_nodes(rdc.node))
    col.ob("G2", "S3", f"{rel}::ctm::utt2wc/wc2utt-orientation", okm,
           "writer must map utt_id -> (wfn, chan) and reader (wfn, chan) -> utt_id", rel, rdc.line)
    # mandated ordering: segments sorted before writing; reader sorts tokens by start
    # (the loop that writes the lines iterates over the sorted segment list: `sorted(...)` in the expansion of its iterable, or an
    # earlier argument-less `.sort()` of the list it iterates over)
    inl_w = Inliner(wr.node)
    oks = False
    for l in own_nodes(wr.node):
        if not (isinstance(l, ast.For) and any(isinstance(c.func, ast.Attribute) and c.func.attr == "write" for s_ in l.body for c in ast.walk(s_)
                                                if isinstance(c, ast.Call))):
            continue
        ex = inl_w.expand(l.iter)
        if isinstance(ex, ast.Call) and call_name(ex) == "sorted" and len(ex.args) == 1 and not ex.keywords:
            oks = True
        elif any(isinstance(c.func, ast.Attribute) and c.func.attr == "sort" and not c.args and not c.keywords
                 and u(c.func.value) == u(l.iter) and c.lineno < l.lineno for c in own_calls(wr.node)):
            oks = True
    col.ob("G13", "S3", f"{rel}::write_ctm::sorted-segments", oks, "ctm segments are not sorted before writing", rel, wr.line)

    # ---- S4 seconds <-> frames unit kinds ------------------------------------------------------------------------
    t2t = pkg.func(f"{MOD}::transcript_to_token")
    k2t = pkg.func(f"{MOD}::token_to_transcript")
    FS = {"ms": 1, "frame": -1}
    n_units = 0
    per_func = {}
    for f, src, dst in ((t2t, {"s": 1}, {"frame": 1}), (k2t, {"frame": 1}, {"s": 1})):
        pmf = parent_map(f.node)
        for n in own_nodes(f.node):
            if not isinstance(n, ast.Assign):
                continue
            # a conversion site: an arithmetic assignment mentioning the frame shift (an API-level parameter); every
            # other quantity in it carries the source unit
            conv = n.value
            if isinstance(conv, ast.Call) and call_name(conv) == "max" and len(conv.args) == 2:
                # end = max(<conversion>, start + 1): the conversion is the operand that mentions the frame shift
                cands = [a for a in conv.args if isinstance(a, ast.BinOp) and "frame_shift_ms" in u(a)]
                conv = cands[0] if len(cands) == 1 else conv
            if not isinstance(conv, ast.BinOp) or "frame_shift_ms" not in u(conv):
                continue
            if not all(isinstance(t, ast.Name) for t in n.targets):
                continue
            names = [t.id for t in n.targets]
            n_units += 1
            per_func[f.qualname] = per_func.get(f.qualname, 0) + 1
            env = {x.id: src for x in ast.walk(conv) if isinstance(x, ast.Name) and x.id != "frame_shift_ms"}
            env["frame_shift_ms"] = FS
            try:
                got = unit_of(conv, env)
                ok = got == dst
                msg = f"`{u(n)}` has unit {got}, expected {dst}"
            except UnitError as e:
                ok, msg = False, f"`{u(n)}`: {e}"
            col.ob("G14", "S4", f"{rel}::{f.qualname}::units({u(n.value)[:44]})", ok,
                   msg + " (seconds -> frames is 1000 * t // frame_shift_ms; frames -> seconds is f * frame_shift_ms / 1000)",
                   rel, n.lineno, sample=u(n))
    # (not vacuous: each direction has at least one conversion site; how many statements spell them is the author's choice)
    col.floor("unit_conversion_sites", n_units, 2)
    col.floor("unit_conversion_directions", len(per_func), 2)
    # rounding: start floors, end rounds half up, and a non-empty segment keeps at least one frame
    okmax = False
    for n in own_nodes(t2t.node):
        if isinstance(n, ast.Assign) and isinstance(n.targets[0], ast.Name) and isinstance(n.value, ast.Call) \
                and call_name(n.value) == "max" and len(n.value.args) == 2:
            # end = max(<end in frames>, start + 1): either the variable itself (assigned just before) or its conversion
            for a0, a1 in (n.value.args, n.value.args[::-1]):
                if isinstance(a1, ast.BinOp) and isinstance(a1.op, ast.Add) and "1" in (u(a1.right), u(a1.left)) \
                        and any(isinstance(x, ast.Name) and x.id != n.targets[0].id for x in (a1.left, a1.right)) \
                        and (u(a0) == n.targets[0].id or (n.targets[0].id in {x.id for x in ast.walk(a0) if isinstance(x, ast.Name)}
                                                          and "frame_shift_ms" in u(a0))):
                    okmax = True
    col.ob("G12", "S4", f"{rel}::transcript_to_token::end>=start+1", okmax,
           "a non-empty segment may collapse to zero frames (end = max(end, start + 1) missing)", rel, t2t.line)

    # the unknown symbol is looked up in the map only where it is a key; otherwise it already IS the identifier (documented)
    pm_t = parent_map(t2t.node)
    unk_defs = []
    for n in own_nodes(t2t.node):
        if isinstance(n, ast.Assign) and len(n.targets) == 1 and isinstance(n.targets[0], ast.Name) and n.targets[0].id == "unk":
            v = n.value
            if isinstance(v, ast.Subscript) and u(v.slice) == "unk":
                guarded = any(pol and any(isinstance(c, ast.Compare) and len(c.ops) == 1 and isinstance(c.ops[0], ast.In)
                                          and u(c.left) == "unk" and u(c.comparators[0]) == u(v.value) for c in ast.walk(t))
                              for t, pol in guards_of(pm_t, n))
                unk_defs.append((n, guarded))
            elif isinstance(v, ast.Call) and isinstance(v.func, ast.Attribute) and v.func.attr == "get" and v.args and u(v.args[0]) == "unk":
                unk_defs.append((n, len(v.args) == 2 and u(v.args[1]) == "unk"))
            else:
                unk_defs.append((n, False))
    badu = [n for n, ok_ in unk_defs if not ok_]
    col.ob("G13", "S4", f"{rel}::transcript_to_token::unknown-symbol-kept-when-it-is-not-a-key", bool(unk_defs) and not badu,
           f"`{u(badu[0]) if badu else ''}` replaces `unk` by a map lookup that has no fallback to the given value: an `unk` that is "
           f"already an identifier (not a key of token2id, the documented second form) becomes None / raises, and out-of-vocabulary "
           f"tokens are then written as themselves", rel, badu[0].lineno if badu else t2t.line, sample=[u(n) for n, _ in unk_defs])

    # ---- S5 tier bounds come from one object ----------------------------------------------------------------------
    rt = pkg.func(f"{MOD}::read_textgrid")
    mins = [n for n in own_nodes(rt.node) if isinstance(n, ast.Attribute) and n.attr == "xmin" and isinstance(n.ctx, ast.Load)]
    maxs = [n for n in own_nodes(rt.node) if isinstance(n, ast.Attribute) and n.attr == "xmax" and isinstance(n.ctx, ast.Load)]
    owners = {u(n.value) for n in mins + maxs}
    col.ob("G12", "S5", f"{rel}::read_textgrid::bounds-from-one-object", len(owners) == 1 and bool(mins) and bool(maxs),
           f"start/end bounds used for gap filling and returned are read from {sorted(owners)}; they must come from "
           f"the selected tier alone (file-level bounds may differ from the tier's)", rel, rt.line, sample=sorted(owners))
    rets = [n for n in own_nodes(rt.node) if isinstance(n, ast.Return) and isinstance(n.value, ast.Tuple) and len(n.value.elts) == 3]
    okr = bool(rets) and all(u(r.value.elts[1]).endswith(".xmin") and u(r.value.elts[2]).endswith(".xmax") for r in rets)
    col.ob("G2", "S5", f"{rel}::read_textgrid::returns(transcript, xmin, xmax)", okr,
           f"read_textgrid returns {[u(r.value) for r in rets]}", rel, rt.line)
    # ---- S7 records are ordered by their times as numbers, not as text ---------------------------------------------------
    _numeric_sort_keys(ctx)
    # ---- S6 a loop-carried accumulator whose length is asserted at emission is drained there -------------------------
    _drained_accumulators(ctx)
    _format_constants_and_order(ctx)
    _boundary_cases_of_the_timed_writers(ctx)
    _round_trip_tables(ctx)
    plumbing(ctx, "S1")
    return dict(
        explanation=(
            "Decides for C11: (S1) every path-accepting entry point forwards every option to the file-accepting one "
            "and opens with the right mode [precision forwarding repaired; point_tier is known finding F1a]; (S2) the "
            "parallel trn reader uses an order-preserving pool method, applies the same worker to the same (line, "
            "warn) pairs and filters None identically; (S3) the ctm field order, duration/end inversion and mapping "
            "orientation agree between writer and reader, segments are sorted before writing; (S4) seconds<->frames "
            "conversions are well-kinded in the unit algebra {s, ms, frame}; (S5) TextGrid tier bounds come from the "
            "selected tier alone. NOT decided: round-trip equality of the trn tokenizer/alternates writer, the regex-"
            "based TextGrid reader against the writer's format, print precision."),
        decided=["S1", "S2", "S3", "S4", "S5"],
        not_decided=["trn alternates round trip", "TextGrid writer format vs reader regexes", "precision round trip"],
        assumptions=["multiprocessing.Pool.imap preserves input order"],
    )


def _drained_accumulators(ctx: Ctx):
    """S6: inside a loop, `assert len(E) == k` on an accumulator attribute E of a loop-carried object, followed by the
    emission of its content, describes a protocol "fill, emit, start over". The block must therefore reset E
    (`E = []`, `E.clear()`, `del E[:]`) after the emission - or the object must be created afresh in that block -
    otherwise the second emission in the same input trips the assertion (or, under -O, repeats the first content)."""
    col, pkg = ctx.col, ctx.pkg
    n_sites = 0
    for f in ctx.owned():
        pm = parent_map(f.node)
        rel = f.module.relname
        for a in own_nodes(f.node):
            if not (isinstance(a, ast.Assert) and isinstance(a.test, ast.Compare) and isinstance(a.test.left, ast.Call)
                    and call_name(a.test.left) == "len" and a.test.left.args
                    and isinstance(a.test.left.args[0], ast.Attribute) and isinstance(a.test.ops[0], ast.Eq)
                    and isinstance(a.test.comparators[0], ast.Constant)):
                continue
            # inside a loop?
            cur, in_loop = a, False
            while cur is not None:
                cur = pm.get(cur)
                if isinstance(cur, (ast.While, ast.For)):
                    in_loop = True
                    break
            if not in_loop:
                continue
            E = a.test.left.args[0]
            root = E.value
            blk = None
            par = pm.get(a)
            for fld in ("body", "orelse"):
                b = getattr(par, fld, None)
                if isinstance(b, list) and any(x is a for x in b):
                    blk = b
            if blk is None or not isinstance(root, ast.Name):
                continue
            i = [k for k, x in enumerate(blk) if x is a][0]
            after = blk[i + 1:]
            emitted = any(u(E) in u(st) for st in after if not (isinstance(st, ast.Assign) and u(st.targets[0]) == u(E)))
            if not emitted:
                continue
            n_sites += 1
            reset = False
            for st in after:
                if isinstance(st, ast.Assign) and any(u(t) == u(E) for t in st.targets) and isinstance(st.value, (ast.List, ast.Call)) \
                        and (u(st.value) in ("[]", "list()")):
                    reset = True
                if isinstance(st, ast.Expr) and isinstance(st.value, ast.Call) and u(st.value.func) == u(E) + ".clear":
                    reset = True
                if isinstance(st, ast.Delete) and any(u(t).startswith(u(E)) for t in st.targets):
                    reset = True
            fresh = any(isinstance(st, ast.Assign) and any(u(t) == u(root) for t in st.targets) and isinstance(st.value, ast.Call)
                        and isinstance(st.value.func, ast.Name) and st.value.func.id[:1].isupper() for st in blk[:i])
            col.ob("G10", "S6", f"{rel}::{f.qualname}::emitted-accumulator-is-drained[{u(E)}]", reset or fresh,
                   f"`{u(a)}` holds at the first emission only: `{u(E)}` belongs to an object that survives the loop "
                   f"iteration and is not reset after its content is emitted, so a second group in the same input "
                   f"fails the assertion (or repeats the first group when assertions are disabled)", rel, a.lineno)
    col.floor("asserted_accumulators", n_sites, 1)


def _numeric_sort_keys(ctx: Ctx):
    """S7: `sorted(records)` / `.sort()` without a key orders tuples of regex groups - strings - lexicographically
    ('10.000' < '2.000'). When the same fields are converted with float() afterwards, the order that matters is the
    numeric one, so the sort must convert first (key=... float(...)) or sort the converted values."""
    col = ctx.col
    n_sites = 0
    from sa.inline import Inliner
    for f in ctx.owned():
        rel = f.module.relname
        inl = None
        for comp in own_nodes(f.node):
            if not isinstance(comp, (ast.ListComp, ast.GeneratorExp)):
                continue
            for g in comp.generators:
                it = g.iter
                if isinstance(it, ast.Name):
                    inl = inl or Inliner(f.node)
                    it = inl.expand(it)  # `entries = sorted(...)` shared by several comprehensions
                if not (isinstance(it, ast.Call) and call_name(it) == "sorted" and it.args and isinstance(g.target, ast.Name)):
                    continue
                tv = g.target.id
                floats = [c for c in ast.walk(comp.elt) if isinstance(c, ast.Call) and call_name(c) == "float" and c.args
                          and isinstance(c.args[0], ast.Subscript) and u(c.args[0].value) == tv]
                if not floats:
                    continue
                n_sites += 1
                nth = sum(1 for o in col.obs if o.construct.startswith(f"{rel}::{f.qualname}::records-sorted-by-numeric-time"))
                key = kwarg(it, "key")
                numeric_key = key is not None and any(isinstance(c, ast.Call) and call_name(c) == "float" for c in ast.walk(key))
                col.ob("G11", "S7", f"{rel}::{f.qualname}::records-sorted-by-numeric-time[{u(it.args[0])[:40]}#{nth}]", numeric_key,
                       f"`{u(it)[:70]}` orders the records by the text of their fields, which are converted with "
                       f"`{u(floats[0])}` only afterwards: '10.000' sorts before '2.000', so any transcript that crosses a power "
                       f"of ten (every file longer than 10 s) is read back out of order and its gaps are filled wrongly", rel,
                       it.lineno, sample=u(it)[:80])
    col.floor("text_sorted_numeric_records", n_sites, 2)


def _format_constants_and_order(ctx: Ctx):
    """S7: (a) in a ctm file a comment starts with TWO semicolons; a single `;` is an ordinary character of a token or a file name.
    The reader may only cut a line at `;;`. (b) A TextGrid tier spans [min start, max end] over ALL entries of the transcript: the
    writer accepts entries in any order (the reader sorts), so its extent must be an aggregate over the entries, never the time of
    the entry that happens to be first or last."""
    col, pkg = ctx.col, ctx.pkg
    rel = pkg.module(MOD).relname
    rc = pkg.func(f"{MOD}::read_ctm")
    cuts = []
    for c in own_calls(rc.node):
        if isinstance(c.func, ast.Attribute) and c.func.attr in ("split", "partition", "find", "index") and c.args \
                and isinstance(c.args[0], ast.Constant) and isinstance(c.args[0].value, str) and ";" in c.args[0].value:
            cuts.append(c)
    col.floor("ctm_comment_cuts", len(cuts), 1)
    bad = [c for c in cuts if c.args[0].value != ";;"]
    col.ob("G13", "S7", f"{rel}::read_ctm::comment-starts-with-two-semicolons", not bad,
           (f"`{u(bad[0])[:60]}` cuts a ctm line at `{bad[0].args[0].value}`; the format's comment marker is `;;` - a token or waveform "
            f"name containing one semicolon would be truncated (or the line rejected for having too few fields)") if bad else "", rel,
           bad[0].lineno if bad else rc.line, sample=[u(c)[:50] for c in cuts])
    wt = pkg.func(f"{MOD}::write_textgrid")
    tname = wt.params[0].name
    pos = [n for n in own_nodes(wt.node) if isinstance(n, ast.Subscript) and isinstance(n.value, ast.Name) and n.value.id == tname
           and isinstance(n.ctx, ast.Load) and (isinstance(n.slice, ast.Constant) or (isinstance(n.slice, ast.UnaryOp) and isinstance(n.slice.operand, ast.Constant)))]
    aggs = {}
    for c in own_calls(wt.node):
        # min(...) / max(...) over a comprehension of the transcript (whichever way the start / end field is picked)
        if call_name(c) in ("min", "max") and c.args and isinstance(c.args[0], (ast.GeneratorExp, ast.ListComp)) \
                and any(isinstance(x, ast.Name) and x.id == tname for x in ast.walk(c.args[0].generators[0].iter)):
            aggs[call_name(c)] = c
    col.ob("G17", "S7", f"{rel}::write_textgrid::tier-extent-is-an-aggregate-over-all-entries", not pos and {"min", "max"} <= set(aggs),
           (f"`{u(pos[0])}` reads the entry at a fixed position of the transcript: " if pos else "the tier extent is computed as "
            f"{sorted(aggs)}: ") + "the tier must span min(start) .. max(end) over all entries whatever their order, else the written xmax "
           "is too small, trailing gap filling is wrong and a too-short end_time is accepted", rel, pos[0].lineno if pos else wt.line,
           sample=sorted(map(str, aggs)))
    # (c) every number the TextGrid writer prints with a fixed number of decimals takes that number from `precision`: a literal
    # digit count in one place (entries of one tier type, a bound) makes that part of the file ignore the option - times come back
    # rounded to the literal's digits, and the tier-type inference (equal start and end AS PRINTED) disagrees with what is printed
    pname = "precision"
    if pname not in {p_.name for p_ in wt.params}:
        raise AnalysisError("C11: write_textgrid has no `precision` parameter")
    inl = Inliner(wt.node)
    fixed, follows = [], 0
    for n in own_nodes(wt.node):
        spec = None
        if isinstance(n, ast.FormattedValue) and n.format_spec is not None:
            spec = n.format_spec
            parts = [v for v in spec.values] if isinstance(spec, ast.JoinedStr) else [spec]
            lit = "".join(v.value for v in parts if isinstance(v, ast.Constant) and isinstance(v.value, str))
            refs = set()
            for v in parts:
                if isinstance(v, ast.FormattedValue):
                    refs |= names_in(inl.expand(v.value))
            is_float_spec = lit.rstrip().endswith(("f", "e", "g", "F", "E", "G")) or any(isinstance(v, ast.FormattedValue) for v in parts)
            if not is_float_spec:
                continue
            if pname in refs:
                follows += 1
            elif any(ch.isdigit() for ch in lit.split(".")[-1]) and "." in lit:
                fixed.append(n)
        elif isinstance(n, ast.Call) and isinstance(n.func, ast.Attribute) and n.func.attr == "format" and isinstance(n.func.value, ast.Constant) \
                and isinstance(n.func.value.value, str):
            import re as _re
            for m in _re.finditer(r"\{[^{}]*:([^{}]*(?:\{[^{}]*\}[^{}]*)*)\}", n.func.value.value):
                sp = m.group(1)
                if not sp.rstrip().endswith(("f", "e", "g")):
                    continue
                if "{" in sp:
                    if any(pname in names_in(inl.expand(a)) for a in list(n.args) + [k.value for k in n.keywords]):
                        follows += 1
                elif "." in sp:
                    fixed.append(n)
    col.floor("textgrid_precision_formatted_values", follows, 3)
    col.ob("G13", "S7", f"{rel}::write_textgrid::every-printed-time-uses-the-print-precision", not fixed,
           (f"`{u(fixed[0])[:60]}` prints a number with a literal digit count while the rest of the file follows `precision`: with a "
            f"different precision those values are rounded to the literal's digits (times not recovered to within the print precision) "
            f"and the file is inconsistent with its own bounds and with the point-tier inference") if fixed else "", rel,
           fixed[0].lineno if fixed else wt.line, sample=dict(follows=follows, fixed=len(fixed)))


def _boundary_cases_by_value(ctx: Ctx) -> bool:
    """S8 by value (sa/pyinterp.py): write_ctm is interpreted for one-token transcripts - the three legal boundary tokens must be written
    (one line each), the three ill-formed ones refused with ValueError; write_textgrid is interpreted without `point_tier` for a tier of
    proper intervals with one zero-length marker (an IntervalTier: every entry keeps its end), for a tier of markers only (a TextTier)
    and for intervals shorter than the print precision (a TextTier at that precision). False when outside the interpreted fragment."""
    from sa.inteval import NotEvaluable
    col, pkg = ctx.col, ctx.pkg
    rel = pkg.module(MOD).relname
    funcs, interp, written, lines_of = _io_tools(pkg)
    wc, wt = funcs.get("write_ctm"), funcs.get("write_textgrid")
    if wc is None or wt is None:
        return False
    bad = None
    try:
        for tok, legal in ((("a", 0.0, 0.0), True), (("a", 1.5, 1.5), True), (("a", 0.0, 2.0), True), (("a", -1.0, 2.0), False), (("a", 1.0, -1.0), False),
                           (("a", 3.0, 2.0), False)):
            text, err = written(wc, {wc.args.args[0].arg: [("u", [tok])]})
            ok = (err is None and len(lines_of(text)) == 1) if legal else (err is not None and "ValueError" in err)
            if not ok and bad is None:
                bad = (tok, err is not None, err or text)
        cases = (("intervals and one marker", [("a", 0.0, 1.0), ("m", 1.0, 1.0), ("b", 1.0, 2.5)], 3, "IntervalTier"),
                 ("markers only", [("m", 0.5, 0.5), ("n", 2.0, 2.0)], 3, "TextTier"),
                 ("intervals below the print precision", [("a", 0.0, 0.0004), ("b", 1.0, 1.0004)], 3, "TextTier"),
                 ("the same intervals at a finer precision", [("a", 0.0, 0.0004), ("b", 1.0, 1.0004)], 4, "IntervalTier"))
        tg_bad = None
        names = [a.arg for a in wt.args.args]
        for tag, tr, prec, want in cases:
            args = {names[0]: tr}
            pn = next((n_ for n_ in names if "prec" in n_), None)
            if pn is None:
                raise NotEvaluable("write_textgrid has no precision formal")
            args[pn] = prec
            ptn = next((n_ for n_ in names if "point" in n_), None)
            if ptn is not None:
                args[ptn] = None
            text, err = written(wt, args)
            got = None
            if err is None:
                kinds = [k for k in ("IntervalTier", "TextTier") if f'"{k}"' in text]
                got = kinds[0] if len(kinds) == 1 else str(kinds)
                if got == "IntervalTier":
                    # every entry is written with both of its times
                    body = text.split("\n")
                    ends_ok = all(f"{e_:0.{prec}f}" in body for _, _, e_ in tr)
                    if not ends_ok:
                        got = "IntervalTier without the end times"
            if got != want and tg_bad is None:
                tg_bad = (tag, tr, prec, err or got, want)
    except NotEvaluable:
        return False
    col.count("ctm_token_checks", 6)
    col.count("point_tier_inferences", len(cases))
    col.ob("G12", "S8", f"{rel}::write_ctm::non-negative-times-and-durations-are-written", bad is None,
           (f"the token {bad[0]} is {'refused' if bad[1] else 'accepted'} by write_ctm ({str(bad[2])[:60]!r}); ctm start times and durations are non-negative reals, zero "
            f"included: a zero-duration token at time 0 cannot be written (or an ill-formed one is)") if bad else "", rel, wc.lineno)
    col.ob("G13", "S8", f"{rel}::write_textgrid::point-tier-inferred-from-all-entries", tg_bad is None,
           (f"write_textgrid without point_tier on {tg_bad[0]} {tg_bad[1]} at precision {tg_bad[2]} writes {tg_bad[3]}, expected a {tg_bad[4]}: a tier is "
            f"a point tier iff ALL its entries print the same start and end - inferred from any one of them, a single zero-length entry among proper "
            f"intervals drops every interval's end time") if tg_bad else "", rel, wt.lineno)
    return True


def _boundary_cases_of_the_timed_writers(ctx: Ctx):
    """S8: (a) ctm: start times and durations are NON-NEGATIVE - a token at time 0 of duration 0 (an utterance-initial marker) is
    expressible and must be written. Every refusal in write_ctm's per-token checks is evaluated (sa/inteval.py) for the token
    ("a", 0.0, 0.0), for ("a", 1.5, 1.5) and ("a", 0.0, 2.0): none may fire; and for ("a", -1.0, 2.0), ("a", 1.0, -1.0): one must.
    (b) TextGrid: without an explicit `point_tier` a tier is a point tier iff ALL its entries print the same start and end; inferred
    from ANY such entry, one marker among proper intervals turns the whole tier into points and every interval's end is lost."""
    from sa.inteval import NotEvaluable, int_eval
    col, pkg = ctx.col, ctx.pkg
    rel = pkg.module(MOD).relname
    wc = pkg.func(f"{MOD}::write_ctm")
    if _boundary_cases_by_value(ctx):
        return
    loops = [n for n in own_nodes(wc.node) if isinstance(n, ast.For) and isinstance(n.target, ast.Name)]
    checks = []
    for lp in loops:
        tv = lp.target.id
        unpacked = {}
        for st in lp.body:
            if isinstance(st, ast.Assign) and isinstance(st.targets[0], ast.Tuple) and isinstance(st.value, ast.Name) and st.value.id == tv \
                    and len(st.targets[0].elts) == 3:
                unpacked = {e_.id: i_ for i_, e_ in enumerate(st.targets[0].elts) if isinstance(e_, ast.Name)}
        derived = {}
        for st in lp.body:
            if isinstance(st, ast.Assign) and len(st.targets) == 1 and isinstance(st.targets[0], ast.Name) and st.targets[0].id not in unpacked:
                derived[st.targets[0].id] = st.value
        for st in lp.body:
            if isinstance(st, ast.If) and any(isinstance(x, ast.Raise) for x in st.body) and (
                    tv in {x.id for x in ast.walk(st.test) if isinstance(x, ast.Name)} or set(unpacked) & {x.id for x in ast.walk(st.test) if isinstance(x, ast.Name)}
                    or set(derived) & {x.id for x in ast.walk(st.test) if isinstance(x, ast.Name)}):
                checks.append((st, tv, unpacked, derived))
    col.floor("ctm_token_checks", len(checks), 1)
    bad = None
    try:
        for tok, legal in ((("a", 0.0, 0.0), True), (("a", 1.5, 1.5), True), (("a", 0.0, 2.0), True), (("a", -1.0, 2.0), False), (("a", 1.0, -1.0), False),
                           (("a", 3.0, 2.0), False)):
            fired = False
            for st, tv, unpacked, derived in checks:
                def leaf(x, tok=tok, tv=tv, unpacked=unpacked, derived=derived):
                    if isinstance(x, ast.Call) and call_name(x) == "isinstance":
                        return False
                    if isinstance(x, ast.Call) and call_name(x) == "len" and u(x.args[0]) == tv:
                        return 3
                    if isinstance(x, ast.Subscript) and u(x.value) == tv and isinstance(x.slice, ast.Constant):
                        return tok[x.slice.value]
                    if isinstance(x, ast.Name) and x.id in unpacked:
                        return tok[unpacked[x.id]]
                    if isinstance(x, ast.Name) and x.id in derived:
                        return int_eval(derived[x.id], {"__leaf__": leaf})
                    return None
                if bool(int_eval(st.test, {"__leaf__": leaf})):
                    fired = True
            if fired == legal and bad is None:
                bad = (tok, fired)
    except NotEvaluable as e:
        col.undecided(f"{rel}::write_ctm: the per-token checks are outside the evaluated fragment ({e})")
        bad = None
    col.ob("G12", "S8", f"{rel}::write_ctm::non-negative-times-and-durations-are-written", bad is None,
           (f"the token {bad[0]} is {'refused' if bad[1] else 'accepted'} by write_ctm's checks; ctm start times and durations are non-negative reals, zero "
            f"included: a zero-duration token at time 0 cannot be written (or an ill-formed one is)") if bad else "", rel, wc.line)
    wt = pkg.func(f"{MOD}::write_textgrid")
    pm_w = parent_map(wt.node)
    infer = [n for n in own_nodes(wt.node) if isinstance(n, ast.Assign) and any(u(t_) == "point_tier" for t_ in n.targets)
             and any("point_tier" in u(t_) and "None" in u(t_) for t_, _ in guards_of(pm_w, n))]
    col.floor("point_tier_inferences", len(infer), 1)
    wrong = [n for n in infer if not (isinstance(n.value, ast.Call) and call_name(n.value) == "all") and not (
        isinstance(n.value, ast.UnaryOp) and isinstance(n.value.op, ast.Not) and isinstance(n.value.operand, ast.Call) and call_name(n.value.operand) == "any")]
    col.ob("G13", "S8", f"{rel}::write_textgrid::point-tier-inferred-from-all-entries", not wrong,
           (f"`{u(wrong[0])[:80]}` infers a point tier unless it is a universal statement over the entries: a single zero-length entry among proper "
            f"intervals makes the whole tier a TextTier and every interval's end time is dropped on writing") if wrong else "", rel,
           wrong[0].lineno if wrong else wt.line)


def _io_tools(pkg):
    """Interpretation of the readers / writers (sa/pyinterp.py): (functions of the module, a fresh interpreter, `written(fn, args)` = the
    text a writer puts into a modelled open file | an error, `lines_of(text)`)."""
    from sa.pyinterp import PyInterp, Obj
    mod = pkg.module(MOD)
    funcs = {st.name: st for st in mod.tree.body if isinstance(st, ast.FunctionDef)}
    mods = [mod]
    try:
        mods.append(pkg.module("_textgrid"))  # the vendored TextGrid reader (plain classes over `re`)
    except Exception:
        pass
    classes = {st.name: st for m_ in mods for st in m_.tree.body if isinstance(st, ast.ClassDef)}
    globs = {st.targets[0].id: st.value for m_ in reversed(mods) for st in m_.tree.body
             if isinstance(st, ast.Assign) and len(st.targets) == 1 and isinstance(st.targets[0], ast.Name)}

    def interp():
        holder = {}

        def lookup(c):
            return funcs.get(c.func.id) if isinstance(c.func, ast.Name) else None

        def leaf(e, env):
            if isinstance(e, ast.Call):
                cn = call_name(e)
                if cn == "warnings.warn":
                    return "warned"
                if cn.split(".")[-1] == "OrderedDict" and not e.args:
                    return {}
                if cn in ("np.isreal", "numpy.isreal") and len(e.args) == 1:
                    v = holder["it"].eval(e.args[0], env)
                    return ("real",) if isinstance(v, (int, float)) and not isinstance(v, bool) else ()
            return None
        it = PyInterp(leaf=leaf, lookup=lookup, classes=classes, module_globals=globs)
        holder["it"] = it
        return it

    def written(fn, args):
        buf = []
        env = dict(args)
        env[[a.arg for a in fn.args.args][1]] = Obj(write=buf.append)
        for a_, d_ in zip(reversed(fn.args.args), reversed(fn.args.defaults)):
            if a_.arg not in env:
                env[a_.arg] = d_.value if isinstance(d_, ast.Constant) else _folded_default(pkg, d_)
        kind, val = interp().run(fn, env)
        if kind != "return":
            return None, f"raises {val}"
        return "".join(buf), None

    def lines_of(text):
        out = text.split("\n")
        return [l + "\n" for l in out[:-1]] + ([out[-1]] if out[-1] else [])
    return funcs, interp, written, lines_of


def _folded_default(pkg, d):
    """A default written as `config.NAME`: the constant folded from its definition."""
    from sa.constfold import fold_constant
    from sa.inteval import NotEvaluable
    if isinstance(d, ast.Attribute) and isinstance(d.value, ast.Name) and d.value.id == "config":
        return fold_constant(pkg.module("config").tree, d.attr)
    raise NotEvaluable(f"default `{u(d)[:40]}`")


def _round_trip_tables(ctx: Ctx):
    """S12 by value: the writers and readers of the trn and ctm formats are interpreted (sa/pyinterp.py: plain strings, lists,
    dictionaries, the `_AltTree` class, generators; nothing is run) and chained - what `write_*` puts into a (modelled) open file is
    split into lines and handed to `read_*`:

      trn   tokens, timed tokens (the times are dropped), alternates nested to depth 2, an empty transcript, an utterance id with a
            space: read(write(T)) == T with the times removed and every top-level alternate as (branches, -1, -1)
      ctm   several utterances with unsorted tokens, a channel string and a waveform / channel map: read(write(T)) gives every
            utterance once, its tokens ordered by start time, start and end times as written (end = start + duration)

    A clause outside the interpreted fragment is skipped (the structural clauses above stand alone)."""
    from sa.inteval import NotEvaluable
    col, pkg = ctx.col, ctx.pkg
    rel = pkg.module(MOD).relname
    funcs, interp, written, lines_of = _io_tools(pkg)

    # ---- trn
    wt, rt = funcs.get("write_trn"), funcs.get("read_trn_iter")
    if wt is None or rt is None:
        raise AnalysisError("C11: write_trn / read_trn_iter not found")
    trs = [("u1", ["hello", "world"]), ("u 2", [("a", 0.5, 1.0), "b"]), ("u3", ["x", ([["y"], ["z", "w"]], -1, -1), "v"]),
           ("u4", [([["p", [["q"], ["r"]]], ["s"]], -1, -1)]), ("u5", []), ("u6", [("c", 1, 2), ([["d"], ["e"]], -1, -1)]),
           (" c ", ["f"]), ("spk1 ", ["g"]), ("spk1", ["h"]),  # (blanks are part of an utterance id)
           ("u7", ["km/h", ([["d"], ["e"]], -1, -1), "and/or", "/"])]  # (a slash is an ordinary character outside an alternate - also after one)
    want = [("u1", ["hello", "world"]), ("u 2", ["a", "b"]), ("u3", ["x", ([["y"], ["z", "w"]], -1, -1), "v"]),
            ("u4", [([["p", [["q"], ["r"]]], ["s"]], -1, -1)]), ("u5", []), ("u6", ["c", ([["d"], ["e"]], -1, -1)]),
            (" c ", ["f"]), ("spk1 ", ["g"]), ("spk1", ["h"]), ("u7", ["km/h", ([["d"], ["e"]], -1, -1), "and/or", "/"])]
    try:
        text, err = written(wt, {wt.args.args[0].arg: trs})
        got = None
        if err is None:
            names = [a.arg for a in rt.args.args]
            kind, got = interp().run(rt, dict(zip(names, (lines_of(text), False, 0, 1000))))
            if kind != "return":
                err, got = f"read_trn_iter raises {got}", None
        col.count("trn_round_trip_utterances", len(trs))
        col.ob("G12", "S12", f"{rel}::write_trn->read_trn_iter::round-trip-table", err is None and got == want,
               f"writing {trs} and reading the result back gives {err or got}; expected {want} (times dropped, alternates kept, ids and order "
               f"as written); the file was {text!r}", rel, wt.lineno, sample=dict(utterances=len(trs)))
    except NotEvaluable:
        pass
    # ---- ctm
    wc, rc = funcs.get("write_ctm"), funcs.get("read_ctm")
    if wc is None or rc is None:
        raise AnalysisError("C11: write_ctm / read_ctm not found")
    tc = [("uB", [("x", 1.5, 2.0), ("w", 0.0, 0.5), ("y", 2.0, 2.0)]), ("uA", [("k", 0.25, 1.0)]), ("uC", [("m", 3.0, 3.5), ("l", 0.5, 3.0)])]
    import types
    _map = {"uA": ("f2", "1"), "uB": ("f1", "2"), "uC": ("f1", "1")}
    _inv = {("f2", "1"): "uA", ("f1", "2"): "uB", ("f1", "1"): "uC"}
    # (the mapping may be any Mapping - here also a read-only view of a dictionary)
    for tag, utt2wc, wc2utt in (("channel", "A", None), ("map", _map, _inv), ("read-only map", types.MappingProxyType(_map), _inv)):
        try:
            text, err = written(wc, {wc.args.args[0].arg: tc, wc.args.args[2].arg: utt2wc})
            got = None
            if err is None:
                kind, got = interp().run(rc, {rc.args.args[0].arg: lines_of(text), rc.args.args[1].arg: wc2utt})
                if kind != "return":
                    err, got = f"read_ctm raises {got}", None
            ok = err is None and isinstance(got, list) and sorted(u_ for u_, _ in got) == sorted(u_ for u_, _ in tc) \
                and all(len(t_) == len(dict(tc)[u_]) and all(g_[0] == w_[0] and abs(g_[1] - w_[1]) < 1e-9 and abs(g_[2] - w_[2]) < 1e-9
                                                         for g_, w_ in zip(t_, sorted(dict(tc)[u_], key=lambda z: z[1]))) for u_, t_ in got)
            col.ob("G12", "S12", f"{rel}::write_ctm->read_ctm::round-trip-table[{tag}]", ok,
                   f"writing {tc} with utt2wc={utt2wc!r} and reading the result back (wc2utt={wc2utt!r}) gives {err or got}; expected every utterance "
                   f"once with its tokens ordered by start time and the times as written; the file was {text!r}", rel, wc.lineno, sample=dict(utterances=len(tc)))
        except NotEvaluable:
            pass
    # ---- TextGrid
    from sa.pyinterp import LineStream
    wt, rtg = funcs.get("write_textgrid"), funcs.get("read_textgrid")
    if wt is None or rtg is None:
        raise AnalysisError("C11: write_textgrid / read_textgrid not found")
    wn, rn = [a.arg for a in wt.args.args], [a.arg for a in rtg.args.args]
    intervals = [("b", 1.5, 2.2504), ("a", 0.25, 1.0), ("c", 2.2504, 3.0)]
    points = [("p", 0.5, 0.5), ("q", 2.0, 2.0)]
    silences = [("", 0.0, 0.3), ("a", 0.3, 0.45), ("", 0.45, 0.6), ("b", 0.6, 1.0)]  # (the empty label: how silence is usually marked)
    tg_cases = [("intervals", intervals, 3, fill_, tier_) for fill_ in (None, "sil", "") for tier_ in (0, "words")] \
        + [("intervals", intervals, 1, "sil", 0), ("points", points, 3, None, 0), ("points", points, 3, "sil", "words")] \
        + [("intervals", silences, 3, None, 0), ("points", [("", 0.5, 0.5), ("q", 2.0, 2.0)], 3, None, "words")]
    tbad, tn = None, 0
    try:
        for tag, tr, prec, fill_, tier_ in tg_cases:
            args = {wn[0]: tr}
            for n_ in wn[2:]:
                if "prec" in n_:
                    args[n_] = prec
                elif "name" in n_:
                    args[n_] = "words"
                else:
                    args[n_] = None
            text, err = written(wt, args)
            got = None
            if err is None:
                kind, got = interp().run(rtg, dict(zip(rn, (LineStream(lines_of(text)), tier_, fill_))))
                if kind != "return":
                    err, got = f"read_textgrid raises {got}", None
            tn += 1
            rnd = lambda v_: float(f"{v_:0.{prec}f}")  # noqa: E731
            base = sorted(((t_, rnd(s_), rnd(e_)) for t_, s_, e_ in tr), key=lambda z: z[1])
            want = []
            cur = base[0][1]
            for t_, s_, e_ in base:
                if fill_ is not None and cur < s_:
                    want.append((fill_, cur, s_))
                want.append((t_, s_, e_))
                cur = e_
            xmin, xmax = base[0][1], max(z[2] for z in base)
            ok = err is None and isinstance(got, tuple) and len(got) == 3 and list(got[0]) == want and got[1] == xmin and got[2] == xmax
            if not ok and tbad is None:
                tbad = (tag, tr, prec, fill_, tier_, err or got, (want, xmin, xmax), text)
    except NotEvaluable:
        tbad = "skip"
    if tbad != "skip":
        col.count("textgrid_round_trip_cases", tn)
        col.ob("G12", "S12", f"{rel}::write_textgrid->read_textgrid::round-trip-table", tbad is None,
               (f"writing the {tbad[0]} {tbad[1]} at precision {tbad[2]} and reading tier {tbad[4]!r} back with fill_token={tbad[3]!r} gives {tbad[5]}; expected "
                f"{tbad[6]} (entries ordered by start, times to the print precision, gaps between entries filled iff a fill token - the empty label included - "
                f"is given); the file was {tbad[7]!r}") if tbad else "", rel, wt.lineno, sample=dict(cases=tn))


def _mutants():
    from selftest.mutate import Mutant as M
    P = "_parsing.py"
    return [
        M("unk-lookup-without-fallback", "_parsing.py", "if token2id is not None and unk in token2id:\n        unk = token2id[unk]", "if token2id is not None:\n        unk = token2id.get(unk)", "unknown-symbol-kept-when-it-is-not-a-key"),
        M("intervals-sorted-as-text", "_parsing.py", "for x in sorted(tier.simple_transcript, key=lambda x: float(x[0]))", "for x in sorted(tier.simple_transcript)", "records-sorted-by-numeric-time", 1),
        M("repaired:textgrid-path-forwards-point-tier", "_parsing.py", "return write_textgrid(transcript, tg, start_time, end_time, tier_name, precision=precision)", "return write_textgrid(transcript, tg, start_time, end_time, tier_name, point_tier, precision)", "", twin=True),
        M("point-entries-three-decimals", "_parsing.py", "tg.write(f'{start:0.{precision}f}\\n\"{tok}\"\\n')", "tg.write(f'{start:0.3f}\\n\"{tok}\"\\n')", "every-printed-time-uses-the-print-precision"),
        M("root-alternates-not-drained", "_parsing.py", "transcript.append((alt_tree.tokens[0], -1, -1))\n                alt_tree.tokens = []", "transcript.append((alt_tree.tokens[0], -1, -1))", "emitted-accumulator-is-drained"),
        M("twin:drained-by-clear", "_parsing.py", "transcript.append((alt_tree.tokens[0], -1, -1))\n                alt_tree.tokens = []", "transcript.append((alt_tree.tokens[0], -1, -1))\n                alt_tree.tokens.clear()", "", twin=True),
        M("imap-unordered", P, "transcripts = pool.imap(_trn_line_to_transcript", "transcripts = pool.imap_unordered(_trn_line_to_transcript", "order-preserving"),
        M("parallel-ignores-warn", P, "((line, warn) for line in trn), chunk_size)", "((line, False) for line in trn), chunk_size)", "serial-and-parallel"),
        M("write-ctm-drops-utt2wc", P, "return write_ctm(transcripts, ctm, utt2wc)", "return write_ctm(transcripts, ctm)", "redispatch(utt2wc)"),
        M("read-ctm-drops-wc2utt", P, "return read_ctm(ctm, wc2utt)", "return read_ctm(ctm)", "redispatch(wc2utt)"),
        M("write-trn-mode-a", P, "with open(trn, 'w') as trn:", "with open(trn, 'a') as trn:", "open-mode"),
        M("read-textgrid-drops-fill", P, "return read_textgrid(f, tier_id, fill_token)", "return read_textgrid(f, tier_id)", "redispatch(fill_token)"),
        M("ctm-fields-swapped", P, "segments.append((wfn, chan, start, duration, token))", "segments.append((wfn, chan, duration, start, token))", "field-order"),
        M("ctm-reader-end-is-dur", P, "end = start + float(dur)", "end = float(dur)", "duration-end-inverse"),
        M("frames-to-seconds-inverted", P, "start = start * frame_shift_ms / 1000", "start = start * 1000 / frame_shift_ms", "units("),
        M("seconds-to-frames-no-1000", P, "start = 1000 * start // frame_shift_ms\n                        end = (1000", "start = start // frame_shift_ms\n                        end = (1000", "units("),
        M("rounding-term-unitless", P, "end = (1000 * end + 0.5 * frame_shift_ms) // frame_shift_ms", "end = (1000 * end + 0.5 / frame_shift_ms) // frame_shift_ms", "units("),
        M("textgrid-file-xmin", P, "start_time = tier.xmin", "start_time = tg_.xmin", "bounds-from-one-object"),
        M("read-trn-drops-processes", P, "read_trn_iter(trn, warn, processes, chunk_size)", "read_trn_iter(trn, warn)", "G5/S1"),
        M("twin:rename-line", P, "for line in trn", "for ln in trn", "", 0, twin=True),
    ]


def selftest(ctx: Ctx):
    from selftest.mutate import run_selftest
    return run_selftest("C11", ctx.pkg.repo, _mutants(), floor=10)


MANIFEST = dict(
    level_text=(
        "Static analysis (no execution) of the transcript readers/writers: forwarding on every path-or-file re-"
        "dispatch site, order preservation and branch agreement of the multi-process trn reader (schedule "
        "independence is decided from which pool method collects the results), writer/reader agreement of the ctm "
        "record layout, a unit-kind check of the seconds<->frames conversions, and single-object provenance of the "
        "TextGrid tier bounds. Necessary conditions of 'path or open file byte-identical', 'one worker or many the "
        "same list' and 'times recovered to within one frame shift'; round-trip equality of the trn/TextGrid "
        "grammars is a language-inclusion question that is not decided."
        " By value: read(write(T)) for trn (nested alternates, timed tokens, empty transcript), ctm (channel string and waveform map) and TextGrid (interval / point tiers, precisions, fill tokens including the empty label) on fixed transcripts. TextGrid round trips include entries with the empty label (interval and point tiers)."),
    level_note="Trusted: python ast; Pool.imap order preservation. Known finding F1a: write_textgrid's path entry point "
               "ignores point_tier (a stable baseline test encodes the dropped option).",
    technique="static analysis: forwarding completeness on re-dispatch sites, effect/order analysis of pool methods, unit-kind checking, writer/reader table agreement; write -> read round trips of trn, ctm and TextGrid by interpreting writers, readers and the vendored TextGrid parser over plain data (syntax tree only; re of the standard library is called)",
    design_ref="DESIGN.md section 4 C11",
)
