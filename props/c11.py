"""C11: structural clauses (see DESIGN.md section 4)."""
from __future__ import annotations

from rules import fwd as R_fwd
from .common import Ctx, plumbing


def run(ctx: Ctx):
    plumbing(ctx, 'S1')
    R_fwd.g6_redispatch(ctx.pkg, ctx.res, ctx.col, clause='S1', only={'read_trn_iter','read_trn','write_trn','read_ctm','write_ctm','read_textgrid','write_textgrid'})
    ctx.col.floor('g6_redispatch_sites', ctx.col.counts.get('g6_redispatch_sites', 0), 6)
    return dict(explanation='plumbing clauses only (work in progress)', decided=['S1'], not_decided=[])
