"""C12: structural clauses (see DESIGN.md section 4)."""
from __future__ import annotations

from rules import fwd as R_fwd
from .common import Ctx, plumbing


def run(ctx: Ctx):
    plumbing(ctx, 'S1')
    R_fwd.g7_cli(ctx.pkg, ctx.res, ctx.col, clause='S5', only={'get_torch_spect_data_dir_info'})
    ctx.col.floor('g7_commands', ctx.col.counts.get('g7_commands', 0), 1)
    return dict(explanation='plumbing clauses only (work in progress)', decided=['S1'], not_decided=[])
