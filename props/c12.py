"""C12 data-directory validation: typestate on _info_and_validate (G10), tolerance normal forms
(G12), entry points (G1/G7), sos/eos insertion and stripping (G16)."""
from __future__ import annotations

import ast
from typing import Dict, List, Optional, Set, Tuple

from rules import fwd as R_fwd
from sa.astutil import assigned_names, call_name, guards_of, kwarg, names_in, parent_map, u
from sa.defuse import ReachingDefs
from sa.model import AnalysisError, own_calls, own_nodes
from sa.norm import Normalizer, cmp_norm
from sa.paths import Decision, Event, PathEnumerator
from sa.resolve import bind_args
from .common import Ctx, plumbing

MOD = "_datasets"
KINDS = ("feat", "ali", "ref")


def _find_flag(f) -> str:
    """The repair flag: the boolean Name tested immediately before torch.save."""
    cands = {}
    for n in own_nodes(f.node):
        if isinstance(n, ast.If) and isinstance(n.test, ast.Name):
            if any(isinstance(s, ast.Expr) and isinstance(s.value, ast.Call) and call_name(s.value) == "torch.save"
                   for s in n.body):
                cands[n.test.id] = cands.get(n.test.id, 0) + 1
    if len(cands) != 1:
        raise AnalysisError(f"C12: repair flag not identified (candidates {cands})")
    return next(iter(cands))


def run(ctx: Ctx):
    col, pkg, res = ctx.col, ctx.pkg, ctx.res
    rel = pkg.module(MOD).relname
    f = pkg.func(f"{MOD}::_info_and_validate")
    where = f"{rel}::_info_and_validate"
    pm = parent_map(f.node)
    rd = ReachingDefs(f.node)
    flag = _find_flag(f)
    loops = [s for s in f.node.body if isinstance(s, ast.For)]
    if not loops:
        raise AnalysisError("C12: per-utterance loop not found")
    loop = loops[0]
    # tensors by slot of get_utterance_tuple
    kindvar: Dict[str, str] = {}
    for n in own_nodes(f.node):
        if isinstance(n, ast.Assign) and isinstance(n.targets[0], ast.Tuple) and isinstance(n.value, ast.Call) \
                and isinstance(n.value.func, ast.Attribute) and n.value.func.attr == "get_utterance_tuple":
            names = [t.id for t in n.targets[0].elts if isinstance(t, ast.Name)]
            if len(names) == 3:
                kindvar = dict(zip(KINDS, names))
    if not kindvar:
        raise AnalysisError("C12: (feat, ali, ref) = data_set.get_utterance_tuple(idx) not found")
    var2kind = {v: k for k, v in kindvar.items()}
    fixp = f.param("fix")
    if fixp is None:
        raise AnalysisError("C12: _info_and_validate has no `fix` parameter")

    # ---- S1 no repair without permission ---------------------------------------------------
    sets = [n for n in own_nodes(f.node) if isinstance(n, ast.Assign) and len(n.targets) == 1
            and isinstance(n.targets[0], ast.Name) and n.targets[0].id == flag
            and isinstance(n.value, ast.Constant) and n.value.value is True]
    col.floor("repair_flag_sets", len(sets), 6)
    for s in sets:
        gs = guards_of(pm, s)
        ok = _fix_permitted(gs)
        col.ob("G10", "S1", f"{where}::repair@[{_guard_key(gs)}]::needs-fix-permission", ok,
               f"a repair is scheduled (`{flag} = True`) on a branch not guarded by `fix is not None`: the "
               f"directory would be modified by a plain validation", rel, s.lineno,
               sample=dict(guards=[(u(t)[:60], pol) for t, pol in gs]))
        # the mutation that accompanies the flag must also be inside the permission
    # any in-place mutation / rebinding of the tensors under validate must be in a permitted branch
    # rows of the reference tensor: loop variables of `for i, r in enumerate(<ref>)`
    row_vars = set()
    for n in own_nodes(f.node):
        if isinstance(n, ast.For) and isinstance(n.iter, ast.Call) and call_name(n.iter) == "enumerate" and n.iter.args \
                and u(n.iter.args[0]) == kindvar["ref"] and isinstance(n.target, ast.Tuple):
            row_vars.add(n.target.elts[1].id)
    nmut = 0
    for n in own_nodes(f.node):
        if isinstance(n, ast.Assign) and len(n.targets) == 1:
            t = n.targets[0]
            root = t
            while isinstance(root, (ast.Subscript, ast.Attribute)):
                root = root.value
            if isinstance(root, ast.Name) and (root.id in var2kind or root.id in row_vars) and n.lineno > loop.lineno:
                gs = guards_of(pm, n)
                under_validate = any(pol and u(tt) == "validate" for tt, pol in gs)
                if not under_validate:
                    continue
                nmut += 1
                ok = _fix_permitted(gs)
                col.ob("G10", "S1", f"{where}::mutation({u(t)})::needs-fix-permission", ok,
                       f"`{u(n)}` changes a stored tensor during validation outside a `fix is not None` branch",
                       rel, n.lineno, sample=u(n))
    col.floor("validated_mutations", nmut, 6)

    # ---- S2 / S3 typestate over the per-utterance body ---------------------------------------
    def ev(n):
        if isinstance(n, ast.Assign) and len(n.targets) == 1 and isinstance(n.targets[0], ast.Name):
            t = n.targets[0].id
            if t == flag and isinstance(n.value, ast.Constant):
                return "FLAG+" if n.value.value is True else "FLAG-"
            if t == "msg":
                return "MSG"
        if isinstance(n, ast.Call) and call_name(n) == "torch.save" and n.args:
            return "SAVE:" + u(n.args[0]) + ":" + _dir_kind(n, rd)
        if isinstance(n, ast.Raise):
            return "RAISE"
        if isinstance(n, ast.Delete):
            return "DEL:" + ",".join(u(t) for t in n.targets)
        if isinstance(n, ast.If) and False:
            return None
        return None

    def _flag_label(old, new):
        # `flag = flag or converted`: a repair is scheduled when the flag becomes true; nothing happens when it stays as it was
        if new is True and old is not True:
            return "FLAG+"
        if new is False and old is True:
            return "FLAG-"
        return None

    pe = PathEnumerator(ev, loop_iters=(0, 1), exc_edges=False, flags={flag: _flag_label})
    paths = pe.paths(loop.body)
    col.floor("per_utterance_paths", len(paths), 1000)
    sigs = {}
    for p in paths:
        sigs.setdefault(tuple(p.labels()) + (p.exit,), p)
    col.count("per_utterance_event_signatures", len(sigs))
    bad_s2 = bad_s3 = None
    n_flag_paths = 0
    for sig, p in sigs.items():
        labs = list(sig[:-1])
        # section of each event: by DEL markers
        sect = "feat"
        pending_msg = False
        pending_flag = False
        for i, l in enumerate(labs):
            if l == "MSG":
                if pending_msg and bad_s2 is None:
                    bad_s2 = (p, "a detected defect is followed by another detection without raise or repair")
                pending_msg = True
            elif l == "FLAG+":
                pending_msg = False
                pending_flag = True
                n_flag_paths += 1
            elif l == "RAISE":
                pending_msg = False
                pending_flag = False
            elif l.startswith("SAVE:"):
                _, v, dk = l.split(":")
                if pending_flag:
                    if var2kind.get(v) != sect or dk != sect:
                        if bad_s3 is None:
                            bad_s3 = (p, f"repaired {sect} tensor is written back as `{v}` into the {dk} sub-directory")
                    pending_flag = False
                else:
                    if bad_s3 is None:
                        bad_s3 = (p, f"`{v}` is saved although no repair was scheduled")
            elif l == "FLAG-":
                if pending_flag and i > 0 and bad_s3 is None:
                    bad_s3 = (p, f"the repair flag is cleared in the {sect} section before the repaired tensor is saved")
                pending_flag = False
            elif l.startswith("DEL:"):
                v = l[4:]
                if pending_flag and bad_s3 is None:
                    bad_s3 = (p, f"`{v}` is deleted with a repair still pending (never written back)")
                if pending_msg and bad_s2 is None:
                    bad_s2 = (p, f"a defect message in the {sect} section is neither raised nor repaired")
                k = var2kind.get(v)
                if k == "feat":
                    sect = "ali"
                elif k == "ali":
                    sect = "ref"
        if sig[-1] != "raise":
            if pending_flag and bad_s3 is None:
                bad_s3 = (p, "the iteration ends with a repair pending (never written back)")
            if pending_msg and bad_s2 is None:
                bad_s2 = (p, "a detected defect is silently ignored (no raise, no repair)")
    # S2: every permission-gated repair branch has an `else` all of whose paths raise (a defect that may
    # not be repaired is raised, never silently accepted)
    nrep = 0
    in_token_loop = _ref_token_loop_nodes(f)  # what happens to one reference token is decided as a table (S9), whatever its branching
    for n in own_nodes(f.node):
        if isinstance(n, ast.If) and _has_conjunct(n.test, "fix is not None") and n.lineno > loop.lineno and id(n) not in in_token_loop:
            nrep += 1
            pe2 = PathEnumerator(lambda x: "RAISE" if isinstance(x, ast.Raise) else None, exc_edges=False)
            eps = pe2.paths(n.orelse) if n.orelse else []
            ok = bool(eps) and all(p.exit == "raise" for p in eps)
            col.ob("G10", "S2", f"{where}::repair-or-raise@[{_guard_key(guards_of(pm, n) + [(n.test, True)])}]", ok,
                   f"the defect handled at `if {u(n.test)[:70]}` is silently accepted when it may not be repaired "
                   f"(no `else: raise`)", rel, n.lineno, sample=u(n.test)[:100])
    col.floor("repair_or_raise_sites", nrep, 3)
    col.ob("G10", "S3", f"{where}::repairs-are-written-back", bad_s3 is None,
           (bad_s3[1] + ": " + " ".join(bad_s3[0].labels())) if bad_s3 else "", rel, f.line,
           sample=dict(paths=len(paths), signatures=len(sigs)))
    # every defect message is defined under `validate`
    # save sites: one per kind, each `torch.save(<kind var>, join(<dir of kind>, fn))`
    saves = [c for c in own_calls(f.node) if call_name(c) == "torch.save"]
    kinds_saved = set()
    for c in saves:
        v = u(c.args[0])
        dk = _dir_kind(c, rd)
        kinds_saved.add(var2kind.get(v))
        okfn = False
        if len(c.args) > 1 and isinstance(c.args[1], ast.Call) and call_name(c.args[1]) == "os.path.join" \
                and len(c.args[1].args) == 2:
            fnexpr = c.args[1].args[1]
            der = rd.derives(fnexpr)
            txt = " ".join(u(e) for e in der.exprs)
            okfn = "file_prefix" in txt and "file_suffix" in txt and "utt_ids" in txt
        col.ob("G10", "S3", f"{where}::save({v})->dir({dk})", var2kind.get(v) == dk and okfn,
               f"`{u(c)}` writes the {var2kind.get(v)} tensor into the {dk} sub-directory / not under "
               f"prefix+utt_id+suffix", rel, c.lineno, sample=u(c))
    col.ob("G10", "S3", f"{where}::every-kind-has-write-back", kinds_saved == set(KINDS),
           f"write-back exists for {sorted(k for k in kinds_saved if k)} only", rel, f.line)

    # ---- S4 tolerance normal forms -----------------------------------------------------------
    _s4(ctx, f, pm, rd, kindvar, where, rel)

    # ---- S5 entry points ------------------------------------------------------------------------
    v = pkg.func(f"{MOD}::validate_spect_data_set")
    calls = [c for c in own_calls(v.node) if call_name(c) == "_info_and_validate"]
    col.floor("validate_entry_calls", len(calls), 1)
    for c in calls:
        b = bind_args(c, f, False)
        got = {p.name: u(a) for p, a, _ in b.pairs}
        ok = got == {"data_set": "data_set", "info": "False", "validate": "True", "fix": "fix"}
        col.ob("G1", "S5", f"{rel}::validate_spect_data_set::_info_and_validate-binding", ok,
               f"validate_spect_data_set calls _info_and_validate with {got}", rel, c.lineno, sample=got)
    cli = pkg.func("command_line::get_torch_spect_data_dir_info")
    calls = [c for c in own_calls(cli.node) if call_name(c) == "_info_and_validate"]
    col.floor("cli_entry_calls", len(calls), 1)
    for c in calls:
        b = bind_args(c, f, False)
        got = {p.name: a for p, a, _ in b.pairs}
        va = got.get("validate")
        ov = None
        for n in own_nodes(cli.node):
            if isinstance(n, ast.Assign) and isinstance(n.value, ast.Call) and isinstance(n.value.func, ast.Attribute) \
                    and n.value.func.attr == "parse_args" and isinstance(n.targets[0], ast.Name):
                ov = n.targets[0].id
        from sa.inline import Inliner as _InlC
        inl_c = _InlC(cli.node, keep={ov} if ov else ())
        va = inl_c.expand(va) if va is not None else None  # `do_validate = options.strict or ...`
        # validate == (--strict or --fix given), as a truth table over (strict, fix): an `or`, an if/else into a flag, ...
        from sa.inteval import NotEvaluable as _NE, guarded_value as _gv
        rd_cli, pm_cli = ReachingDefs(cli.node), parent_map(cli.node)
        table_ok = va is not None
        try:
            for strict_ in (True, False):
                for fix_ in (None, 0, 2):
                    if va is not None and bool(_gv(got.get("validate"), {f"{ov}.strict": strict_, f"{ov}.fix": fix_}, rd_cli, pm_cli)) \
                            != (strict_ or fix_ is not None):
                        table_ok = False
        except _NE:
            table_ok = False
        ok = table_ok and u(got.get("info")) == "True" and u(inl_c.expand(got.get("fix"))) == f"{ov}.fix"
        col.ob("G1", "S5", "command_line.py::get_torch_spect_data_dir_info::_info_and_validate-binding", ok,
               f"the command validates iff `{u(va)}`; expected --strict or --fix given "
               f"(options.strict or options.fix is not None), fix=options.fix", "command_line.py", c.lineno,
               sample={k: u(a) for k, a in got.items()})
    R_fwd.g7_cli(pkg, res, col, clause="S5", only={"get_torch_spect_data_dir_info"})
    col.floor("g7_commands", col.counts.get("g7_commands", 0), 1)

    # ---- S6 sos / eos insertion and stripping -------------------------------------------------
    _s6(ctx, rel)
    # ---- S8 statistics: an 'unknown' marker in a per-class table is absorbing ---------------------------------------
    _sticky_sentinels(ctx)
    _report_counts_what_validation_accepts(ctx)
    _write_back_source(ctx)
    _ref_boundary_decision_table(ctx)
    _deprecated_boolean_fix(ctx)
    _dimensionality_flag_and_discovery(ctx)
    _bare_fix_flag_is_the_documented_tolerance(ctx)
    plumbing(ctx, "S7")
    return dict(
        explanation=(
            "Decides for C12: (S1) every scheduled repair and every mutation of a stored tensor during validation "
            "lies under `fix is not None`; (S2) on every path of the per-utterance body (loops unrolled 0/1) a "
            "detected defect is raised or repaired before the next detection / end of its section; (S3) every "
            "scheduled repair reaches torch.save of the same kind's tensor into the same kind's sub-directory under "
            "prefix+utt+suffix before the flag is cleared, the tensor deleted or the iteration ends; (S4) the crop "
            "tolerances normalise to 0 < len(ali)-T <= fix and r_end-T <= fix & r_start <= T; (S5) entry points bind "
            "(info, validate, fix) correctly, the CLI validates iff --strict or --fix was given; (S6) sos/eos rows "
            "are built without indexing dimension 0 of a possibly empty transcript, sos in front / eos behind, "
            "write_hyp strips after the last sos and before the first eos; (S7) prefix/suffix kinds. NOT decided: "
            "the iff of acceptance over all directories, idempotence of fix, the statistics recount."),
        decided=["S1", "S2", "S3", "S4", "S5", "S6", "S7"],
        not_decided=["acceptance iff documented conditions", "fix idempotence over all defect combinations",
                     "statistics recount"],
        assumptions=["torch.save/torch.load semantics", "loops unrolled 0/1 iterations represent all iterations "
                     "for the flag protocol (the flag is only set, never cleared, inside the token loop)"],
    )


def _has_conjunct(t: ast.expr, text: str) -> bool:
    if u(t) == text:
        return True
    if isinstance(t, ast.BoolOp) and isinstance(t.op, ast.And):
        return any(_has_conjunct(v, text) for v in t.values)
    return False


def _has_disjunct(t: ast.expr, text: str) -> bool:
    if u(t) == text:
        return True
    if isinstance(t, ast.BoolOp) and isinstance(t.op, ast.Or):
        return any(_has_disjunct(v, text) for v in t.values)
    return False


def _fix_permitted(gs) -> bool:
    """Is the guarded node only reached when a fix tolerance was given? `fix is not None` (as a conjunct) on the true arm, or
    `fix is None` (as a disjunct) on the false arm."""
    return any((pol and _has_conjunct(t, "fix is not None")) or (not pol and _has_disjunct(t, "fix is None")) for t, pol in gs)


def _guard_key(gs) -> str:
    out = []
    for t, pol in gs[-2:]:
        s = u(t)
        out.append(("" if pol else "!") + (s if len(s) < 50 else s[:47] + "..."))
    return " > ".join(out)


def _dir_kind(save_call: ast.Call, rd: ReachingDefs) -> str:
    if len(save_call.args) < 2:
        return "?"
    der = rd.derives(save_call.args[1])
    kinds = set()
    for n in der.nodes():
        if isinstance(n, ast.Attribute) and n.attr.endswith("_subdir"):
            kinds.add(n.attr[: -len("_subdir")])
    return kinds.pop() if len(kinds) == 1 else "?" + ",".join(sorted(kinds))


def _s4(ctx, f, pm, rd, kindvar, where, rel):
    col = ctx.col
    ali, ref, feat = kindvar["ali"], kindvar["ref"], kindvar["feat"]
    # T := the frame count, first element unpacked from <feat>.shape
    T = None
    for n in own_nodes(f.node):
        if isinstance(n, ast.Assign) and isinstance(n.targets[0], ast.Tuple) and u(n.value) == f"{feat}.shape" \
                and len(n.targets[0].elts) == 2:
            T = u(n.targets[0].elts[0])
    if T is None:
        raise AnalysisError("C12: the frame count (T, F = feat.shape) was not found")

    def ren(s: str) -> str:
        for a in (f"{ali}.shape[0]", f"{ali}.size(0)", f"len({ali})"):
            s = s.replace(a, "LEN_ALI")
        return s

    crops = []
    for n in own_nodes(f.node):
        # ali = ali[:T]
        if isinstance(n, ast.Assign) and len(n.targets) == 1 and u(n.targets[0]) == ali \
                and isinstance(n.value, ast.Subscript) and u(n.value.value) == ali and isinstance(n.value.slice, ast.Slice):
            crops.append(("ali", n))
        # r[2] = T
        if isinstance(n, ast.Assign) and len(n.targets) == 1 and isinstance(n.targets[0], ast.Subscript) \
                and u(n.targets[0].slice) == "2" and u(n.value) == T:
            crops.append(("ref", n))
    col.floor("crop_sites", len(crops), 1)  # (the alignment crop; the per-token end repair is a row of the S9 table)
    in_token_loop = _ref_token_loop_nodes(f)
    for kind, n in crops:
        if kind == "ref" and id(n) in in_token_loop:
            continue  # the tolerance of the per-token repair is a row of the S9 decision table
        gs = guards_of(pm, n)
        # the innermost guard that consults the tolerance, as a conjunction of comparisons: the true arm of `a and b`, or the
        # complement of a guard clause `if a' or not (b): raise` (De Morgan)
        t, pol = next(((t_, p_) for t_, p_ in reversed(gs) if any(isinstance(x, ast.Name) and x.id == "fix" for x in ast.walk(t_))), gs[-1])
        INV = {ast.Lt: ast.GtE, ast.LtE: ast.Gt, ast.Gt: ast.LtE, ast.GtE: ast.Lt, ast.Eq: ast.NotEq, ast.NotEq: ast.Eq,
               ast.Is: ast.IsNot, ast.IsNot: ast.Is}

        def _conj(e, p):
            if isinstance(e, ast.UnaryOp) and isinstance(e.op, ast.Not):
                return _conj(e.operand, not p)
            if isinstance(e, ast.BoolOp) and isinstance(e.op, ast.And if p else ast.Or):
                out_ = []
                for v_ in e.values:
                    c_ = _conj(v_, p)
                    if c_ is None:
                        return None
                    out_ += c_
                return out_
            if isinstance(e, ast.Compare):
                if p:
                    return [e]
                if len(e.ops) == 1 and type(e.ops[0]) in INV:
                    return [ast.copy_location(ast.Compare(left=e.left, ops=[INV[type(e.ops[0])]()], comparators=e.comparators), e)]
            return None
        conj = _conj(t, pol)
        pol = conj is not None
        conj = conj or []
        got = set()
        subst = {}
        for d in rd.defs:
            if d.kind == "assign" and d.value is not None and u(d.value) in (f"{ali}.size(0)", f"{ali}.shape[0]", f"len({ali})"):
                subst[d.name] = d.value
        nz = Normalizer(rename=ren, subst=subst)
        for cj in conj:
            if isinstance(cj, ast.Compare) and u(cj) not in ("fix is not None", "None is not fix"):
                left = cj.left
                for op, right in zip(cj.ops, cj.comparators):
                    got.add(cmp_norm(left, op, right, nz))
                    left = right
        if kind == "ali":
            exp_src = [f"LEN_ALI - {T} <= fix", f"LEN_ALI - {T} > 0"]
            if n.value.slice.upper is None or u(n.value.slice.upper) != T or n.value.slice.lower is not None:
                col.ob("G12", "S4", f"{where}::ali-crop-to-T", False,
                       f"the alignment is cropped with `{u(n.value)}`, expected the first T frames", rel, n.lineno)
        else:
            rv = u(n.targets[0].value)
            exp_src = [f"{rv}[2] - {T} <= fix", f"{rv}[1] <= {T}"]
        want = set()
        for s_ in exp_src:
            c = ast.parse(s_, mode="eval").body
            want.add(cmp_norm(c.left, c.ops[0], c.comparators[0], Normalizer()))
        col.ob("G12", "S4", f"{where}::{kind}-crop-tolerance", got == want and pol,
               f"the {kind} crop is permitted under {sorted(got)}; documented tolerance is {sorted(want)} "
               f"('by at most fix')", rel, n.lineno, sample=dict(got=sorted(got), want=sorted(want)))


def _sos_eos_tables(ctx, rel) -> bool:
    """S6 as value tables: `_load_ref` and `_write_hyp` interpreted over exact values (sa/interp.py + sa/teval.py; nothing is run;
    torch.load gives the stored tensor, torch.save records what is written) for 1- and 2-dimensional, empty and non-empty transcripts,
    start / end symbols given or not (0 included), tokens_only on / off. Documented: reading drops the segment columns under
    tokens_only, then puts the start symbol in front and the end symbol behind (a row [sym, -1, -1] for 2-dimensional transcripts);
    writing cuts everything up to the LAST start symbol and from the FIRST end symbol on - so what was read is written back bare."""
    import numpy as np
    from sa.interp import Interp
    from sa.inteval import NotEvaluable
    from sa.teval import frac_array
    col, pkg = ctx.col, ctx.pkg
    mod_tree = pkg.module(MOD).tree
    funcs = {st.name: st for st in mod_tree.body if isinstance(st, ast.FunctionDef)}

    def lookup(c):
        return funcs.get(c.func.id) if isinstance(c.func, ast.Name) and c.func.id.startswith("_") and c.func.id not in ("_load_ref", "_write_hyp") else None
    lf, wf = pkg.func(f"{MOD}::_load_ref"), pkg.func(f"{MOD}::_write_hyp")

    def arr(rows, width=None):
        if not rows:
            return np.empty((0,) if width is None else (0, width), dtype=object)
        return frac_array(rows)
    bad_l = bad_w = None
    n_l = n_w = 0
    try:
        for stored in ([5, 6, 7], [], [[5, 0, 1], [6, 1, 3]], "empty2d"):
            for tokens_only in (True, False):
                for sos in (None, 0, 3):
                    for eos in (None, 1):
                        two_d = stored == "empty2d" or (stored and isinstance(stored[0], list))
                        t = arr([] if stored == "empty2d" else stored, 3 if two_d else None)

                        def leaf(x, env, t=t):
                            if isinstance(x, ast.Call) and call_name(x) == "torch.load":
                                return t
                            return None
                        names = [a.arg for a in lf.node.args.args]
                        kind, got = Interp(leaf=leaf, lookup=lookup, tensors=True).run(lf.node, dict(zip(names, ("<path>", tokens_only, sos, eos))))
                        n_l += 1
                        rows = [] if stored == "empty2d" else list(stored)
                        if two_d and tokens_only:
                            rows = [r_[0] for r_ in rows]
                        flat = not two_d or tokens_only
                        if sos is not None:
                            rows = [sos if flat else [sos, -1, -1]] + rows
                        if eos is not None:
                            rows = rows + [eos if flat else [eos, -1, -1]]
                        g = np.asarray(got, dtype=object).tolist() if kind == "return" and hasattr(got, "shape") else None
                        try:
                            ok = g is not None and [[int(z) for z in r_] if isinstance(r_, list) else int(r_) for r_ in g] == rows and (
                                flat == (np.asarray(got).ndim == 1))
                        except (TypeError, ValueError):
                            ok = False
                        if not ok and bad_l is None:
                            bad_l = (stored, tokens_only, sos, eos, g if g is not None else f"{kind} {got}", rows)
        S, E = "s", "e"
        for shape in ([S, 5, 6, E], [5, S, 6, E, 7, E], [5, 6], [E], [], [S, S, 5]):
            for two_d in (False, True):
                for sos in (None, 0, 3):
                    for eos in (None, 1):
                        sv, evl = (sos if sos is not None else 40), (eos if eos is not None else 41)
                        toks = [sv if x == S else (evl if x == E else x) for x in shape]
                        # (2-D: the segment boundaries are frame numbers - here they coincide with the sos / eos ids 3 and 1, which must not matter)
                        h = arr([[t_, 3, 1] for t_ in toks], 3) if two_d else arr(toks)
                        saved = []

                        def leaf(x, env):
                            if isinstance(x, ast.Call) and call_name(x) == "torch.save":
                                saved.append(holder["it"].eval(x.args[0], env))
                                return True
                            return None
                        holder = {}
                        it = Interp(leaf=leaf, lookup=lookup, tensors=True, effects=("torch.save",))
                        holder["it"] = it
                        names = [a.arg for a in wf.node.args.args]
                        kind, got = it.run(wf.node, dict(zip(names, (h, "<path>", sos, eos))))
                        n_w += 1
                        want = list(toks)
                        if sos is not None and sos in want:
                            want = want[len(want) - want[::-1].index(sos):]
                        if eos is not None and eos in want:
                            want = want[:want.index(eos)]
                        g = None
                        if kind == "return" and len(saved) == 1 and hasattr(saved[0], "shape"):
                            a_ = np.asarray(saved[0], dtype=object)
                            try:
                                g = [int(z) for z in (a_[:, 0] if a_.ndim == 2 else a_).tolist()]
                            except (TypeError, ValueError):
                                g = None
                        if g != want and bad_w is None:
                            bad_w = (toks, two_d, sos, eos, g if g is not None else f"{kind} {got} ({len(saved)} saves)", want)
    except NotEvaluable:
        return False
    col.floor("load_ref_table_rows", n_l, 40)
    col.floor("write_hyp_table_rows", n_w, 60)
    col.ob("G16", "S6", f"{rel}::_load_ref::read-table", bad_l is None,
           (f"reading the stored transcript {bad_l[0]} with tokens_only={bad_l[1]}, sos={bad_l[2]}, eos={bad_l[3]} gives {str(bad_l[4])[:80]}; documented: "
            f"{bad_l[5]} (segment columns dropped under tokens_only, start symbol in front, end symbol behind, also for an empty transcript)") if bad_l else "",
           rel, lf.line, sample=dict(rows=n_l))
    col.ob("G16", "S6", f"{rel}::_write_hyp::write-table", bad_w is None,
           (f"writing the hypothesis with tokens {bad_w[0]} ({'2' if bad_w[1] else '1'}-dimensional) under sos={bad_w[2]}, eos={bad_w[3]} stores "
            f"{str(bad_w[4])[:80]}; documented: {bad_w[5]} (everything up to the last start symbol and from the first end symbol on is cut)") if bad_w else "",
           rel, wf.line, sample=dict(rows=n_w))
    return True


def _s6(ctx, rel):
    col, pkg = ctx.col, ctx.pkg
    decided = _sos_eos_tables(ctx, rel)
    _SKIP6 = ("::shape-donor", "::all-four-variants", "::strip-sos", "::strip-eos", "::strips-both")
    _orig_ob, _orig_floor = col.ob, col.floor

    def _ob(rule, clause, key, ok, *a, **k):
        if decided and key.endswith(_SKIP6):
            return None
        return _orig_ob(rule, clause, key, ok, *a, **k)

    def _floor(name, got, want):
        if decided and name == "load_ref_cat_sites":
            return None
        return _orig_floor(name, got, want)
    col.ob, col.floor = _ob, _floor
    try:
        return _s6_rest(ctx, rel)
    finally:
        col.ob, col.floor = _orig_ob, _orig_floor


def _s6_rest(ctx, rel):
    col, pkg = ctx.col, ctx.pkg
    f = pkg.func(f"{MOD}::_load_ref")
    where = f"{rel}::_load_ref"
    pm = parent_map(f.node)
    rd = ReachingDefs(f.node)
    cats = [c for c in own_calls(f.node) if call_name(c) == "torch.cat" and c.args and isinstance(c.args[0], (ast.List, ast.Tuple))]
    col.floor("load_ref_cat_sites", len(cats), 2)  # one per symbol at least; the four (symbol, dimensionality) variants are an obligation below
    # the dimensionality variable: bound from <tensor>.ndim / .dim() (possibly in a parallel assignment)
    ndim_names = set()
    for d in rd.defs:
        v = d.value
        if v is None:
            continue
        cands = [v]
        if isinstance(v, ast.Tuple):
            cands = list(v.elts)
        if any((isinstance(x, ast.Attribute) and x.attr == "ndim") or (isinstance(x, ast.Call) and isinstance(x.func, ast.Attribute)
                                                                     and x.func.attr == "dim") for x in cands):
            ndim_names.add(d.name)
    seen = set()
    # Which concatenations run is a function of (sos given?, eos given?, dimensionality): every guard of every cat site is
    # evaluated on the 8 combinations (however the tests are nested, merged with `and`, or turned into early returns).
    from sa.inteval import NotEvaluable as _NE6, int_eval as _ie6
    tnames = {d.name for d in rd.defs if d.value is not None and any(isinstance(x, ast.Call) and call_name(x) == "torch.load" for x in ast.walk(d.value))}
    combos = [(so, eo, dd) for so in (None, 5) for eo in (None, 6) for dd in (1, 2)]

    def _reached(c, so, eo, dd):
        env = {"sos": so, "eos": eo}
        for nm in ndim_names:
            env[nm] = dd
        for t, pol in guards_of(pm, c):
            if bool(_ie6(t, env)) != pol:
                return False
        return True
    cat_info = {}
    try:
        reach = {id(c): [cb for cb in combos if _reached(c, *cb)] for c in cats}
    except _NE6 as ex_:
        col.undecided(f"{where}: a guard of a concatenation is outside the evaluated fragment ({ex_})")
        return
    for c in cats:
        gs = guards_of(pm, c)
        elts = c.args[0].elts
        if len(elts) != 2:
            continue
        # which element is the transcript (the loaded tensor being extended)?
        st = pm.get(c)
        tgt = u(st.targets[0]) if isinstance(st, ast.Assign) else None
        if tgt is None:
            cands_ = [u(e) for e in elts if u(e) in tnames]
            tgt = cands_[0] if len(cands_) == 1 else None
        pos = [i for i, e in enumerate(elts) if u(e) == tgt]
        other_ = elts[1 - pos[0]] if len(pos) == 1 else None
        der_ = rd.derives(other_) if other_ is not None else None
        syms_ = {nm for nm in ("sos", "eos") if der_ is not None and any(isinstance(n, ast.Name) and n.id == nm for n in list(der_.nodes()) + list(ast.walk(other_)))}
        sym = syms_.pop() if len(syms_) == 1 else None
        if sym is None:
            # by the guards: the symbol that is given in every combination reaching the site
            g_ = [nm for nm, k in (("sos", 0), ("eos", 1)) if reach[id(c)] and all(cb[k] is not None for cb in reach[id(c)])]
            sym = g_[0] if len(g_) == 1 else None
        if sym is None:
            continue
        cat_info[id(c)] = sym
        if len(pos) != 1:
            col.ob("G16", "S6", f"{where}::{sym}-cat-shape", False, f"`{u(c)}` does not concatenate a symbol row "
                   f"with the transcript", rel, c.lineno)
            continue
        other = elts[1 - pos[0]]
        # the symbol row may be built per dimensionality at the cat site (two cats) or before it (one cat, the row defined on both
        # arms of the dimensionality test): one variant per reaching definition, judged under the guards of that definition
        variants = [(other, gs)]
        if isinstance(other, ast.Name):
            ds_ = [d for d in rd.defs_of(other) if d.kind == "assign" and getattr(d, "stmt", None) is not None and d.value is not None]
            if len(ds_) > 1:
                variants = [(d.value, list(gs) + list(guards_of(pm, d.stmt))) for d in ds_]
        gs_cat = gs
        for other, gs in variants:
            def _holds(cb):
                env = {"sos": cb[0], "eos": cb[1]}
                for nm in ndim_names:
                    env[nm] = cb[2]
                try:
                    return all(bool(_ie6(t, env)) == pol for t, pol in gs)
                except _NE6:
                    return False
            dd_ = {cb[2] for cb in combos if _holds(cb)}
            for d_ in sorted(dd_):
                seen.add(f"{sym}-{d_}d")
            key = f"{sym}-{'2d' if dd_ == {2} else '1d' if dd_ == {1} else 'anyd'}"
            want_pos = 1 if sym == "sos" else 0  # transcript position in the list
            col.ob("G16", "S6", f"{where}::{key}::order", pos[0] == want_pos,
                   f"the {sym} symbol is concatenated on the wrong side of the transcript: `{u(c)}`", rel, c.lineno,
                   sample=u(c))
            # the symbol row derives from the right symbol
            der = rd.derives(other)
            uses_sym = any(isinstance(n, ast.Name) and n.id == sym for n in der.nodes())
            col.ob("G16", "S6", f"{where}::{key}::symbol", uses_sym,
                   f"the row inserted for {sym} does not carry `{sym}`", rel, c.lineno, sample=u(other))
            # shape donor: must not index/slice dimension 0 of the transcript
            donors = []
            for n in der.nodes():
                if isinstance(n, ast.Subscript) and isinstance(n.value, ast.Name) and n.value.id == tgt:
                    sl = n.slice
                    first = sl.elts[0] if isinstance(sl, ast.Tuple) else sl
                    if isinstance(first, ast.Constant) and first.value is Ellipsis:
                        continue
                    donors.append(n)
            guarded = any(("numel" in u(t) or "len(" in u(t) or "size(0)" in u(t) or "shape[0]" in u(t)) for t, pol in gs)
            col.ob("G16", "S6", f"{where}::{key}::shape-donor", not donors or guarded,
                   f"the {sym} row takes its shape from `{u(donors[0]) if donors else ''}`, i.e. from dimension 0 of "
                   f"the transcript: an empty transcript yields an empty row (or IndexError) and gets no {sym}",
                   rel, c.lineno, sample=[u(d) for d in donors])
    # in every combination exactly the given symbols are inserted, sos before eos
    bad_cb = None
    for cb in combos:
        ran = [cat_info[id(c)] for c in sorted(cats, key=lambda c: c.lineno) if id(c) in cat_info and cb in reach[id(c)]]
        exp_ = (["sos"] if cb[0] is not None else []) + (["eos"] if cb[1] is not None else [])
        if ran != exp_ and bad_cb is None:
            bad_cb = dict(sos=cb[0] is not None, eos=cb[1] is not None, ndim=cb[2], inserts=ran, expected=exp_)
    col.ob("G16", "S6", f"{where}::all-four-variants", bad_cb is None and {"sos-1d", "sos-2d", "eos-1d", "eos-2d"} <= seen,
           f"sos/eos insertion variants found: {sorted(seen)}; {bad_cb}", rel, f.line)
    # _write_hyp
    w = pkg.func(f"{MOD}::_write_hyp")
    where = f"{rel}::_write_hyp"
    rdw = ReachingDefs(w.node)
    pmw = parent_map(w.node)
    found = {}
    for n in own_nodes(w.node):
        if isinstance(n, ast.Assign) and len(n.targets) == 1 and u(n.targets[0]) == "hyp" \
                and isinstance(n.value, ast.Subscript) and isinstance(n.value.slice, ast.Slice):
            gs = guards_of(pmw, n)
            sym = next((u(t)[:3] for t, pol in gs if u(t) in ("sos is not None", "eos is not None") and pol), None)
            if sym is None:
                continue
            sl = n.value.slice
            bound = sl.lower if sym == "sos" else sl.upper
            other = sl.upper if sym == "sos" else sl.lower
            # decided on the expansion of the slice bound (the index vector / the picked index may or may not carry names):
            #   sos: <nonzero(.. == sos ..)>[-1].item() + 1        eos: <nonzero(.. == eos ..)>[0].item()
            from sa.inline import Inliner
            inl_w = Inliner(w.node, rdw)
            bx = inl_w.expand(bound) if bound is not None else None
            pick = None
            uses = False
            if bx is not None:
                for x in ast.walk(bx):
                    if isinstance(x, ast.Subscript) and isinstance(x.slice, (ast.Constant, ast.UnaryOp)) and (
                            (isinstance(x.value, ast.Call) and call_name(x.value) == "torch.nonzero") or
                            (isinstance(x.value, ast.Name) and any(isinstance(d2.value, ast.Call) and call_name(d2.value) == "torch.nonzero"
                                                                   for d2 in inl_w.defs_of(x.value)))):
                        pick = u(x.slice)
                    if isinstance(x, ast.Name) and x.id == sym:
                        uses = True
                if not uses:
                    uses = any(isinstance(x, ast.Name) and x.id == sym for x in rdw.derives(bound, max_depth=4).nodes())

            def _is_pick(e):
                while isinstance(e, ast.Call) and ((isinstance(e.func, ast.Attribute) and e.func.attr == "item" and not e.args)
                                                   or (call_name(e) == "int" and len(e.args) == 1)):
                    e = e.func.value if isinstance(e.func, ast.Attribute) else e.args[0]
                return isinstance(e, ast.Subscript)
            if sym == "sos":
                shape_ok = bx is not None and other is None and isinstance(bx, ast.BinOp) and isinstance(bx.op, ast.Add) and (
                    (u(bx.right) == "1" and _is_pick(bx.left)) or (u(bx.left) == "1" and _is_pick(bx.right)))
                ok = shape_ok and pick == "-1" and uses
                msg = "hypotheses are not cut after the LAST start symbol (hyp[last_sos + 1:])"
            else:
                shape_ok = bx is not None and other is None and _is_pick(bx)
                ok = shape_ok and pick == "0" and uses
                msg = "hypotheses are not cut before the FIRST end symbol (hyp[:first_eos])"
            found[sym] = ok
            col.ob("G16", "S6", f"{where}::strip-{sym}", ok, f"{msg}: `{u(n)}` (index pick {pick})", rel, n.lineno,
                   sample=u(n))
    col.ob("G16", "S6", f"{where}::strips-both", set(found) == {"sos", "eos"},
           f"_write_hyp strips {sorted(found)}", rel, w.line)
    # per data-set class: the symbols inserted on reading (get_utterance_tuple -> _load_ref) and the symbols
    # stripped on writing (write_hyp -> _write_hyp) are the same expressions, in (sos, eos) order
    lr = pkg.func(f"{MOD}::_load_ref")
    for cname in ("SpectDataSet", "LangDataSet"):
        ci = pkg.cls(f"{MOD}::{cname}")
        ins = strp = None
        for fl in ci.methods.values():
            for m in fl:
                for c in own_calls(m.node):
                    if call_name(c) == "_load_ref":
                        b = bind_args(c, lr, False)
                        g = {p.name: u(a) for p, a, _ in b.pairs}
                        ins = (g.get("sos"), g.get("eos"), c.lineno)
                    if call_name(c) == "_write_hyp":
                        b = bind_args(c, w, False)
                        g = {p.name: u(a) for p, a, _ in b.pairs}
                        strp = (g.get("sos"), g.get("eos"), c.lineno)
        if ins is None or strp is None:
            raise AnalysisError(f"C12: {cname} does not call both _load_ref and _write_hyp")
        ok = ins[:2] == strp[:2] and (ins[0] or "").endswith("sos") and (ins[1] or "").endswith("eos")
        col.ob("G1", "S6", f"{rel}::{cname}::inserted-symbols==stripped-symbols", ok,
               f"{cname} inserts (sos, eos) = {ins[:2]} when reading a reference but strips {strp[:2]} when writing a "
               f"hypothesis: with symbols configured through the other source the written file keeps them", rel,
               strp[2], sample=dict(inserted=ins[:2], stripped=strp[:2]))


def _bare_fix_flag_is_the_documented_tolerance(ctx: Ctx):
    """S12: `--fix` without a number stands for the documented default tolerance. The option's `const` (what argparse stores for the bare
    flag) equals the number its help text promises ('defaults to N') and the tolerance the deprecated `fix=True` is normalised to in
    validate_spect_data_set - with another constant the documented one-frame overshoots are refused (0) or larger defects silently cropped."""
    import re
    col, pkg = ctx.col, ctx.pkg
    f = pkg.func("command_line::get_torch_spect_data_dir_info")
    rel = f.module.relname
    calls = [c for c in own_calls(f.node) if isinstance(c.func, ast.Attribute) and c.func.attr == "add_argument" and c.args
             and isinstance(c.args[0], ast.Constant) and c.args[0].value == "--fix"]
    if len(calls) != 1:
        col.undecided(f"{rel}::get_torch_spect_data_dir_info: the --fix option was not found")
        return
    c = calls[0]
    const, help_ = kwarg(c, "const"), kwarg(c, "help")
    promised = None
    if help_ is not None:
        txt = "".join(k.value for k in ast.walk(help_) if isinstance(k, ast.Constant) and isinstance(k.value, str))
        m = re.search(r"defaults to (\d+)", txt)
        promised = int(m.group(1)) if m else None
    v = pkg.func("_datasets::validate_spect_data_set")
    legacy = None
    for n in own_nodes(v.node):
        if isinstance(n, ast.Assign) and isinstance(n.value, ast.IfExp) and isinstance(n.value.body, ast.Constant) and isinstance(n.value.body.value, int) \
                and isinstance(n.value.orelse, ast.Constant) and n.value.orelse.value is None:
            legacy = n.value.body.value
    got = const.value if isinstance(const, ast.Constant) else None
    wants = {w_ for w_ in (promised, legacy) if w_ is not None}
    if not wants:
        col.undecided(f"{rel}::get_torch_spect_data_dir_info: no documented default of --fix found to compare with")
        return
    col.ob("G8", "S12", f"{rel}::get_torch_spect_data_dir_info::bare---fix-is-the-documented-tolerance", got is not None and wants == {got},
           f"the bare flag stores {got!r}; its help text promises {promised!r} and fix=True is normalised to {legacy!r}: the documented small defects are "
           f"refused (or larger ones repaired) when the flag is given without a number", rel, c.lineno, sample=dict(const=got, help=promised, legacy=legacy))


MANIFEST = dict(
    level_text=(
        "Static typestate analysis (no execution) of the per-utterance body of _info_and_validate over all "
        "~10^4 syntactic paths (loops unrolled 0/1): repairs only with permission, detected => raised or repaired, "
        "scheduled repairs written back to the right file before the flag is cleared; tolerance guards in "
        "comparison normal form against the documented 'by at most fix'; entry-point bindings; construction of "
        "the sos/eos rows independent of the transcript's first dimension; stripping after the last sos / before "
        "the first eos (also as value tables: _load_ref and _write_hyp interpreted over sos / eos settings and 1-D / 2-D transcripts). "
        "Necessary conditions of C12; the iff of acceptance over all directories is not decided. SpectDataSet.find_utt_ids is interpreted over plain data against modelled feat / ali / ref directories for every combination of sub-directories in use, subset and warning setting: the ids found are exactly those present in every sub-directory in use. The bare --fix flag stores the tolerance promised by its help text and by the legacy fix=True."),
    level_note="Trusted: python ast; torch.save persists the tensor passed. F6 (_load_ref on empty transcripts) and "
               "F7 (--fix 0) were found by these rules and repaired by fix: commits.",
    technique="static analysis: typestate over enumerated CFG paths, guard dominance, comparison normal forms, reaching definitions, decision tables by abstract interpretation (per-token boundary block, fix normalisation, sos/eos insertion, CLI validate flag)",
    design_ref="DESIGN.md section 4 C12",
)


def _sticky_sentinels(ctx: Ctx):
    """S8: where a per-class table of the report stores a negative sentinel (`T[k] = -1`: unknown for this class), every
    accumulating write `T[k] = prev + x` with `prev = T.get(k, ...)` must be guarded by a test that `prev` is not the
    sentinel - otherwise a later known occurrence adds onto the marker and a wrong positive figure is reported."""
    col, pkg = ctx.col, ctx.pkg
    f = pkg.func("_datasets::_info_and_validate")
    rel = f.module.relname
    pm = parent_map(f.node)
    rd = ReachingDefs(f.node)
    sent = {}
    for n in own_nodes(f.node):
        if isinstance(n, ast.Assign) and len(n.targets) == 1 and isinstance(n.targets[0], ast.Subscript) \
                and isinstance(n.targets[0].value, ast.Name):
            v = n.value
            if isinstance(v, ast.UnaryOp) and isinstance(v.op, ast.USub) and isinstance(v.operand, ast.Constant):
                sent.setdefault(n.targets[0].value.id, []).append(n)
    nacc = 0
    for tname, marks in sent.items():
        for n in own_nodes(f.node):
            if not (isinstance(n, ast.Assign) and len(n.targets) == 1 and isinstance(n.targets[0], ast.Subscript)
                    and isinstance(n.targets[0].value, ast.Name) and n.targets[0].value.id == tname):
                continue
            if not isinstance(n.value, ast.BinOp):
                continue
            # (the marker and the accumulation concern the same entry: same key expression. A default written under another,
            # constant key - `info["total"] = -1` when nothing was counted - is not a per-class marker.)
            def _is_default(m):
                # `if k not in T: T[k] = -1` is `T.setdefault(k, -1)`: it never overwrites an entry, so no accumulated figure follows it
                for t_, pol_ in guards_of(pm, m):
                    if isinstance(t_, ast.Compare) and len(t_.ops) == 1 and u(t_.comparators[0]) == tname and u(t_.left) == u(m.targets[0].slice) \
                            and ((isinstance(t_.ops[0], ast.NotIn) and pol_) or (isinstance(t_.ops[0], ast.In) and not pol_)):
                        return True
                return False
            if not any(u(m.targets[0].slice) == u(n.targets[0].slice) and not _is_default(m) for m in marks):
                continue
            prevs = []
            for x in ast.walk(n.value):
                if isinstance(x, ast.Name) and isinstance(x.ctx, ast.Load):
                    for d in rd.defs_of(x):
                        if d.kind == "assign" and isinstance(d.value, ast.Call) and isinstance(d.value.func, ast.Attribute) \
                                and d.value.func.attr == "get" and u(d.value.func.value) == tname:
                            prevs.append(x.id)
                elif isinstance(x, ast.Call) and isinstance(x.func, ast.Attribute) and x.func.attr == "get" and u(x.func.value) == tname:
                    prevs.append(u(x))
            if not prevs:
                continue
            nacc += 1
            guarded = False
            for t, pol in guards_of(pm, n):
                for c in ast.walk(t):
                    if isinstance(c, ast.Compare) and len(c.ops) == 1 and u(c.left) in prevs and pol:
                        op, k = c.ops[0], c.comparators[0]
                        kv = k.value if isinstance(k, ast.Constant) else (-k.operand.value if isinstance(k, ast.UnaryOp) and isinstance(k.operand, ast.Constant) else None)
                        if (isinstance(op, ast.GtE) and kv == 0) or (isinstance(op, ast.Gt) and kv == -1) or (isinstance(op, ast.NotEq) and kv == -1):
                            guarded = True
            if not guarded:
                # by evaluation: with the previous entry at the marker (-1) and an otherwise countable token, is the accumulation reached?
                from sa.inteval import NotEvaluable as _NEs, int_eval as _ies
                loop_ = pm.get(n)
                while loop_ is not None and not isinstance(loop_, ast.For):
                    loop_ = pm.get(loop_)
                tnames = [e_.id for e_ in loop_.target.elts] if loop_ is not None and isinstance(loop_.target, ast.Tuple) and all(
                    isinstance(e_, ast.Name) for e_ in loop_.target.elts) else []
                envs = dict(zip(tnames, (5, 2, 3)))

                def leaf_(y):
                    if isinstance(y, ast.Call) and isinstance(y.func, ast.Attribute) and y.func.attr == "get" and u(y.func.value) == tname:
                        return -1
                    if isinstance(y, ast.Name) and y.id in prevs:
                        return -1
                    if isinstance(y, ast.Name) and y.id not in envs:
                        ds_ = list(rd.defs_of(y))
                        if ds_ and all(d_.kind == "param" for d_ in ds_):
                            return 1
                    return None
                try:
                    inside_ = {id(x) for x in ast.walk(loop_)} if loop_ is not None else set()
                    reached = all(bool(_ies(t_, dict(envs, __leaf__=leaf_))) == p_ for t_, p_ in guards_of(pm, n) if id(t_) in inside_)
                    guarded = not reached
                except _NEs:
                    pass
            col.ob("G16", "S8", f"{rel}::_info_and_validate::{tname}::unknown-marker-is-absorbing", guarded,
                   f"`{u(n)}` adds onto the previous entry of `{tname}` without testing that it is not the -1 'unknown' "
                   f"marker written at line {marks[0].lineno}: a class that once lacked boundaries gets a positive, wrong "
                   f"figure instead of -1", rel, n.lineno, sample=dict(previous=prevs, markers=[m.lineno for m in marks]))
    col.floor("sentinel_tables", nacc, 1)


def _report_counts_what_validation_accepts(ctx: Ctx):
    """S9: validation rejects a bounded reference token only when `end < start` (and accepts start == end, an empty
    segment); the statistics report must therefore count a token as bounded under `end >= start >= 0`. A strict `end >
    start` in the report turns every valid empty segment into 'boundaries unknown' (-1) for its whole token type."""
    col, pkg = ctx.col, ctx.pkg
    f = pkg.func("_datasets::_info_and_validate")
    rel = f.module.relname
    pm = parent_map(f.node)
    rej = []
    from sa.defuse import ReachingDefs as _RD9
    rd9 = _RD9(f.node)

    def _col(e):
        """(row, column) of `r[k]` or of a name bound to it (`start, end = r[1], r[2]`)."""
        if isinstance(e, ast.Subscript) and isinstance(e.slice, ast.Constant):
            return u(e.value), str(e.slice.value)
        if isinstance(e, ast.Name):
            ds = list(rd9.defs_of(e))
            if len(ds) == 1 and ds[0].value is not None:
                v = ds[0].value
                if ds[0].kind == "unpack" and isinstance(v, ast.Tuple) and ds[0].slot and len(ds[0].slot) == 1 and ds[0].slot[0] < len(v.elts):
                    v = v.elts[ds[0].slot[0]]
                if isinstance(v, ast.Subscript) and isinstance(v.slice, ast.Constant):
                    return u(v.value), str(v.slice.value)
        return None
    for n in own_nodes(f.node):
        if isinstance(n, ast.If) and isinstance(n.test, ast.Compare) and len(n.test.ops) == 1 \
                and _col(n.test.left) is not None and _col(n.test.comparators[0]) is not None \
                and _col(n.test.left)[0] == _col(n.test.comparators[0])[0] \
                and all(isinstance(x, ast.Raise) for x in n.body):
            li, ri = _col(n.test.left)[1], _col(n.test.comparators[0])[1]
            op = type(n.test.ops[0])
            # normalise to (end OP start)
            if (li, ri) == ("2", "1"):
                rej.append({ast.Lt: "end<start", ast.LtE: "end<=start"}.get(op))
            elif (li, ri) == ("1", "2"):
                rej.append({ast.Gt: "end<start", ast.GtE: "end<=start"}.get(op))
    rej = [r for r in rej if r]
    if len(rej) != 1:
        raise AnalysisError(f"C12: expected one start/end order rejection in the validator, found {rej}")
    # the report's loop: for tok, start, end in <rows>. Which tokens are COUNTED (the accumulating store into the per-class table is
    # reached) is evaluated (sa/inteval.py) from the conjunction of the tests the store runs under, for an empty segment, a proper one,
    # an inverted one and one with a missing boundary - whichever way the condition is written (chained, negated, De Morgan)
    from sa.inteval import NotEvaluable as _NE9b, int_eval as _ie9b
    acc = []
    for n in own_nodes(f.node):
        if isinstance(n, ast.For) and isinstance(n.target, ast.Tuple) and len(n.target.elts) == 3 and all(isinstance(e, ast.Name) for e in n.target.elts):
            tok, st, en = (e.id for e in n.target.elts)
            stores = [x for x in ast.walk(n) if isinstance(x, ast.Assign) and len(x.targets) == 1 and isinstance(x.targets[0], ast.Subscript)
                      and isinstance(x.value, ast.BinOp) and {st, en} <= {y.id for y in ast.walk(x.value) if isinstance(y, ast.Name)}]
            inside = {id(x) for x in ast.walk(n)}
            for x in stores:
                gs = [(t_, p_) for t_, p_ in guards_of(pm, x) if id(t_) in inside]

                def counted(s_, e_):
                    def leaf(y):
                        if isinstance(y, ast.Call) and isinstance(y.func, ast.Attribute) and y.func.attr == "get":
                            return 0
                        if isinstance(y, ast.Name) and y.id not in (st, en, tok):
                            ds_ = list(rd9.defs_of(y))
                            if ds_ and all(d_.value is not None and isinstance(d_.value, ast.Call) and isinstance(d_.value.func, ast.Attribute)
                                           and d_.value.func.attr == "get" for d_ in ds_):
                                return 0  # (the previous count of the class: known so far)
                            if ds_ and all(d_.kind == "param" for d_ in ds_):
                                return 1  # (an option of the function that switches the report on)
                        return None
                    return all(bool(_ie9b(t_, {st: s_, en: e_, tok: 5, "__leaf__": leaf})) == p_ for t_, p_ in gs)
                try:
                    tab = (counted(2, 2), counted(2, 3), counted(3, 2), counted(-1, 2))
                except _NE9b:
                    continue
                if tab == (True, True, False, False):
                    acc.append("end>=start")
                elif tab == (False, True, False, False):
                    acc.append("end>start")
                else:
                    acc.append(f"counted for (2,2),(2,3),(3,2),(-1,2): {tab}")
    if len(acc) != 1:
        raise AnalysisError(f"C12: expected one start/end comparison in the statistics loop, found {acc}")
    want = "end>=start" if rej[0] == "end<start" else "end>start"
    col.ob("G12", "S9", f"{rel}::_info_and_validate::report-counts-the-segments-validation-accepts", acc[0] == want,
           f"validation rejects a bounded token only under `{rej[0]}` but the report counts it only under `{acc[0]}`: a valid "
           f"{'empty segment (start == end)' if want == 'end>=start' else 'segment'} makes rcount_<i> -1 ('boundaries unknown') "
           f"although every boundary is given", rel, f.line, sample=dict(validator_rejects=rej[0], report_counts=acc[0]))


def _write_back_source(ctx: Ctx):
    """S10: a repair rewrites a stored file. What is written must be the stored tensor (plus the repair), i.e. derive from a
    raw load of that file - not from the data set's *view* of the utterance (`get_utterance_tuple`), which inserts sos/eos,
    drops boundary columns under tokens_only, applies deltas / normalisation and changes arity with the suppress_* options."""
    from sa.defuse import ReachingDefs
    col, pkg = ctx.col, ctx.pkg
    f = pkg.func("_datasets::_info_and_validate")
    rel = f.module.relname
    rd = ReachingDefs(f.node)
    saves = [c for c in own_calls(f.node) if call_name(c) == "torch.save" and c.args]
    col.floor("write_back_sites", len(saves), 3)
    via_view = []
    for c in saves:
        der = rd.derives(c.args[0])
        names = [call_name(x) for x in der.calls()]
        if any(n.endswith("get_utterance_tuple") or n.endswith("__getitem__") for n in names) and not any(n == "torch.load" for n in names):
            via_view.append(c)
    col.ob("G10", "S10", f"{rel}::_info_and_validate::write-back-source-is-the-stored-tensor", not via_view,
           f"{len(via_view)} of {len(saves)} write-backs save a tensor obtained through `data_set.get_utterance_tuple(idx)` (the "
           f"data set's view), e.g. `{u(via_view[0])[:70] if via_view else ''}`: with sos/eos set the repair writes the inserted "
           f"symbols into the file (twice on the next repair), with tokens_only it deletes the boundary columns, and view options "
           f"that change the tuple's arity make a valid directory fail validation", rel, via_view[0].lineno if via_view else f.line,
           sample=[u(c)[:70] for c in saves])



def _ref_token_loop_nodes(f) -> set:
    """ids of the nodes of the per-token boundary loop of the reference section (decided as a whole by the S9 decision table)."""
    out = set()
    for n in own_nodes(f.node):
        if isinstance(n, ast.For) and isinstance(n.target, ast.Tuple) and len(n.target.elts) == 2 and isinstance(n.target.elts[1], ast.Name) \
                and isinstance(n.iter, ast.Call) and call_name(n.iter) == "enumerate":
            rv = n.target.elts[1].id
            if any(isinstance(x, ast.Subscript) and u(x.value) == rv and u(x.slice) in ("1", "2") for x in ast.walk(n)):
                out |= {id(x) for x in ast.walk(n)}
    return out


def _ref_boundary_decision_table(ctx: Ctx):
    """S9: what validation does with one reference token (start, end) given the frame count T and the fix tolerance is a
    function of finitely many orderings of the four integers. The per-token statement block is interpreted (comparisons,
    and/or/not, +/-, `is None`) on a grid of orderings and compared with the documented table:
        both missing (-1, -1)                          -> accept
        exactly one missing                            -> repair (both := -1) if a tolerance is given, else refuse
        end < start                                    -> refuse
        end > T                                        -> repair (end := T) if tolerance given, start <= T and end - T <= fix; else refuse
        otherwise                                      -> accept
    An edit that re-orders the tests (so that a fatal test shadows a repairable one) or changes a bound shows up as a row."""
    col, pkg = ctx.col, ctx.pkg
    f = pkg.func("_datasets::_info_and_validate")
    rel = f.module.relname
    where = f"{rel}::_info_and_validate"
    loops = []
    for n in own_nodes(f.node):
        if isinstance(n, ast.For) and isinstance(n.target, ast.Tuple) and len(n.target.elts) == 2 and isinstance(n.target.elts[1], ast.Name) \
                and isinstance(n.iter, ast.Call) and call_name(n.iter) == "enumerate":
            rv = n.target.elts[1].id
            if any(isinstance(x, ast.Subscript) and u(x.value) == rv and u(x.slice) in ("1", "2") for x in ast.walk(n)):
                loops.append((n, rv))
    Tn = None
    for n in own_nodes(f.node):
        if isinstance(n, ast.Assign) and isinstance(n.targets[0], ast.Tuple) and len(n.targets[0].elts) == 2 \
                and isinstance(n.value, ast.Attribute) and n.value.attr == "shape":
            Tn = u(n.targets[0].elts[0])
    if len(loops) != 1 or Tn is None or "fix" not in {p.name for p in f.params}:
        col.undecided(f"{where}: the per-token boundary loop / frame count / fix option was not recognised")
        return
    loop, rv = loops[0]

    class Und(Exception):
        pass

    def ev(e, env):
        if isinstance(e, ast.Constant):
            return e.value
        if isinstance(e, ast.Name):
            if e.id in env:
                return env[e.id]
            raise Und(e.id)
        if isinstance(e, ast.Subscript) and u(e.value) == rv and isinstance(e.slice, ast.Constant):
            return env[rv][e.slice.value]
        if isinstance(e, ast.UnaryOp) and isinstance(e.op, ast.Not):
            return not ev(e.operand, env)
        if isinstance(e, ast.UnaryOp) and isinstance(e.op, ast.USub):
            return -ev(e.operand, env)
        if isinstance(e, ast.BoolOp):
            vals = (ev(v, env) for v in e.values)
            return all(vals) if isinstance(e.op, ast.And) else any(vals)
        if isinstance(e, ast.BinOp) and isinstance(e.op, (ast.Add, ast.Sub)):
            a, b = ev(e.left, env), ev(e.right, env)
            if a is None or b is None:
                raise Und("arithmetic on None")
            return a + b if isinstance(e.op, ast.Add) else a - b
        if isinstance(e, ast.Compare):
            left = ev(e.left, env)
            for op, r_ in zip(e.ops, e.comparators):
                right = ev(r_, env)
                if isinstance(op, ast.Is):
                    res = left is right
                elif isinstance(op, ast.IsNot):
                    res = left is not right
                else:
                    if left is None or right is None:
                        raise Und("ordering on None")
                    res = {ast.Lt: left < right, ast.LtE: left <= right, ast.Gt: left > right, ast.GtE: left >= right,
                           ast.Eq: left == right, ast.NotEq: left != right}[type(op)]
                if not res:
                    return False
                left = right
            return True
        raise Und(u(e)[:40])

    def run_block(body, env, out):
        """returns 'raise' / None (fell through); repairs are appended to out."""
        for st in body:
            if isinstance(st, ast.If):
                r_ = run_block(st.body if ev(st.test, env) else st.orelse, env, out)
                if r_:
                    return r_
            elif isinstance(st, ast.Raise):
                return "raise"
            elif isinstance(st, ast.Continue):
                return "next"  # done with this token
            elif isinstance(st, ast.Pass):
                continue
            elif isinstance(st, ast.Assign) and len(st.targets) == 1 and isinstance(st.targets[0], ast.Subscript) and u(st.targets[0].value) == rv:
                sl_ = st.targets[0].slice
                val = ev(st.value, env)
                if isinstance(sl_, ast.Slice) and u(sl_) == "1:":
                    env[rv][1] = env[rv][2] = val
                elif isinstance(sl_, ast.Constant) and sl_.value in (1, 2):
                    env[rv][sl_.value] = val
                else:
                    raise Und(u(st))
                out.append(u(st))
            elif isinstance(st, ast.AugAssign) and isinstance(st.target, ast.Subscript) and u(st.target.value) == rv \
                    and isinstance(st.target.slice, ast.Constant) and st.target.slice.value in (1, 2) and isinstance(st.op, (ast.Add, ast.Sub)):
                # `r[2] -= fix`
                val = ev(st.value, env)
                k_ = st.target.slice.value
                env[rv][k_] = env[rv][k_] + val if isinstance(st.op, ast.Add) else env[rv][k_] - val
                out.append(u(st))
            elif isinstance(st, ast.Assign) and len(st.targets) == 1 and isinstance(st.targets[0], ast.Tuple) and isinstance(st.value, ast.Tuple) \
                    and len(st.targets[0].elts) == len(st.value.elts) and all(isinstance(t_, ast.Name) for t_ in st.targets[0].elts):
                # `start, end = r[1], r[2]`
                vals_ = []
                for v_ in st.value.elts:
                    try:
                        vals_.append(ev(v_, env))
                    except Und:
                        vals_.append(None)
                for t_, v_ in zip(st.targets[0].elts, vals_):
                    if v_ is None:
                        env.pop(t_.id, None)
                    else:
                        env[t_.id] = v_
            elif isinstance(st, ast.Assign) and len(st.targets) == 1 and isinstance(st.targets[0], ast.Name):
                try:
                    env[st.targets[0].id] = ev(st.value, env)
                except Und:
                    env.pop(st.targets[0].id, None)  # messages etc.
            elif isinstance(st, ast.Expr):
                continue  # warnings.warn(...)
            else:
                raise Und(type(st).__name__)
        return None

    def want(s, e, T, fix):
        if s < 0 and e < 0:
            return ("accept", (s, e))
        if s < 0 or e < 0:
            return ("accept", (-1, -1)) if fix is not None else ("raise", None)
        if e < s:
            return ("raise", None)
        if e > T:
            return ("accept", (s, T)) if fix is not None and s <= T and e - T <= fix else ("raise", None)
        return ("accept", (s, e))
    bad = None
    npts = 0
    try:
        for T in (0, 2, 3):
            for s in (-1, 0, 1, 2, 3, 4):
                for e in (-1, 0, 1, 2, 3, 4, 6):
                    for fix in (None, 0, 1, 3):
                        env = {rv: [7, s, e], Tn: T, "fix": fix}
                        out = []
                        r_ = run_block(loop.body, env, out)
                        got = ("raise", None) if r_ == "raise" else ("accept", (env[rv][1], env[rv][2]))
                        npts += 1
                        if got != want(s, e, T, fix) and bad is None:
                            bad = dict(start=s, end=e, T=T, fix=fix, does=got, documented=want(s, e, T, fix))
    except Und as ex:
        col.undecided(f"{where}: per-token block outside the interpreted fragment ({ex})")
        return
    col.ob("G12", "S9", f"{where}::per-token-decision-table", bad is None and npts > 0,
           f"for a reference token {bad} - the tests on one token are not the documented table (a fatal test placed before a "
           f"repairable one shadows it: a token with a start but no end has end = -1 < start)", rel, loop.lineno,
           sample=dict(points=npts, row_variable=rv))



def _dimensionality_flag_and_discovery(ctx: Ctx):
    """S11: (a) 'references of one dimensionality' is enforced by a three-state flag (nothing seen / 2-D seen / 1-D seen): each
    dimensionality must both refuse the other state and RECORD its own, else a directory whose first references are of the
    unrecorded kind passes with mixed references. (b) The utterances of a data set are those present in every sub-directory in
    use: the alignment and the reference id sets are each intersected whenever their sub-directory is in use, independently of the
    other."""
    from sa.inteval import NotEvaluable, int_eval
    col, pkg = ctx.col, ctx.pkg
    f = pkg.func("_datasets::_info_and_validate")
    rel = f.module.relname
    pm = parent_map(f.node)
    # (a) flags: locals initialised to None that are compared with two distinct constants (`is True` / `is False`, `== 1` / `== 2`, ..)
    # (state variables: locals that are only ever assigned constants - None / 0 'nothing seen yet' included - never computed or counted)
    assigned, computed = {}, set()
    for n in own_nodes(f.node):
        if isinstance(n, ast.Assign):
            for t in n.targets:
                for x in ([t] if isinstance(t, ast.Name) else [e_ for e_ in ast.walk(t) if isinstance(e_, ast.Name)]):
                    if isinstance(t, ast.Name) and isinstance(n.value, ast.Constant):
                        assigned.setdefault(x.id, []).append(n.value.value)
                    else:
                        computed.add(x.id)
        elif isinstance(n, (ast.AugAssign, ast.AnnAssign, ast.For, ast.comprehension)):
            tgt = n.target
            computed |= {x.id for x in ast.walk(tgt) if isinstance(x, ast.Name)}
    none_init = {k for k, v in assigned.items() if k not in computed and len(v) >= 2}
    flags = {}

    def _const(c):
        return isinstance(c, ast.Constant) and c.value is not None and isinstance(c.value, (bool, int, str))
    for n in own_nodes(f.node):
        if isinstance(n, ast.Compare) and len(n.ops) == 1 and isinstance(n.ops[0], (ast.Is, ast.IsNot, ast.Eq, ast.NotEq)) \
                and isinstance(n.left, ast.Name) and n.left.id in none_init and _const(n.comparators[0]):
            flags.setdefault(n.left.id, dict(tested=set(), stored=set()))["tested"].add(repr(n.comparators[0].value))
    for n in own_nodes(f.node):
        if isinstance(n, ast.Assign) and _const(n.value):
            for t in n.targets:
                if isinstance(t, ast.Name) and t.id in flags:
                    flags[t.id]["stored"].add(repr(n.value.value))
    tri = {k: v for k, v in flags.items() if len(v["tested"]) >= 2}
    col.floor("tri_state_flags", len(tri), 1)
    for k, v in sorted(tri.items()):
        col.ob("G16", "S11", f"{rel}::_info_and_validate::{k}::both-states-recorded", v["stored"] >= v["tested"],
               f"`{k}` is tested against {sorted(v['tested'])} but only {sorted(v['stored'])} is ever stored: the kind of reference that "
               f"does not record itself is not remembered, so a directory whose first references are of that kind and later ones of the "
               f"other kind is accepted although its references are not of one dimensionality", rel, f.line, sample=sorted(v["stored"]))
    # (b) discovery
    g = pkg.func("_datasets::SpectDataSet.find_utt_ids")
    # by value first: the discovery interpreted over plain data (sa/pyinterp.py) against modelled sub-directories - feat {a, b, c, d},
    # ali {a, b, d, x}, ref {a, c, d, y} - for every combination of sub-directories in use, with and without a subset and warnings: the
    # ids are exactly those present in EVERY sub-directory in use (and in the subset, if one is given)
    from sa.pyinterp import Obj as _ObjD, PyInterp as _PyID, Raised as _RaisedD
    dirs = {"D/feat": {"a", "b", "c", "d"}, "D/ali": {"a", "b", "d", "x"}, "D/ref": {"a", "c", "d", "y"}}
    by_value = None
    try:
        for ha in (True, False):
            for hr in (True, False):
                for subset in (set(), {"a", "b", "c", "y"}):
                    for warn in (False, True):
                        holder = {}

                        def leaf(e, env):
                            if isinstance(e, ast.Call):
                                cn = call_name(e)
                                it_ = holder["it"]
                                if cn.endswith("_utts_in_dir") and e.args:
                                    return set(dirs.get(it_.eval(e.args[0], env), set()))
                                if cn == "os.path.join":
                                    return "/".join(str(it_.eval(a_, env)) for a_ in e.args)
                                if cn == "warnings.warn":
                                    return "warned"
                            return None
                        it_ = _PyID(leaf=leaf)
                        holder["it"] = it_
                        self_ = _ObjD(has_ali=ha, has_ref=hr, data_dir="D", feat_subdir="feat", ali_subdir="ali", ref_subdir="ref", file_prefix="", file_suffix=".pt")
                        got_ = it_.call_function(g.node, [self_, warn, set(subset)], {})
                        want_ = set(dirs["D/feat"])
                        for on_, d_ in ((ha, "D/ali"), (hr, "D/ref")):
                            if on_:
                                want_ &= dirs[d_]
                        if subset:
                            want_ &= subset
                        if (not isinstance(got_, (set, frozenset)) or set(got_) != want_) and by_value is None:
                            by_value = dict(has_ali=ha, has_ref=hr, subset=sorted(subset), found=sorted(got_) if isinstance(got_, (set, frozenset, list)) else str(got_), expected=sorted(want_))
        col.ob("G12", "S11", f"{rel}::SpectDataSet.find_utt_ids::discovery-table", by_value is None,
               (f"{by_value}: with feat {{a, b, c, d}}, ali {{a, b, d, x}}, ref {{a, c, d, y}} the ids found are not those present in every sub-directory in use "
                f"(and in the subset): validation and the statistics then fail (or count) on a file that does not exist") if by_value else "", rel, g.line)
        return
    except (NotEvaluable, _RaisedD, KeyError, AttributeError, TypeError):
        pass  # (outside the interpreted fragment: the structural rule below stands in)
    pmg = parent_map(g.node)
    inter = []
    for n in own_nodes(g.node):
        if isinstance(n, ast.AugAssign) and isinstance(n.op, ast.BitAnd) and isinstance(n.target, ast.Name) and isinstance(n.value, ast.Name):
            inter.append(n)
        elif isinstance(n, ast.Assign) and isinstance(n.value, ast.BinOp) and isinstance(n.value.op, ast.BitAnd) and len(n.targets) == 1 \
                and isinstance(n.targets[0], ast.Name) and u(n.targets[0]) in (u(n.value.left), u(n.value.right)):
            inter.append(n)
    rets = [r for r in own_nodes(g.node) if isinstance(r, ast.Return) and isinstance(r.value, ast.Name)]
    main = rets[-1].value.id if rets else None
    bad = None
    applied_any = False
    try:
        for ha in (True, False):
            for hr in (True, False):
                got = set()
                for n in inter:
                    tgt = n.target.id if isinstance(n, ast.AugAssign) else n.targets[0].id
                    if tgt != main:
                        continue
                    other = u(n.value) if isinstance(n, ast.AugAssign) else (u(n.value.right) if u(n.value.left) == tgt else u(n.value.left))
                    kind = "ali" if "ali" in other else "ref" if "ref" in other else None
                    if kind is None:
                        continue
                    reach = True
                    for t, pol in guards_of(pmg, n):
                        try:
                            if bool(int_eval(t, {"self.has_ali": ha, "self.has_ref": hr})) != pol:
                                reach = False
                        except NotEvaluable:
                            pass
                    if reach:
                        got.add(kind)
                        applied_any = True
                want = ({"ali"} if ha else set()) | ({"ref"} if hr else set())
                if got != want and bad is None:
                    bad = dict(has_ali=ha, has_ref=hr, intersects=sorted(got), expected=sorted(want))
    except NotEvaluable as e:
        col.undecided(f"{rel}::SpectDataSet.find_utt_ids: outside the evaluated fragment ({e})")
        return
    col.ob("G16", "S11", f"{rel}::SpectDataSet.find_utt_ids::every-sub-directory-in-use-restricts-the-ids", bad is None and applied_any,
           f"{bad}: an utterance missing from a sub-directory that is in use is still discovered; validation and the statistics then "
           f"fail (or count) on a file that does not exist", rel, g.line)


def _deprecated_boolean_fix(ctx: Ctx):
    """S10: `fix` used to be a boolean. The normalisation under `isinstance(fix, bool)` must send False to None (strict: refuse
    every defect) and True to a tolerance; `int(False)` is the tolerance 0, which REPAIRS dtype and half-open-boundary defects
    on disk where the caller asked for a refusal."""
    col, pkg = ctx.col, ctx.pkg
    f = pkg.func("_datasets::validate_spect_data_set")
    rel = f.module.relname
    pm = parent_map(f.node)
    def _bool_guard(t):
        return any(isinstance(x, ast.Name) and x.id == "fix" for x in ast.walk(t)) and (
            ("isinstance" in u(t) and "bool" in u(t)) or any(isinstance(x, ast.Constant) and isinstance(x.value, bool) for x in ast.walk(t)))
    blocks = [n for n in own_nodes(f.node) if isinstance(n, ast.If) and _bool_guard(n.test)
              and any(isinstance(x, ast.Name) and x.id == "fix" and isinstance(x.ctx, ast.Store) for x in ast.walk(n))]
    if len(blocks) != 1:
        col.undecided(f"{rel}::validate_spect_data_set: the boolean normalisation of `fix` was not recognised")
        return
    sites = [blocks[0]]

    def ev(e, val):
        if isinstance(e, ast.Constant):
            return e.value
        if isinstance(e, ast.Name) and e.id == "fix":
            return val
        if isinstance(e, ast.IfExp):
            return ev(e.body, val) if ev(e.test, val) else ev(e.orelse, val)
        if isinstance(e, ast.UnaryOp) and isinstance(e.op, ast.Not):
            return not ev(e.operand, val)
        if isinstance(e, ast.Call) and call_name(e) == "int" and len(e.args) == 1:
            return int(ev(e.args[0], val))
        if isinstance(e, ast.Compare) and len(e.ops) == 1 and isinstance(e.ops[0], (ast.Is, ast.IsNot, ast.Eq, ast.NotEq)):
            a_, b_ = ev(e.left, val), ev(e.comparators[0], val)
            r_ = (a_ is b_) if isinstance(e.ops[0], (ast.Is, ast.IsNot)) else (a_ == b_)
            return r_ if isinstance(e.ops[0], (ast.Is, ast.Eq)) else not r_
        if isinstance(e, ast.BoolOp):
            out = None
            for v in e.values:
                out = ev(v, val)
                if (isinstance(e.op, ast.And) and not out) or (isinstance(e.op, ast.Or) and out):
                    return out
            return out
        raise ValueError(u(e))

    def run_block(body, val):
        for st in body:
            if isinstance(st, ast.Assign) and len(st.targets) == 1 and u(st.targets[0]) == "fix":
                val = ev(st.value, val)
            elif isinstance(st, ast.If):
                val = run_block(st.body if ev(st.test, val) else st.orelse, val)
            elif isinstance(st, (ast.Expr, ast.Pass)):
                continue
            else:
                raise ValueError(type(st).__name__)
        return val
    try:
        vt, vf = run_block(blocks[0].body, True), run_block(blocks[0].body, False)
    except ValueError as ex:
        col.undecided(f"{rel}::validate_spect_data_set: the boolean normalisation of `fix` is outside the evaluated fragment ({ex})")
        return
    ok = vf is None and isinstance(vt, int) and not isinstance(vt, bool) and vt >= 0
    col.ob("G12", "S10", f"{rel}::validate_spect_data_set::fix=False-means-strict", ok,
           f"the block at line {sites[0].lineno} maps fix=True to {vt!r} and fix=False to {vf!r}: False must become None (refuse), a tolerance of "
           f"{vf!r} repairs the directory on disk instead", rel, sites[0].lineno, sample={"True": repr(vt), "False": repr(vf)})


def _mutants():
    from selftest.mutate import Mutant as M
    D = "_datasets.py"
    return [
        M("fatal-test-shadows-the-repairable-one", D, "if r[1] < 0 or r[2] < 0:\n    if fix is not None:\n        warnings.warn(msg + '. Removing unpaired boundary')\n        r[1:] = -1\n        write_back = True\n    else:\n        raise ValueError(msg)\nelif r[2] < r[1]:\n    raise ValueError(msg)\nelif r[2] > T:",
          "if r[2] < r[1]:\n    raise ValueError(msg)\nelif r[1] < 0 or r[2] < 0:\n    if fix is not None:\n        warnings.warn(msg + '. Removing unpaired boundary')\n        r[1:] = -1\n        write_back = True\n    else:\n        raise ValueError(msg)\nelif r[2] > T:", "per-token-decision-table"),
        M("false-becomes-tolerance-zero", D, "fix = 1 if fix else None", "fix = int(fix)", "fix=False-means-strict"),
        M("report-drops-empty-segments", "_datasets.py", "if rcount >= 0 and end >= start >= 0:", "if rcount >= 0 and end > start >= 0:", "report-counts-the-segments-validation-accepts"),
        M("unknown-marker-not-sticky", "_datasets.py", "if rcount >= 0 and end >= start >= 0:", "if end >= start >= 0:", "unknown-marker-is-absorbing"),
        M("repair-without-permission", D, "if fix is not None and T + fix >= ali.shape[0] > T:",
          "if T + fix >= ali.shape[0] > T:", "needs-fix-permission"),
        M("drop-else-raise", D,
          "if fix is not None and r[1] <= T >= r[2] - fix:\n    warnings.warn(msg + '. Reducing upper bound')\n    r[2] = T\n    write_back = True\nelse:\n    raise ValueError(msg)",
          "if fix is not None and r[1] <= T >= r[2] - fix:\n    warnings.warn(msg + '. Reducing upper bound')\n    r[2] = T\n    write_back = True",
          "per-token-decision-table"),
        M("ali-writeback-dropped", D, "if write_back:\n    torch.save(ali, os.path.join(dir_, fn))\n    write_back = False",
          "write_back = False", "G10/S3"),
        M("ref-saved-into-ali-dir", D, "dir_ = os.path.join(data_set.data_dir, data_set.ref_subdir)",
          "dir_ = os.path.join(data_set.data_dir, data_set.ali_subdir)", "G10/S3"),
        M("save-wrong-tensor", D, "torch.save(ref, os.path.join(dir_, fn))", "torch.save(ali, os.path.join(dir_, fn))", "G10/S3"),
        M("flag-cleared-before-save", D, "ali = ali[:T]\nwrite_back = True", "ali = ali[:T]\nwrite_back = False", "G10/S"),
        M("tolerance-off-by-one", D, "T + fix >= ali.shape[0] > T", "T + fix > ali.shape[0] > T", "ali-crop-tolerance"),
        M("ref-tolerance-ignores-fix", D, "r[1] <= T >= r[2] - fix", "r[1] <= T >= r[2] - 1", "per-token-decision-table"),
        M("ref-tolerance-start-unchecked", D, "fix is not None and r[1] <= T >= r[2] - fix", "fix is not None and T >= r[2] - fix",
          "per-token-decision-table"),
        M("crop-keeps-tail", D, "ali = ali[:T]", "ali = ali[-T:]", "ali-crop"),
        M("validate-entry-swapped", D, "_info_and_validate(data_set, False, True, fix)", "_info_and_validate(data_set, True, False, fix)",
          "_info_and_validate-binding"),
        M("cli-fix-truthiness", "command_line.py", "options.strict or options.fix is not None", "options.strict or options.fix",
          "G"),
        M("load-ref-shape-from-first-row", D, "ref.new_full((1,), sos)", "torch.full_like(ref[:1], sos)", "read-table"),
        M("eos-in-front", D, "torch.cat([ref, ref.new_full((1,), eos)], 0)", "torch.cat([ref.new_full((1,), eos), ref], 0)",
          "eos-1d::order"),
        M("sos-row-carries-eos", D, "sos_sym[0] = sos", "sos_sym[0] = eos", "read-table"),
        M("strip-first-sos", D, "sos_idx = sos_idxs[-1].item()", "sos_idx = sos_idxs[0].item()", "write-table"),
        M("strip-last-eos", D, "eos_idx = eos_idxs[0].item()", "eos_idx = eos_idxs[-1].item()", "write-table"),
        M("strip-keeps-sos", D, "hyp = hyp[sos_idx + 1:]", "hyp = hyp[sos_idx:]", "write-table"),
        M("write-hyp-other-symbol-source", D, "_write_hyp(hyp, pth, self.sos, self.eos)", "_write_hyp(hyp, pth, self.params.sos, self.params.eos)",
          "inserted-symbols==stripped-symbols"),
        M("write-hyp-symbols-swapped", D, "_write_hyp(hyp, pth, self.sos, self.eos)", "_write_hyp(hyp, pth, self.eos, self.sos)",
          "G1"),
        M("utts-suffix-as-prefix", D, "x.startswith(file_prefix) and x.endswith(file_suffix)",
          "x.startswith(file_suffix) and x.endswith(file_suffix)", "G4/S7"),
        M("twin:rename-flag", D, "write_back", "dirty", "", -1, twin=True),
    ]


def selftest(ctx: Ctx):
    from selftest.mutate import run_selftest
    return run_selftest("C12", ctx.pkg.repo, _mutants(), floor=16, jobs=12)
