"""C02 error rate: forwarding, mode table, equal-cost shortcut (G16), MER loss (G16/G8), G17."""
from __future__ import annotations

from sa.astutil import under_flag as _uflag

import ast

from rules import enum as R_enum
from rules import fwd as R_fwd
from sa.astutil import arg_or_kw, call_name, kwarg, u
from sa.defuse import ReachingDefs
from sa.model import AnalysisError, own_calls, own_nodes
from sa.resolve import bind_args
from . import string_common as SC
from .common import Ctx, plumbing


def run(ctx: Ctx):
    col, pkg, res = ctx.col, ctx.pkg, ctx.res
    rel = "_string.py"
    R_fwd.g5_module_pairs(pkg, res, col, only={"error_rate", "prefix_error_rates", "minimum_error_rate_loss"}, clause="S1")
    col.floor("g5_pairs", col.counts.get("g5_pairs", 0), 3)
    SC.mode_table(ctx, ["error_rate", "prefix_error_rates"], "S2")
    SC.equal_cost_shortcut(ctx, "S3")
    SC.batch_independence(ctx, "S5")
    SC.no_eos_mask_uses_its_own_extent(ctx, "S5")
    SC.empty_reference_convention(ctx, "S2")
    SC.tokens_compared_as_integers(ctx, "S5")
    SC.kernel_value_table(ctx, "S6", "count")
    # ---- S4 minimum error rate loss ---------------------------------------------------------------------
    f = pkg.func("_string::minimum_error_rate_loss")
    where = f"{rel}::minimum_error_rate_loss"
    er_fn = pkg.func("_string::error_rate")
    calls = [c for c in own_calls(f.node) if call_name(c) == "error_rate"]
    if len(calls) != 1:
        raise AnalysisError("minimum_error_rate_loss does not call error_rate exactly once")
    b = bind_args(calls[0], er_fn, False)
    got = {p.name: u(a) for p, a, _ in b.pairs}
    want = {k: k for k in ("ref", "hyp", "eos", "include_eos", "norm", "batch_first", "ins_cost", "del_cost", "sub_cost", "warn")}
    col.ob("G1", "S4", f"{where}::error_rate-binding", got == want, f"error_rate is called with {got}", rel, calls[0].lineno, sample=got)
    rd = ReachingDefs(f.node)
    from sa.astutil import arg_or_kw, guards_of, parent_map
    pm = parent_map(f.node)
    # roles by dataflow: an expression "is the error rates" when it derives from the error_rate call; (batch, samples) are the
    # names unpacked from hyp.shape

    def from_er(e):
        return any(x is calls[0] for x in ast.walk(e)) or any(c is calls[0] for c in rd.derives(e).calls())
    views = [c for c in own_calls(f.node) if isinstance(c.func, ast.Attribute) and c.func.attr in ("view", "reshape") and from_er(c.func.value)]
    view_args = [u(a) for a in views[0].args] if len(views) == 1 else []
    shapes = [n for n in own_nodes(f.node) if isinstance(n, ast.Assign) and isinstance(n.targets[0], ast.Tuple) and u(n.value) == "hyp.shape"]
    okview = False
    for sh in shapes:
        names = [u(t) for t in sh.targets[0].elts]
        bf = _uflag(guards_of(pm, sh), "batch_first", True)
        bs = (names[0], names[1]) if bf else (names[1], names[2])
        okview = okview or list(bs) == view_args
    means = [c for c in own_calls(f.node) if isinstance(c.func, ast.Attribute) and c.func.attr == "mean" and (c.args or c.keywords)
             and from_er(c.func.value)]
    sms = [c for c in own_calls(f.node) if call_name(c).endswith("softmax")]

    def axis(c, pos):
        a_ = arg_or_kw(c, pos, "dim")
        return u(a_) if a_ is not None else None
    sm_axis = [axis(c, 1 if call_name(c) != "softmax" and not (isinstance(c.func, ast.Attribute) and u(c.func.value) == "log_probs") else 0) for c in sms]
    sm_src = [u(c.args[0]) if call_name(c).startswith("torch") and c.args else u(c.func.value) if isinstance(c.func, ast.Attribute) else None for c in sms]
    ok = okview and len(means) == 1 and axis(means[0], 0) == "1" and kwarg(means[0], "keepdim") is not None and u(kwarg(means[0], "keepdim")) == "True" \
        and len(sms) == 1 and sm_axis == ["1"] and sm_src == ["log_probs"]
    col.ob("G13", "S4", f"{where}::samples-axis-agreement", ok,
           f"error rates are shaped {view_args} (batch, samples) but the mean / softmax use axes "
           f"{[axis(c, 0) for c in means]} / {sm_axis}; all must be the samples axis 1", rel, f.line,
           sample=dict(view=view_args, mean=[u(c) for c in means], softmax=[u(c) for c in sms]))
    sub = [n for n in own_nodes(f.node) if isinstance(n, ast.BinOp) and isinstance(n.op, ast.Sub) and means and any(x is means[0] for x in ast.walk(n.right))
           and from_er(n.left)]
    col.ob("G16", "S4", f"{where}::mean-subtracted-iff-sub_avg", len(sub) == 1 and _uflag(guards_of(pm, sub[0]), "sub_avg", True),
           "the average error rate is not subtracted exactly when sub_avg is set", rel, f.line)

    def is_softmax(e):
        return bool(sms) and (any(x is sms[0] for x in ast.walk(e)) or any(c is sms[0] for c in rd.derives(e).calls()))
    prod = [n for n in own_nodes(f.node) if isinstance(n, ast.BinOp) and isinstance(n.op, ast.Mult)
            and ((from_er(n.left) and is_softmax(n.right) and not from_er(n.right)) or (from_er(n.right) and is_softmax(n.left) and not from_er(n.left)))]
    col.ob("G16", "S4", f"{where}::loss=er*softmax(log_probs)", len(prod) == 1,
           "the loss is not er * softmax(log_probs)", rel, f.line)
    R_enum.g8_dispatch(pkg, res, col, f, "reduction", "S4", members=["mean", "sum", "none"], allow_else=0)
    _mer_table(ctx, f, rel)
    # the reshaping keeps ref and hyp aligned: both flattened over (batch, samples) in the same order per layout
    plumbing(ctx, "S1")
    return dict(
        explanation=(
            "Decides for C02: (S1) forwarding for ErrorRate, PrefixErrorRates, MinimumErrorRateLoss; (S2) error_rate / "
            "prefix_error_rates run the kernel with the mistakes table; (S3) for equal costs the costs are reset to 1.0, "
            "the mistakes table is switched off and the multiplier is applied only to distances, so a count is never "
            "rescaled by a cost; (S4) the minimum-error-rate loss binds its options to error_rate by name, uses one "
            "samples axis for view / mean / softmax, subtracts the mean iff sub_avg, handles every reduction; (S5) "
            "batch independence of the kernel. NOT decided: that the mistakes table follows an optimal alignment, "
            "the empty-reference convention values, prefix variant values."),
        decided=["S1", "S2", "S3", "S4", "S5"],
        not_decided=["mistakes counted along a minimum-cost alignment", "empty-reference convention", "prefix values"],
        assumptions=["docstring tables as oracle"],
    )


def _mer_table(ctx: Ctx, f, rel: str):
    """S4 as a table: minimum_error_rate_loss interpreted over exact values (sa/interp.py + sa/teval.py; nothing is run) with the
    error rates of the (batch, sample) pairs and the softmax weights given as distinct rationals, for both layouts, 2- and
    3-dimensional references, sub_avg on / off and every reduction:

        loss[n, m] = (er[n, m] - (mean_m er[n, .] if sub_avg else 0)) * softmax(log_probs)[n, m]
        'none' -> loss;  'sum' -> its total;  'mean' -> its total / (batch * samples)"""
    import numpy as np
    from fractions import Fraction as Fr
    from sa.interp import Interp
    from sa.inteval import NotEvaluable
    from sa.teval import frac_array
    col = ctx.col
    where = f"{rel}::{f.qualname}"
    N, M, H, R = 2, 3, 4, 5
    ER = frac_array([[Fr(1, 2), Fr(3), Fr(5, 3)], [Fr(7), Fr(2, 5), Fr(11, 4)]])
    W = frac_array([[Fr(1, 7), Fr(2, 7), Fr(4, 7)], [Fr(3, 11), Fr(3, 11), Fr(5, 11)]])
    bad, n_rows = None, 0
    try:
        for bf in (True, False):
            for rdim in (2, 3):
                for sub in (True, False):
                    for red in ("none", "sum", "mean"):
                        def leaf(x, env):
                            if isinstance(x, ast.Call):
                                nm = call_name(x)
                                if nm == "error_rate":
                                    return ER.reshape(-1)
                                if nm.endswith("softmax") and (len(x.args) + len(x.keywords)) >= 1:
                                    axis = arg_or_kw(x, 1 if nm.startswith("torch") else 0, "dim")
                                    if axis is None or u(axis) not in ("1", "-1"):
                                        raise NotEvaluable("softmax over another axis")
                                    return W
                            return None
                        it = Interp(leaf=leaf, tensors=True)
                        env = {a.arg: None for a in f.node.args.args}
                        hyp = frac_array(np.zeros((N, M, H) if bf else (H, N, M), dtype=int).tolist())
                        if rdim == 3:
                            ref = frac_array(np.zeros((N, M, R) if bf else (R, N, M), dtype=int).tolist())
                        else:
                            ref = frac_array(np.zeros((N, R) if bf else (R, N), dtype=int).tolist())
                        env.update(log_probs=frac_array(np.zeros((N, M), dtype=int).tolist()), ref=ref, hyp=hyp, batch_first=bf, sub_avg=sub,
                                   reduction=red, include_eos=True, norm=True, warn=True)
                        kind, got = it.run(f.node, env)
                        n_rows += 1
                        er = ER - (ER.sum(1, keepdims=True) / M if sub else 0)
                        loss = er * W
                        want = loss if red == "none" else (loss.sum() if red == "sum" else loss.sum() / (N * M))
                        same = kind == "return" and (np.array_equal(np.asarray(got, dtype=object), want) if hasattr(want, "shape")
                                                      else (getattr(got, "size", 1) == 1 and got == want))
                        if not same and bad is None:
                            bad = (bf, rdim, sub, red, kind, got, want)
    except NotEvaluable as e:
        col.undecided(f"{where}: the loss is outside the interpreted fragment ({e})")
        return
    col.floor("mer_loss_table_rows", n_rows, 24)

    def _show(v):
        return str(v.tolist() if hasattr(v, "tolist") else v)[:90]
    col.ob("G12", "S4", f"{where}::loss-table", bad is None,
           (f"with batch_first={bad[0]}, a {bad[1]}-dimensional ref, sub_avg={bad[2]}, reduction={bad[3]!r} the function computes "
            f"{_show(bad[5]) if bad[4] == 'return' else 'raise ' + str(bad[5])} from the reference error rates and weights; documented: "
            f"(er - mean over samples if sub_avg) * softmax(log_probs), then none / total / total over batch * samples = {_show(bad[6])}") if bad else "",
           rel, f.line, sample=dict(rows=n_rows))


def _mutants():
    from selftest.mutate import Mutant as M
    S = "_string.py"
    return [
        M("mer-loss-views-caller-tensor", "_string.py", "hyp = hyp.reshape(-1, max_hyp_steps)", "hyp = hyp.view(-1, max_hyp_steps)", "no-merging-view-of-a-caller's-tensor"),
        M("empty-reference-scores-length", "_string.py", "er = torch.where(zero_mask, hyp_lens.gt(0).to(er.dtype), er)", "er = torch.where(zero_mask, hyp_lens.to(er.dtype), er)", "empty-reference-scores-0-or-1@final"),
        M("empty-reference-prefix-scores-index", "_string.py", "torch.arange(prefix_ers.size(0), device=device).gt(0).to(row.dtype)", "torch.arange(prefix_ers.size(0), device=device).to(row.dtype)", "empty-reference-scores-0-or-1@prefix"),
        M("error-rate-no-mistakes", S, "return _string_matching(ref, hyp, eos, include_eos, batch_first, ins_cost, del_cost, sub_cost, warn, norm=norm, return_mistakes=True)",
          "return _string_matching(ref, hyp, eos, include_eos, batch_first, ins_cost, del_cost, sub_cost, warn, norm=norm)", "kernel-mode"),
        M("mult-always", S, "if not return_mistakes:\n            mult = ins_cost", "if True:\n            mult = ins_cost", "multiplier-only-for-distances"),
        M("mult-after-reset", S, "if not return_mistakes:\n            mult = ins_cost\n        ins_cost = del_cost = sub_cost = 1.0", "ins_cost = del_cost = sub_cost = 1.0\n        if not return_mistakes:\n            mult = ins_cost",
          "multiplier-read-before-reset"),
        M("costs-not-reset", S, "ins_cost = del_cost = sub_cost = 1.0", "ins_cost = del_cost = 1.0", "costs-reset-to-1"),
        M("mer-softmax-axis-0", S, "torch.nn.functional.softmax(log_probs, 1)", "torch.nn.functional.softmax(log_probs, 0)", "samples-axis"),
        M("mer-mean-axis-0", S, "er = er - er.mean(1, keepdim=True)", "er = er - er.mean(0, keepdim=True)", "samples-axis"),
        M("mer-sub-avg-always", S, "if sub_avg:\n        er = er - er.mean(1, keepdim=True)", "er = er - er.mean(1, keepdim=True)", "mean-subtracted-iff"),
        M("mer-costs-swapped", S, "ins_cost=ins_cost, del_cost=del_cost, sub_cost=sub_cost, warn=warn).view(batch_size, samples)", "ins_cost=del_cost, del_cost=ins_cost, sub_cost=sub_cost, warn=warn).view(batch_size, samples)", "G1"),
        M("mer-reduction-arm-lost", S, "elif reduction == 'sum':\n        loss = loss.sum()\n    elif reduction != 'none':\n        raise RuntimeError(f\"'{reduction}' is not a valid value for reduction\")\n    return loss\n\nclass MinimumErrorRateLoss",
          "elif reduction != 'none':\n        raise RuntimeError(f\"'{reduction}' is not a valid value for reduction\")\n    return loss\n\nclass MinimumErrorRateLoss", "G8/S4"),
        M("module-swaps-sub-avg-norm", S, "self.sub_avg, self.batch_first, self.norm", "self.norm, self.batch_first, self.sub_avg", "G"),
        M("twin:rename-mult", S, "mult", "scale", "", -1, twin=True),
    ]


def selftest(ctx: Ctx):
    from selftest.mutate import run_selftest
    return run_selftest("C02", ctx.pkg.repo, _mutants(), floor=8)


MANIFEST = dict(
    level_text=(
        "Static analysis (no execution): forwarding completeness, kernel mode table, def-use/guard rules for the "
        "equal-cost shortcut (so that an error count is never rescaled by a cost and equals the Levenshtein count for "
        "equal costs), axis agreement and option binding of the minimum-error-rate loss, and the batch-mixing rule. "
        "Structural clauses of C02; that the mistakes table follows a minimum-cost alignment is decided by interpreting the whole kernel over "
        "exact values on a finite grid (51 rows: the count lies between the fewest and the most edits of the minimum-cost alignments), not for all lengths. The edit-count table has per-prefix rows in both layouts (each prefix within the fewest .. most edits of its optimal alignments, padding behind the hypothesis)."),
    level_note="Trusted: python ast; docstring tables as oracle.",
    technique="static analysis: argument binding, guard/def-use ordering rules, axis-agreement tables, enum dispatch coverage; interpretation of the loss over exact tensor values (syntax tree only) compared with the documented value for every reduction / layout; the whole kernel interpreted the same way against a per-pair alignment oracle on a finite grid",
    design_ref="DESIGN.md section 4 C02",
)
