"""C06 n-gram lookup model: ARPA re-dispatch (G6), kernel binding (G1), buffer layout
agreement between builder and readers (G12), load_state_dict definite assignment (G10/G13),
one code path for full/chunked (G16), unsigned NumPy scalars (G21)."""
from __future__ import annotations

import ast

from rules import fwd as R_fwd
from rules.narrowint import NarrowInt
from sa.astutil import call_name, parent_map, u
from sa.defuse import ReachingDefs
from sa.model import AnalysisError, own_calls, own_nodes
from sa.norm import Normalizer, padd, pstr
from sa.paths import PathEnumerator
from sa.resolve import bind_args
from .common import Ctx, plumbing

MOD = "_lm"
CLS = "LookupLanguageModel"
KERNEL = "_lookup_calc_idx_log_probs"
REN = {"self.vocab_size": "V", "self.max_ngram": "N", "self.max_ngram_nodes": "G", "self.shift": "shift",
       "self.sos": "sos", "self.max_direct_descendants": "S"}


def _ren(s: str) -> str:
    for k in sorted(REN, key=len, reverse=True):
        s = s.replace(k, REN[k])
    return s


def _single_assign_subst(f, names=None):
    """{name: value expr} for names assigned exactly once (incl. parallel tuple assignment)."""
    cnt, val = {}, {}
    for n in own_nodes(f.node):
        if isinstance(n, ast.Assign) and len(n.targets) == 1:
            t, v = n.targets[0], n.value
            pairs = []
            if isinstance(t, ast.Name):
                pairs = [(t.id, v)]
            elif isinstance(t, ast.Tuple) and isinstance(v, ast.Tuple) and len(t.elts) == len(v.elts):
                pairs = [(a.id, b) for a, b in zip(t.elts, v.elts) if isinstance(a, ast.Name)]
            elif isinstance(t, ast.Tuple):
                for a in t.elts:
                    if isinstance(a, ast.Name):
                        cnt[a.id] = cnt.get(a.id, 0) + 2
            for k, b in pairs:
                cnt[k] = cnt.get(k, 0) + 1
                val[k] = b
        elif isinstance(n, (ast.AugAssign, ast.For)):
            tg = n.target
            for x in ast.walk(tg):
                if isinstance(x, ast.Name):
                    cnt[x.id] = cnt.get(x.id, 0) + 2
    return {k: v for k, v in val.items() if cnt.get(k) == 1 and (names is None or k in names)}


def run(ctx: Ctx):
    col, pkg, res = ctx.col, ctx.pkg, ctx.res
    rel = pkg.module(MOD).relname
    W = lambda m: f"{rel}::{CLS}.{m}"
    kern = pkg.func(f"{MOD}::{KERNEL}")
    build = pkg.func(f"{MOD}::{CLS}._build_trie")
    load = pkg.func(f"{MOD}::{CLS}.load_state_dict")
    infer = pkg.func(f"{MOD}::{CLS}._infer_max_direct_descendants")
    init = pkg.func(f"{MOD}::{CLS}.__init__")
    calc = pkg.func(f"{MOD}::{CLS}.calc_idx_log_probs")

    # ---- S1 ARPA path/file re-dispatch ---------------------------------------------------------
    R_fwd.g6_redispatch(pkg, res, col, clause="S1", only={"parse_arpa_lm"})
    col.floor("g6_redispatch_sites", col.counts.get("g6_redispatch_sites", 0), 1)

    # ---- S2 kernel binding -------------------------------------------------------------------------
    calls = [c for c in own_calls(calc.node) if call_name(c) == KERNEL]
    col.floor("kernel_calls", len(calls), 1)
    want = {"hist": "hist", "hidx": "idx", "offsets": "self.offsets", "ids": "self.ids", "logps": "self.logps",
            "logbs": "self.logbs", "sos": "self.sos", "V": "self.vocab_size", "N": "self.max_ngram",
            "G": "self.max_ngram_nodes", "S": "self.max_direct_descendants"}
    for c in calls:
        b = bind_args(c, kern, False)
        got = {p.name: u(a) for p, a, _ in b.pairs}
        for k in sorted(set(want) | set(got)):
            col.ob("G1", "S2", f"{W('calc_idx_log_probs')}::{KERNEL}({k}<-{got.get(k)})", got.get(k) == want.get(k),
                   f"kernel formal `{k}` receives `{got.get(k)}`, expected `{want.get(k)}` (five bare ints and four "
                   f"buffers are mutually transposable)", rel, c.lineno, sample=dict(formal=k, arg=got.get(k)))

    # ---- S3 layout constants ------------------------------------------------------------------------
    # roles are recovered by dataflow, never by local names:
    #   builder buffers  = slots of the returned 4-tuple, matched to register_buffer names through __init__'s unpack
    #   U                = the name subtracted inside a subscript of the ids buffer
    #   O                = builder: the size the offsets buffer is allocated with; kernel: offsets.numel()
    #   shift            = kernel: the name bound to the `0 if 0 <= sos < V else 1` expression
    rdb = ReachingDefs(build.node)
    bret = [st for st, _ in rdb.return_envs][-1]
    unp = [n for n in own_nodes(init.node) if isinstance(n, ast.Assign) and isinstance(n.targets[0], ast.Tuple)
           and isinstance(n.value, ast.Call) and u(n.value.func) == "self._build_trie"]
    if not unp or not isinstance(bret.value, ast.Tuple) or len(bret.value.elts) != len(unp[0].targets[0].elts):
        raise AnalysisError("C06: cannot match _build_trie's returned buffers with __init__'s unpack")
    init_names = [u(t) for t in unp[0].targets[0].elts]
    regmap = {}
    for c in own_calls(init.node):
        if isinstance(c.func, ast.Attribute) and c.func.attr == "register_buffer" and len(c.args) == 2 \
                and isinstance(c.args[0], ast.Constant):
            regmap[u(c.args[1])] = c.args[0].value
    bbuf = {}  # buffer name -> builder local
    def _slot_root(e):
        # (a slot handed back through a dtype / device / layout conversion is still that buffer: `offsets.to(offset_type)`)
        while isinstance(e, ast.Call) and isinstance(e.func, ast.Attribute) and e.func.attr in ("to", "contiguous", "long", "int", "float", "clone", "detach", "type"):
            e = e.func.value
        return e
    for loc, nm in zip(bret.value.elts, init_names):
        if nm in regmap:
            bbuf[regmap[nm]] = u(_slot_root(loc))
    if set(bbuf) != {"logps", "logbs", "ids", "offsets"}:
        raise AnalysisError(f"C06: builder buffers resolved to {bbuf}")

    def u_name(f, ids_local):
        for n in own_nodes(f.node):
            if isinstance(n, ast.Subscript) and u(n.value) == ids_local:
                for x in ast.walk(n.slice):
                    if isinstance(x, ast.BinOp) and isinstance(x.op, ast.Sub) and isinstance(x.right, ast.Name):
                        return x.right.id
        raise AnalysisError(f"C06: cannot locate the unigram offset U in {f.qualname}")

    subb = _single_assign_subst(build)
    # names bound to model fields by a parallel assignment (N, G, V = self.max_ngram, ...) keep that meaning up to
    # their first re-assignment; the layout statement must precede it (checked by line order)
    for n in own_nodes(build.node):
        if isinstance(n, ast.Assign) and isinstance(n.targets[0], ast.Tuple) and isinstance(n.value, ast.Tuple) \
                and all(u(v).startswith("self.") for v in n.value.elts):
            for t, v in zip(n.targets[0].elts, n.value.elts):
                if isinstance(t, ast.Name) and t.id not in subb:
                    later = [m.lineno for m in own_nodes(build.node) if isinstance(m, (ast.Assign, ast.AugAssign))
                             and m.lineno > n.lineno and any(isinstance(x, ast.Name) and x.id == t.id and isinstance(x.ctx, ast.Store)
                                                             for x in ast.walk(m))]
                    first_re = min(later) if later else 10 ** 9
                    layout_line = max((m.lineno for m in own_nodes(build.node) if isinstance(m, ast.Assign)
                                       and any(isinstance(x, ast.Name) and isinstance(x.ctx, ast.Load) and x.id == t.id for x in ast.walk(m.value))
                                       and m.lineno < first_re and "torch.zeros" not in u(m.value)), default=0)
                    if layout_line < first_re:
                        subb[t.id] = v
    subk = _single_assign_subst(kern)
    ub, uk = u_name(build, bbuf["ids"]), u_name(kern, "ids")
    alloc_nodes = {}
    for n in own_nodes(build.node):
        if isinstance(n, ast.Assign) and isinstance(n.value, ast.Call) and call_name(n.value) == "torch.zeros" \
                and isinstance(n.targets[0], ast.Name) and n.value.args:
            alloc_nodes[n.targets[0].id] = n.value.args[0]
    ob = u(alloc_nodes.get(bbuf["offsets"])) if bbuf["offsets"] in alloc_nodes else None
    ok_name = next((k for k, v in subk.items() if u(v) == "offsets.numel()"), None)
    shift_k = next((k for k, v in subk.items() if isinstance(v, ast.IfExp)), None)
    if ob is None or ok_name is None or shift_k is None:
        raise AnalysisError("C06: cannot recover O / shift roles in the builder or the kernel")

    def mk(sub, keep_out, ren_extra):
        def ren(s_):
            s_ = _ren(s_)
            for a, b_ in ren_extra.items():
                s_ = s_ if s_ != a else b_
            return s_
        return Normalizer(rename=ren, subst={k: v for k, v in sub.items() if k not in keep_out})

    nzb = mk(subb, {ob}, {ob: "O"})
    nzk = mk(subk, {ok_name, shift_k}, {ok_name: "O", shift_k: "shift"})
    Ub, Uk = pstr(nzb.poly(ast.Name(id=ub, ctx=ast.Load()))), pstr(nzk.poly(ast.Name(id=uk, ctx=ast.Load())))
    col.ob("G12", "S3", f"{rel}::layout::U(builder==kernel)", Ub == Uk,
           f"the builder places n-gram ids at offset U = {Ub}, the kernel reads them at U = {Uk}", rel, kern.line,
           sample=dict(builder=Ub, kernel=Uk))
    # sizes: builder allocates torch.zeros(<size>) for each buffer; kernel asserts (ids, logps, logbs) sizes
    alloc = {name: pstr(nzb.poly(alloc_nodes[loc])) for name, loc in bbuf.items() if loc in alloc_nodes}
    asserted = {}
    for n in own_nodes(kern.node):
        if isinstance(n, ast.Assert) and isinstance(n.test, ast.Compare) and isinstance(n.test.left, ast.Tuple) \
                and isinstance(n.test.comparators[0], ast.Tuple):
            for l, r in zip(n.test.left.elts, n.test.comparators[0].elts):
                for l_, r_ in ((l, r), (r, l)):  # either side may hold the .numel() calls
                    if isinstance(l_, ast.Call) and isinstance(l_.func, ast.Attribute) and l_.func.attr == "numel":
                        asserted[u(l_.func.value)] = pstr(nzk.poly(r_))
    col.floor("kernel_asserted_sizes", len(asserted), 3)
    for buf in ("ids", "logps", "logbs"):
        a, b = alloc.get(buf), asserted.get(buf)
        col.ob("G12", "S3", f"{rel}::layout::size({buf})(builder==kernel)", a is not None and a == b,
               f"the builder allocates `{buf}` with {a} entries, the kernel expects {b}", rel, kern.line,
               sample=dict(buffer=buf, builder=a, kernel=b))
    col.ob("G12", "S3", f"{rel}::layout::size(offsets)==size(logbs)", alloc.get("offsets") == alloc.get("logbs"),
           f"offsets has {alloc.get('offsets')} entries but logbs {alloc.get('logbs')}", rel, build.line)
    col.ob("G12", "S3", f"{rel}::{KERNEL}::O=offsets.numel()", ok_name is not None,
           "the kernel's O is not offsets.numel()", rel, kern.line)
    # shift: three definitions agree - as a truth table: every conditional expression over (sos, vocabulary size) in the kernel, the
    # width inference and the `shift` property evaluates to 0 exactly when 0 <= sos < V (either orientation, De Morgan, ...)
    from sa.inteval import NotEvaluable as _NEs, int_eval as _ies
    shifts = {}
    for f, tag in ((kern, KERNEL), (infer, "_infer_max_direct_descendants"),
                   (pkg.func(f"{MOD}::{CLS}.shift"), "shift")):
        for n in own_nodes(f.node):
            if not isinstance(n, ast.IfExp):
                continue
            names_ = {_ren(u(x)) for x in ast.walk(n.test) if isinstance(x, (ast.Name, ast.Attribute))}
            if not {"sos", "V"} <= names_:
                continue
            try:
                tab = tuple(_ies(n, {"sos": s_, "self.sos": s_, "V": 5, "self.vocab_size": 5}) for s_ in (-2, -1, 0, 2, 4, 5, 7))
            except _NEs:
                tab = "?"
            shifts[tag] = tab
    col.floor("shift_definitions", len(shifts), 2)
    col.ob("G12", "S3", f"{rel}::layout::shift-definitions-agree",
           len(set(shifts.values())) == 1 and set(shifts.values()) == {(1, 1, 0, 0, 0, 1, 1)},
           f"the sos shift for sos in (-2, -1, 0, 2, 4, 5, 7) with a vocabulary of 5 is {shifts}; expected 0 exactly for 0 <= sos < V", rel, kern.line, sample={k: str(v) for k, v in shifts.items()})
    # U in load_state_dict / _infer_max_direct_descendants is the N>1 instance: V + shift + 1
    for f, tag in ((load, "load_state_dict"), (infer, "_infer_max_direct_descendants")):
        cand = None
        for n in own_nodes(f.node):
            if isinstance(n, ast.Assign) and "self.vocab_size" in u(n.value) and isinstance(n.value, ast.BinOp) \
                    and u(n.value).endswith("+ 1"):
                cand = n.value
        if cand is None and tag == "load_state_dict":
            # (the constant itself may have no name: what matters is where the walk over the levels STARTS - at the dummy node that
            #  follows the V + shift unigram nodes, i.e. at U - 1 = V + shift)
            from sa.inline import Inliner as _InlU
            rdl, start = ReachingDefs(f.node), None
            inl_u = _InlU(f.node, rdl)
            for w_ in own_nodes(f.node):
                if isinstance(w_, ast.While):
                    for x_ in ast.walk(w_):
                        if isinstance(x_, ast.Subscript) and isinstance(x_.slice, ast.Name) and isinstance(x_.ctx, ast.Load) and "offsets" in u(x_.value):
                            ds_ = [d_ for d_ in rdl.defs_of(x_.slice) if d_.line < w_.lineno and d_.value is not None]
                            if len(ds_) == 1:
                                start = inl_u.expand(ds_[0].value)
            if start is None:
                raise AnalysisError(f"C06: neither the unigram count U nor the start of the level walk was found in {tag}")
            nz = Normalizer(rename=_ren)
            s_ = _ren(pstr(nz.poly(start))).replace("0 if 0 <= sos < V else 1", "shift")
            col.ob("G12", "S3", f"{W(tag)}::U=V+shift+1", sorted(s_.split(" + ")) == ["V", "shift"],
                   f"{tag} starts its walk over the levels at {s_}; the dummy node that closes the unigram level sits at U - 1 = V + shift", rel, f.line, sample=s_)
            continue
        if cand is None:
            raise AnalysisError(f"C06: the unigram count U (vocab_size + shift + 1) was not found in {tag}")
        nz = Normalizer(rename=_ren)
        s_ = _ren(pstr(nz.poly(cand))).replace("0 if 0 <= sos < V else 1", "shift")
        col.ob("G12", "S3", f"{W(tag)}::U=V+shift+1", sorted(s_.split(" + ")) == ["1", "V", "shift"],
               f"{tag} uses U = {s_}; the builder's layout for order > 1 is V + shift + 1", rel, cand.lineno, sample=s_)

    # the child-scan window: srange = <arange(E)>[:S] must be able to hold the largest fan-out. The builder's
    # _infer_max_direct_descendants asserts S < U = V + shift + 1, shift <= 1, so S <= V + 1: the extent E must be >= V + 1
    rdk = ReachingDefs(kern.node)
    okw = None
    for n in own_nodes(kern.node):
        if isinstance(n, ast.Subscript) and isinstance(n.slice, ast.Slice) and n.slice.lower is None \
                and n.slice.upper is not None and u(n.slice.upper) == "S" and isinstance(n.value, ast.Name):
            for d in rdk.defs_of(n.value):
                v = d.value
                if isinstance(v, ast.Call) and call_name(v) == "torch.arange" and v.args:
                    ext = nzk.poly(v.args[0])
                    diff = padd(ext, nzk.poly(ast.parse("V + 1", mode="eval").body), -1)
                    from sa.norm import const_of
                    c = const_of(diff)
                    okw = c is not None and c >= 0
                    col.ob("G23", "S3", f"{rel}::{KERNEL}::child-window-extent>=V+1", okw,
                           f"`{u(n)}` takes S entries from an index range of extent {pstr(ext)}; a node can have up to "
                           f"V + 1 children (every vocabulary token plus an out-of-vocabulary start symbol), so the "
                           f"window is silently truncated and the last child is never examined", rel, n.lineno,
                           sample=dict(window=u(n), extent=pstr(ext)))
    if okw is None:
        raise AnalysisError("C06: the child-scan window (arange(...)[:S]) was not found in the kernel")
    rdi = ReachingDefs(infer.node)
    asserts = [u(n.test) for n in own_nodes(infer.node) if isinstance(n, ast.Assert)]
    okas = False
    retn = [st for st, _ in rdi.return_envs]
    for n in own_nodes(infer.node):
        if isinstance(n, ast.Assert) and isinstance(n.test, ast.Compare) and len(n.test.ops) == 1 \
                and isinstance(n.test.ops[0], ast.Lt) and isinstance(n.test.comparators[0], ast.Name):
            ud = rdi.derives(n.test.comparators[0])
            if any("vocab_size" in u(e) for e in ud.exprs) and any(
                    isinstance(x, ast.Name) and x.id == u(n.test.left) for r_ in retn if r_.value is not None for x in ast.walk(r_.value)):
                okas = True
    # the child counts are differences of adjacent offsets over one block of nodes [a, b): offsets[a+1:b] (+1) - offsets[a:b-1].
    # Both windows must be the block shifted by one, and the block must end at a node boundary (the cursor / the end of the
    # first level), not one short of it - else the last node's children are not counted and the kernel's window is too narrow
    nzw = Normalizer()
    nwin, badwin = 0, []
    from sa.inline import Inliner as _InlW6
    # cursors (names of the node-scan loop's test, and what is assigned to them) are the rule's vocabulary: they stay names
    cursors = {x.id for w_ in own_nodes(infer.node) if isinstance(w_, ast.While) for x in ast.walk(w_.test) if isinstance(x, ast.Name)}
    for st_ in own_nodes(infer.node):
        if isinstance(st_, ast.Assign) and len(st_.targets) == 1 and isinstance(st_.targets[0], ast.Name) and st_.targets[0].id in cursors \
                and isinstance(st_.value, ast.Name):
            cursors.add(st_.value.id)
    _inl_w6 = _InlW6(infer.node, rdi, keep={a.arg for a in infer.node.args.args} | cursors)
    cands6, seen6 = [], set()
    for st_ in own_nodes(infer.node):
        if isinstance(st_, (ast.Assign, ast.AugAssign, ast.Return, ast.Expr)) and getattr(st_, "value", None) is not None:
            for x in ast.walk(_inl_w6.expand(st_.value)):
                if isinstance(x, ast.BinOp) and u(x) not in seen6:
                    seen6.add(u(x))
                    cands6.append(x)
    for n in cands6:
        if isinstance(n, ast.BinOp) and isinstance(n.op, ast.Sub) and isinstance(n.right, ast.Subscript) and isinstance(n.right.slice, ast.Slice):
            lefts = [x for x in ast.walk(n.left) if isinstance(x, ast.Subscript) and isinstance(x.slice, ast.Slice) and u(x.value) == u(n.right.value)]
            if len(lefts) != 1:
                continue
            s1, s2 = lefts[0].slice, n.right.slice
            zero = ast.Constant(value=0)
            lo1, hi1, lo2, hi2 = s1.lower or zero, s1.upper, s2.lower or zero, s2.upper
            if hi1 is None or hi2 is None:
                continue
            nwin += 1
            from sa.norm import const_of
            dlo = const_of(padd(nzw.poly(lo1), nzw.poly(lo2), -1))
            dhi = const_of(padd(nzw.poly(hi1), nzw.poly(hi2), -1))
            ok_ = dlo == 1 and dhi == 1 and isinstance(hi1, ast.Name) and hi1.id in cursors and isinstance(lo2, (ast.Name, ast.Constant))
            if not ok_:
                badwin.append(n)
    col.floor("adjacent_offset_windows", nwin, 1)
    col.ob("G12", "S3", f"{W('_infer_max_direct_descendants')}::child-count-windows-cover-their-block", not badwin,
           (f"`{u(badwin[0])[:90]}` is not offsets[a+1:b] - offsets[a:b-1] over a whole block of nodes [a, b): the children of the "
            f"block's last node are not counted, max_direct_descendants is too small and listed n-grams ending in that token are "
            f"silently backed off") if badwin else "", rel, badwin[0].lineno if badwin else infer.line, sample=nwin)
    col.ob("G23", "S3", f"{W('_infer_max_direct_descendants')}::asserts-S<U", okas,
           f"_infer_max_direct_descendants asserts {asserts}; the bound S < U justifies the kernel's window", rel, infer.line)

    # ---- S4 load_state_dict: every derived attribute and buffer is (re)assigned -----------------------
    regs = [c.args[0].value for c in own_calls(init.node) if isinstance(c.func, ast.Attribute)
            and c.func.attr == "register_buffer" and c.args and isinstance(c.args[0], ast.Constant)]
    col.floor("registered_buffers", len(regs), 4)
    req = None
    for n in own_nodes(load.node):
        if isinstance(n, ast.Set) and all(isinstance(x, ast.Constant) for x in n.elts) and len(n.elts) >= 3:
            req = {x.value for x in n.elts}
    col.ob("G13", "S4", f"{W('load_state_dict')}::required-keys==registered-buffers", req == set(regs),
           f"load_state_dict requires {sorted(req or [])}; registered buffers are {sorted(regs)}", rel, load.line)
    derived = ("max_ngram", "max_ngram_nodes", "max_direct_descendants")

    def ev(n):
        if isinstance(n, (ast.Assign, ast.AugAssign)):
            tgts = n.targets if isinstance(n, ast.Assign) else [n.target]
            for t in tgts:
                for x in ([t] if not isinstance(t, ast.Tuple) else t.elts):
                    if isinstance(x, ast.Attribute) and u(x.value) == "self":
                        if isinstance(n, ast.Assign) and len(tgts) > 1 or isinstance(t, ast.Tuple):
                            pass
                        return "SET:" + x.attr
        if isinstance(n, ast.Call) and isinstance(n.func, ast.Attribute) and n.func.attr == "load_state_dict" \
                and isinstance(n.func.value, ast.Call) and call_name(n.func.value) == "super":
            return "SUPER"
        return None

    # chained assignment `self.a = b = v` sets only self.a; handled since we return on first self target
    paths = PathEnumerator(ev, loop_iters=(0, 1, 2), exc_edges=False).paths(load.node.body)
    col.floor("load_state_dict_paths", len(paths), 4)
    bad = None
    nret = 0
    for p in paths:
        if p.exit == "raise":
            continue
        nret += 1
        labs = p.labels()
        if "SUPER" not in labs:
            bad = bad or (p, "does not call super().load_state_dict")
            continue
        before = labs[: labs.index("SUPER")]
        for a in derived:
            if "SET:" + a not in before:
                bad = bad or (p, f"self.{a} is not assigned before the buffers are loaded")
        for bname in regs:
            if "SET:" + bname not in before:
                bad = bad or (p, f"buffer `{bname}` is not re-allocated to the incoming size before loading")
    col.ob("G10", "S4", f"{W('load_state_dict')}::definite-assignment", bad is None and nret >= 2,
           (f"a non-raising path {bad[1]}: " + bad[0].describe()[:300]) if bad else "", rel, load.line,
           sample=dict(paths=len(paths), non_raising=nret))
    # each re-allocation takes its shape (and dtype) from the same-named incoming tensor
    rdl = ReachingDefs(load.node)
    for n in own_nodes(load.node):
        if isinstance(n, ast.Assign) and isinstance(n.targets[0], ast.Attribute) and u(n.targets[0].value) == "self" \
                and n.targets[0].attr in regs and isinstance(n.value, ast.Call):
            a = n.targets[0].attr
            src = None
            if n.value.args:
                a0 = n.value.args[0]
                src = u(a0)
                if isinstance(a0, ast.Name):
                    for d in rdl.defs_of(a0):
                        v = d.value
                        if isinstance(v, ast.Subscript) and u(v.value) == "state_dict" and isinstance(v.slice, ast.Constant):
                            src = v.slice.value
                if call_name(n.value) not in ("torch.empty_like", "torch.zeros_like"):
                    src = f"{call_name(n.value)}({src})"
            col.ob("G13", "S4", f"{W('load_state_dict')}::realloc({a})<-{src}", src == a,
                   f"buffer `{a}` is re-allocated like `{src}`", rel, n.lineno, sample=u(n))

    # nothing computed while loading reads the OLD contents of a buffer: until super().load_state_dict() has copied the incoming
    # tensors, `self.<buffer>` still holds what the receiving instance had (nothing, for a freshly constructed one). Direct reads
    # (other than of device / dtype) and reads inside a method of the class called with the corresponding argument left at its
    # default (`self._infer_max_direct_descendants()` falls back to `self.offsets`) both count.
    from sa.specialise import NOT_NONE as _NOT_NONE, specialise as _spec_l
    sup = [n for n in own_nodes(load.node) if isinstance(n, ast.Call) and isinstance(n.func, ast.Attribute) and n.func.attr == "load_state_dict"
           and isinstance(n.func.value, ast.Call) and call_name(n.func.value) == "super"]
    sup_line = min((n.lineno for n in sup), default=10 ** 9)
    pml = parent_map(load.node)

    def _content_reads(root, regs_):
        pm_ = parent_map(root)
        out_ = []
        for x in ast.walk(root):
            if isinstance(x, ast.Attribute) and isinstance(x.ctx, ast.Load) and u(x.value) == "self" and x.attr in regs_:
                par = pm_.get(x)
                if isinstance(par, ast.Attribute) and par.attr in ("device", "dtype"):
                    continue
                out_.append(x)
        return out_
    stale = [(x, None) for x in _content_reads(load.node, regs) if x.lineno < sup_line]
    n_calls = 0
    cls_l = pkg.cls(f"{MOD}::{CLS}")
    for c in own_calls(load.node):
        if not (isinstance(c.func, ast.Attribute) and u(c.func.value) == "self" and c.lineno < sup_line):
            continue
        ms = res.find_method(cls_l, c.func.attr)
        if not ms:
            continue
        g_ = ms[0]
        try:
            b_ = bind_args(c, g_, True)
        except Exception:
            continue
        n_calls += 1
        consts = {}
        for p_ in g_.params:
            if p_.name == "self":
                continue
            if p_ in b_.defaulted:
                if isinstance(p_.default, ast.Constant):
                    consts[p_.name] = p_.default.value
            else:
                a_ = b_.arg_for(p_.name)
                if isinstance(a_, ast.Constant):
                    consts[p_.name] = a_.value
                elif a_ is not None:
                    consts[p_.name] = _NOT_NONE  # (an incoming tensor handed over explicitly)
        try:
            view, _ = _spec_l(g_.node, consts, allow_reassigned=tuple(consts), inline_tests=True)
        except Exception:
            view = g_.node
        for x in _content_reads(view, regs):
            stale.append((x, c))
    col.floor("methods_called_while_loading", n_calls, 1)
    col.ob("G10", "S4", f"{W('load_state_dict')}::nothing-reads-the-old-buffers", not stale,
           (f"`{u(stale[0][1])[:70]}` reads `self.{stale[0][0].attr}` (argument left at its default)" if stale and stale[0][1] is not None else
            (f"`self.{stale[0][0].attr}` is read at line {stale[0][0].lineno}" if stale else "")) +
           " before super().load_state_dict() has copied the incoming tensors: the value is computed from the receiving instance's old "
           "table (empty for a freshly constructed model), so the loaded model does not answer like the saved one", rel,
           (stale[0][1].lineno if stale and stale[0][1] is not None else (stale[0][0].lineno if stale else load.line)),
           sample=dict(calls=n_calls, stale=len(stale)))

    # ---- S5 one code path -------------------------------------------------------------------------------
    full = pkg.func(f"{MOD}::{CLS}.calc_full_log_probs")
    rets = [st for st, _ in ReachingDefs(full.node).return_envs]
    chf = pkg.func(f"{MOD}::{CLS}.calc_full_log_probs_chunked")
    ok5 = False
    if len(rets) == 1 and isinstance(rets[0].value, ast.Call) and u(rets[0].value.func) == "self.calc_full_log_probs_chunked":
        b5 = bind_args(rets[0].value, chf, True)  # positional or by keyword
        ok5 = [u(b5.arg_for(p_.name)) if b5.arg_for(p_.name) is not None else None for p_ in chf.params[1:4]] == ["hist", "prev", "1"]
    col.ob("G16", "S5", f"{W('calc_full_log_probs')}::=chunked(hist, prev, 1)", ok5,
           "calc_full_log_probs is not calc_full_log_probs_chunked(hist, prev, 1): 'all at once' and 'in chunks' "
           "would be different code", rel, full.line, sample=u(rets[0].value) if rets else None)

    # ---- S5' the chunked windows: element (i, r, b) of the strided view is hist[t + r - Nm1 + i, b] -------------------
    if not _chunked_windows_table(ctx, rel):
        _strided_windows(ctx, rel)
    _sos_renamed_in_every_order(ctx, rel)
    _history_window_table(ctx, rel)
    _table_is_copied_before_it_is_completed(ctx, rel)
    _sos_compared_before_the_narrow_cast(ctx, rel)
    _arpa_table(ctx)

    _offset_width_headroom(ctx, rel)
    _arpa_numeric_grammar(ctx)
    _arpa_base_conversion(ctx)
    _kernel_returns_no_view_of_the_tables(ctx, rel)

    # ---- S6 unsigned numpy scalars ------------------------------------------------------------------------
    ni = NarrowInt(build)
    fs = ni.findings()
    col.count("narrowint_ctor_vars", len(ni.ctor_vars))
    col.ob("G21", "S6", f"{W('_build_trie')}::unsigned-ctor-tracked", len(ni.ctor_vars) >= 1,
           "no possibly-unsigned NumPy scalar constructor found in _build_trie (rule would be vacuous)", rel,
           build.line, nontrivial=False)
    names = sorted({nm for _, k, nm in fs if k in ("decrement", "subtract", "negate")} &
                   {nm for _, k, nm in fs if k == "sign-test"})
    col.ob("G21", "S6", f"{W('_build_trie')}::unsigned-scalar-decremented-and-sign-tested", not names,
           f"`{names[0] if names else ''}` may hold an unsigned NumPy scalar (np.uint8(...) read back from the parents "
           f"table; under NumPy 2 `uint8 + int` stays uint8), is decremented and then tested with `>= 0`: 0 - 1 wraps "
           f"to 255 instead of ending the loop (IndexError / wrong trie)", rel,
           [n.lineno for n, k, nm in fs if nm in names][0] if names else build.line,
           sample=[(k, nm, n.lineno) for n, k, nm in fs])
    plumbing(ctx, "S2")
    return dict(
        explanation=(
            "Decides for C06: (S1) parse_arpa_lm forwards every option on its path entry point; (S2) the 11 kernel "
            "arguments bind to the same-named model fields; (S3) builder and kernel agree on the buffer layout "
            "(U = V + shift + (1 % N), |ids| = O + G - U, |logps| = O + G, |logbs| = |offsets| = O), the three "
            "definitions of the sos shift agree, load_state_dict/_infer use the order>1 instance of U; (S4) on every "
            "non-raising path load_state_dict assigns the three derived attributes and re-allocates the four "
            "registered buffers (= required keys) from the same-named incoming tensors before delegating; (S5) "
            "calc_full_log_probs is the chunk-size-1 instance of the chunked code, and element (i, j) of the chunked code's "
            "strided history window is hist[t + j // B - Nm1 + i, j % B] relative to hist's own storage offset, with "
            "min(T, N - 1) rows and min(chunk, T + 1 - t) * B columns [F22 repaired]; (S6) no possibly-unsigned NumPy "
            "scalar is decremented and sign-tested without widening [F14, repaired]. NOT decided: the back-off "
            "recursion, trie layout, strided evaluation (index arithmetic over runtime tables)."),
        decided=["S1", "S2", "S3", "S4", "S5", "S6"],
        not_decided=["Katz back-off recursion values", "trie layout for all sparsity patterns", "chunked == full values"],
        assumptions=["NumPy 2 (NEP 50) promotion: uint8 scalar + python int stays uint8"],
    )


def _sos_renamed_in_every_order(ctx: Ctx, rel: str):
    """S10: a start symbol outside the vocabulary is stored under the id `vocab_size`; the kernel pads histories with that id, so an
    n-gram of ANY order whose key contains the start symbol must be re-keyed - one left under the old id is never found again and
    the model backs off where the table lists a value. The orders visited by the re-keying (the unigram table by its index, the
    others by the loop's range) are evaluated for tables of order 1..5: every order 0..N-1 must be visited."""
    from sa.inteval import NotEvaluable, int_eval
    col, pkg = ctx.col, ctx.pkg
    build = pkg.func(f"{MOD}::{CLS}._build_trie")
    where = f"{rel}::{CLS}._build_trie"
    table = build.params[1].name if len(build.params) > 1 else None
    blocks = [n for n in own_nodes(build.node) if isinstance(n, ast.If) and u(n.test) in ("self.shift", "self.shift == 1", "self.shift > 0", "self.shift != 0")]
    blocks = [b for b in blocks if any(isinstance(c, ast.Call) and isinstance(c.func, ast.Attribute) and c.func.attr == "pop" for c in ast.walk(b))]
    if table is None or len(blocks) != 1:
        raise AnalysisError(f"C06: the re-keying block `if self.shift:` of _build_trie was not found ({len(blocks)})")
    blk = blocks[0]
    pm = parent_map(blk)
    # aliases of one order's table: `prob_dict = prob_dicts[n]`
    alias = {}
    for n in ast.walk(blk):
        if isinstance(n, ast.Assign) and len(n.targets) == 1 and isinstance(n.targets[0], ast.Name) and isinstance(n.value, ast.Subscript) \
                and u(n.value.value) == table:
            alias[n.targets[0].id] = n.value.slice
    visits = []  # (index expression, enclosing range loops)
    for n in ast.walk(blk):
        if isinstance(n, ast.Call) and isinstance(n.func, ast.Attribute) and n.func.attr == "pop":
            tgt = n.func.value
            idx = None
            if isinstance(tgt, ast.Subscript) and u(tgt.value) == table:
                idx = tgt.slice
            elif isinstance(tgt, ast.Name) and tgt.id in alias:
                idx = alias[tgt.id]
            if idx is None:
                continue
            loops = []
            q = pm.get(n)
            while q is not None:
                if isinstance(q, ast.For):
                    loops.append(q)
                q = pm.get(q)
            visits.append((idx, loops, n))
    col.floor("sos_rekey_sites", len(visits), 2)
    bad = None
    try:
        for N in (1, 2, 3, 4, 5):
            env0 = {"self.max_ngram": N, "N": N, f"len({table})": N}
            got = set()
            for idx, loops, _ in visits:
                envs = [dict(env0)]
                for lp in reversed(loops):
                    if not (isinstance(lp.iter, ast.Call) and call_name(lp.iter) == "range" and isinstance(lp.target, ast.Name)):
                        if any(isinstance(x, ast.Name) and isinstance(lp.target, ast.Name) and x.id == lp.target.id for x in ast.walk(idx)):
                            raise NotEvaluable(f"loop `{u(lp.iter)[:40]}`")
                        continue
                    nxt = []
                    for e_ in envs:
                        args = [int_eval(a, e_) for a in lp.iter.args]
                        for i_ in range(*args):
                            e2 = dict(e_)
                            e2[lp.target.id] = i_
                            nxt.append(e2)
                    envs = nxt
                for e_ in envs:
                    got.add(int_eval(idx, e_))
            if got != set(range(N)) and bad is None:
                bad = (N, sorted(got))
    except NotEvaluable as e:
        col.undecided(f"{where}: the orders visited by the start-symbol re-keying are outside the evaluated fragment ({e})")
        return
    col.ob("G12", "S10", f"{where}::start-symbol-rekeyed-in-every-order", bad is None,
           (f"for a table of order {bad[0]} the start symbol is re-keyed in the orders {bad[1]} (0-based) only: an n-gram of a skipped order "
            f"that contains the start symbol keeps the old id, the kernel (which pads with vocab_size) never finds it and backs off instead") if bad else "",
           rel, blk.lineno, sample=dict(sites=len(visits)))


def _sos_compared_before_the_narrow_cast(ctx: Ctx, rel: str):
    """S11b: the history is cast to the (narrow) id type of the trie - uint8 for small vocabularies - AFTER the out-of-vocabulary start
    symbol has been re-keyed to the id V: compared after the cast, a start symbol such as 256 wraps to 0 and every real token 0 of the
    history is read as the start symbol. Def-use: the tensor compared with `sos` does not derive from a `.to(<tensor>.dtype)` cast."""
    col, pkg = ctx.col, ctx.pkg
    kern = pkg.func(f"{MOD}::{KERNEL}")
    rd = ReachingDefs(kern.node)
    sosn = next((p_.name for p_ in kern.params if p_.name == "sos"), None)
    if sosn is None:
        raise AnalysisError("C06: the kernel has no sos formal")
    sites = []
    for n in own_nodes(kern.node):
        recv = None
        if isinstance(n, ast.Call) and isinstance(n.func, ast.Attribute) and n.func.attr in ("eq", "ne") and len(n.args) == 1 and u(n.args[0]) == sosn:
            recv = n.func.value
        elif isinstance(n, ast.Compare) and len(n.ops) == 1 and isinstance(n.ops[0], (ast.Eq, ast.NotEq)) and sosn in (u(n.left), u(n.comparators[0])):
            recv = n.comparators[0] if u(n.left) == sosn else n.left
        if recv is None or isinstance(recv, ast.Constant):
            continue
        casts = [c for c in list(rd.derives(recv).calls()) + [x for x in ast.walk(recv) if isinstance(x, ast.Call)]
                 if isinstance(c.func, ast.Attribute) and c.func.attr in ("to", "type") and any(isinstance(a_, ast.Attribute) and a_.attr == "dtype" for a_ in c.args)]
        sites.append((n, casts))
    col.floor("sos_comparisons_in_the_kernel", len(sites), 1)
    bad = [(n, cs) for n, cs in sites if cs]
    col.ob("G21", "S11", f"{rel}::{KERNEL}::start-symbol-compared-before-the-narrow-cast", not bad,
           (f"`{u(bad[0][0])[:60]}` compares the history with the start symbol after `{u(bad[0][1][0])[:40]}`: in the trie's narrow id type an "
            f"out-of-vocabulary start symbol wraps around (256 -> 0) and real tokens of the history are taken for it") if bad else "", rel,
           bad[0][0].lineno if bad else kern.line, sample=len(sites))


def _history_window_table(ctx: Ctx, rel: str):
    """S11 by value: the head of the kernel - up to the statement that selects the context window, in its scalar-index and its
    per-element-index arm - is interpreted over exact values (sa/interp.py + sa/teval.py): for a history of 5 steps x 2 sequences with
    distinct tokens, orders N = 2, 3, 4, every scalar index 0..5 (as a 0-dimensional and as a one-element tensor) and several index
    vectors, the selected window must be the N - 1 tokens that END just before the index, left-padded with the start symbol:
    rows idx-(N-1) .. idx-1 of the history, NOT the newest N - 1 rows of what was passed ('one index at a time' and 'a different index
    per batch element' give the numbers of 'all positions at once')."""
    import copy
    import numpy as np
    from fractions import Fraction
    from sa.interp import Interp
    from sa.inteval import NotEvaluable
    from sa.teval import frac_array
    col, pkg = ctx.col, ctx.pkg
    kern = pkg.func(f"{MOD}::{KERNEL}")
    where = f"{rel}::{KERNEL}"
    hname = kern.params[0].name
    body = list(kern.node.body)
    cut = None
    for i_, st in enumerate(body):
        if isinstance(st, ast.If) and st.orelse and all(any(isinstance(x, ast.Assign) and any(isinstance(t_, ast.Name) and t_.id == hname for t_ in x.targets)
                                                              for x in ast.walk(ast.Module(body=arm, type_ignores=[]))) for arm in (st.body, st.orelse)):
            cut = i_
    if cut is None:
        raise AnalysisError("C06: the window selection (scalar / per-element index arms) of the kernel was not found")
    head = copy.copy(kern.node)
    head.body = body[:cut + 1] + [ast.Return(value=ast.Name(id=hname, ctx=ast.Load()))]
    names = [p_.name for p_ in kern.params]
    T, B, V, SOS = 5, 2, 50, -1
    hist = np.array([[10 * t_ + b_ + 1 for b_ in range(B)] for t_ in range(T)])
    bad, rows = None, 0
    try:
        for N in (2, 3, 4):
            O, G = 9, 5
            U = V + 1 + 1
            def _zero_dim(v_):
                a_ = np.empty((), dtype=object)
                a_[()] = Fraction(v_)
                return a_
            cases = [("scalar", _zero_dim(i_)) for i_ in range(T + 1)] + [("one-element", frac_array([i_])) for i_ in range(T + 1)] \
                + [("vector", frac_array(v_)) for v_ in ([1, 4], [5, 0], [3, 3], [0, 0], [2, 5])]
            for kind_, idx in cases:
                env = dict(zip(names, (frac_array(hist.tolist()), idx, frac_array([0] * O), frac_array([0] * (O + G - U if O + G - U > 0 else 0)),
                                       frac_array([0] * (O + G)), frac_array([0] * O), SOS, V, N, G, 3)))
                # buffer sizes that satisfy the kernel's own size assertion whatever they are: answered by the leaf

                def leaf(x, env_):
                    if isinstance(x, ast.Call) and isinstance(x.func, ast.Attribute) and x.func.attr == "numel" and isinstance(x.func.value, ast.Name) \
                            and x.func.value.id in names[2:6]:
                        return {names[2]: O, names[3]: O + G - U, names[4]: O + G, names[5]: O}[x.func.value.id]
                    return None
                iv = [int(v_) for v_ in np.asarray(idx).reshape(-1).tolist()]
                idx_before, hist_before = list(iv), env[names[0]].tolist()
                iv = iv * B if len(iv) == 1 else iv
                kind, got = Interp(leaf=leaf, tensors=True).run(head, env)
                rows += 1
                padded = np.concatenate([np.full((N - 1, B), SOS), hist], 0)
                if kind == "return" and ([int(v_) for v_ in np.asarray(idx).reshape(-1).tolist()] != idx_before or frac_array(hist.tolist()).tolist() != hist_before):
                    # (the caller keeps using both: shallow fusion hands ONE index tensor to two models, the prefix search a view of its lengths)
                    kind, got = "modifies", f"the caller's index tensor in place: {idx_before} became {[int(v_) for v_ in np.asarray(idx).reshape(-1).tolist()]}"
                want = np.stack([padded[i_: i_ + N - 1, b_] for b_, i_ in enumerate(iv)], 1)
                ok = kind == "return" and hasattr(got, "shape") and tuple(got.shape) == (N - 1, B) and [[int(v_) for v_ in r_] for r_ in np.asarray(got).tolist()] == want.tolist()
                if not ok and bad is None:
                    bad = (N, kind_, iv, np.asarray(got).tolist() if kind == "return" and hasattr(got, "shape") else f"{kind} {got}", want.tolist())
    except NotEvaluable as e:
        col.undecided(f"{where}: the window selection is outside the interpreted fragment ({e})")
        return
    col.floor("history_window_rows", rows, 30)
    col.ob("G12", "S11", f"{where}::context-window-ends-at-the-index", bad is None,
           (f"order {bad[0]}, {bad[1]} index {bad[2]} into a history of {T} steps {hist.T.tolist()} (one row per sequence): the kernel reads the context "
            f"{[[str(v_) for v_ in r_] for r_ in bad[3]] if isinstance(bad[3], list) else bad[3]} (one row per step); the {bad[0] - 1} token(s) before the index, "
            f"start-symbol padded, are {bad[4]}") if bad else "", rel, kern.line, sample=dict(rows=rows))


def _table_is_copied_before_it_is_completed(ctx: Ctx, rel: str):
    """S13: building the trie COMPLETES the n-gram table in place (missing unigrams and suffixes are added, an out-of-vocabulary start
    symbol is re-keyed to the vocabulary size). Unless the caller passed `destructive`, that happens on a copy: the statement that copies
    the dictionaries under `not destructive` precedes every statement that writes into them. Copied later, the model is still right but
    the CALLER's table has been rewritten - evaluated on the table they hold, the back-off recursion no longer agrees with the model, and a
    second model cannot be built from it."""
    col, pkg = ctx.col, ctx.pkg
    f = pkg.func(f"{MOD}::LookupLanguageModel._build_trie")
    where = f"{rel}::{f.qualname}"
    tab = f.params[1].name
    flag = next((p_.name for p_ in f.params[2:] if "destruct" in p_.name), None)
    rd = ReachingDefs(f.node)
    body = list(f.node.body)

    def from_table(e):
        return any(isinstance(x, ast.Name) and x.id == tab for x in ast.walk(e)) or tab in rd.derives(e).params() or any(
            getattr(d_, "name", None) == tab for d_ in rd.derives(e).defs)

    def mutates(st):
        for x in ast.walk(st):
            if isinstance(x, ast.Call) and isinstance(x.func, ast.Attribute) and x.func.attr in ("update", "pop", "popitem", "clear", "setdefault") \
                    and from_table(x.func.value):
                return x
            if isinstance(x, ast.Subscript) and isinstance(x.ctx, (ast.Store, ast.Del)) and from_table(x.value):
                return x
        return None
    copy_at = None
    for i_, st in enumerate(body):
        if isinstance(st, ast.If) and flag is not None and flag in {x.id for x in ast.walk(st.test) if isinstance(x, ast.Name)}:
            for x in ast.walk(st):
                if isinstance(x, ast.Assign) and any(isinstance(t_, ast.Name) and t_.id == tab for t_ in x.targets) and any(
                        isinstance(c_, ast.Call) and (call_name(c_).split(".")[-1] in ("copy", "deepcopy", "dict")) for c_ in ast.walk(x.value)):
                    copy_at = i_ if copy_at is None else copy_at
    first_mut = next(((i_, mutates(st)) for i_, st in enumerate(body) if mutates(st) is not None), None)
    col.floor("table_completion_sites", 0 if first_mut is None else 1, 1)
    ok = copy_at is not None and first_mut is not None and copy_at < first_mut[0]
    col.ob("G10", "S13", f"{where}::caller's-table-copied-before-it-is-completed", ok,
           (f"`{u(first_mut[1])[:70]}` (line {first_mut[1].lineno}) writes into the dictionaries of `{tab}` "
            + ("and nothing copies them under `not " + str(flag) + "`" if copy_at is None else f"before they are copied at line {body[copy_at].lineno}")
            + ": without `destructive` the caller's own table is completed and re-keyed in place") if (first_mut is not None and not ok) else "",
           rel, first_mut[1].lineno if first_mut else f.line)


def _arpa_table(ctx: Ctx):
    """S12 by value: `parse_arpa_lm` is interpreted (sa/pyinterp.py; the `re` and `math` modules of the standard library are called,
    nothing of the repository is) on an ARPA text with a header, three orders, explicit and implicit back-off weights, exponents and a
    leading-dot number - as an open file (a line stream that later loops continue to consume): in base 10 the result is exactly the
    listed entries (implicit back-offs 0, none for the highest order); with to_base_e every number is the listed one times ln 10; a
    token map re-keys the entries. Skipped when outside the interpreted fragment (the structural clauses stand alone)."""
    import math
    from sa.pyinterp import PyInterp, LineStream
    from sa.inteval import NotEvaluable
    col, pkg = ctx.col, ctx.pkg
    mod = pkg.module("_parsing")
    rel = mod.relname
    f = next((st for st in mod.tree.body if isinstance(st, ast.FunctionDef) and st.name == "parse_arpa_lm"), None)
    if f is None:
        raise AnalysisError("C06: parse_arpa_lm not found")
    text = ("some header\n\n\\data\\\nngram 1=3\nngram 2=2\nngram 3=1\n\n\\1-grams:\n-1.5 a -0.25\n-0.75 b\n-2 c -1e-1\n\n"
            "\\2-grams:\n-0.5 a b -0.125\n-.25 b c\n\n\\3-grams:\n-0.0625 a b c\n\n\\end\\\n")
    lines = [l + "\n" for l in text.split("\n")]
    listed = [{"a": (-1.5, -0.25), "b": (-0.75, 0.0), "c": (-2.0, -0.1)}, {("a", "b"): (-0.5, -0.125), ("b", "c"): (-0.25, 0.0)}, {("a", "b", "c"): -0.0625}]
    ids = {"a": 0, "b": 1, "c": 2}
    # the same table over a vocabulary of digit strings: a word that reads as a number is a word, not a back-off weight, when the
    # entry has exactly as many fields as its order
    digits = {"a": "0", "b": "1", "c": "2"}
    text2 = text
    for k_, v_ in digits.items():
        text2 = text2.replace(f" {k_}", f" {v_}")
    lines2 = [l + "\n" for l in text2.split("\n")]
    listed2 = [{(digits[k] if isinstance(k, str) else tuple(digits[x] for x in k)): v for k, v in d.items()} for d in listed]

    def leaf(e, env):
        if isinstance(e, ast.Call) and call_name(e) == "warnings.warn":
            return "warned"
        return None

    def close(a, b):
        if isinstance(a, tuple) and isinstance(b, tuple):
            return len(a) == len(b) and all(close(x, y) for x, y in zip(a, b))
        return isinstance(a, (int, float)) and isinstance(b, (int, float)) and abs(a - b) <= 1e-12 * max(1.0, abs(b))
    names = [a.arg for a in f.args.args]
    bad, n = None, 0
    try:
        for base_e, t2i, lines, listed in [(b_, t_, lines, listed) for b_ in (False, True) for t_ in (None, ids)] + [(False, None, lines2, listed2)]:
            if True:
                scale = math.log(10.0) if base_e else 1.0

                def key(k):
                    if t2i is None:
                        return k
                    return t2i[k] if isinstance(k, str) else tuple(t2i[x] for x in k)
                want = [{key(k): (tuple(x * scale for x in v) if isinstance(v, tuple) else v * scale) for k, v in d.items()} for d in listed]
                env = dict(zip(names, (LineStream(lines), t2i, base_e, float, None)))
                kind, got = PyInterp(leaf=leaf).run(f, env)
                n += 1
                ok = kind == "return" and isinstance(got, list) and len(got) == len(want) and all(
                    isinstance(g, dict) and set(g) == set(w) and all(close(g[k], w[k]) for k in w) for g, w in zip(got, want))
                if not ok and bad is None:
                    bad = (base_e, t2i is not None, got if kind == "return" else f"raises {got}", want)
    except NotEvaluable:
        return
    col.count("arpa_table_rows", n)
    col.ob("G12", "S12", f"{rel}::parse_arpa_lm::entries-table", bad is None,
           (f"with to_base_e={bad[0]}{' and a token map' if bad[1] else ''} the reader returns {str(bad[2])[:300]}; the file lists {str(bad[3])[:300]} "
            f"({'each number times ln 10' if bad[0] else 'base 10, as listed'}; implicit back-off weights are 0, the highest order has none)") if bad else "",
           rel, f.lineno, sample=dict(rows=n))


def _chunked_windows_table(ctx: Ctx, rel: str) -> bool:
    """S5 by value: `calc_full_log_probs_chunked` is interpreted (sa/interp.py + sa/teval.py; the model's one-step scorer is a leaf that
    records the history window and index it is handed) for orders N = 1..4, histories of T = 0, 1, 3, 5 steps x 1 or 2 sequences with
    distinct tokens - contiguous and as a transposed view of a (B, T) tensor - and chunk sizes 1, 2, 3, 100. The calls must be: index
    i with the first i steps for i < min(T, N - 1); then, chunk after chunk (at most chunk_size time steps each), windows whose columns,
    concatenated, are for t = min(T, N - 1) .. T and every sequence b the N - 1 tokens hist[t - (N - 1) .. t - 1, b], all at index
    min(T, N - 1); the result has T + 1 rows. A strided view is evaluated against the receiver's STORAGE, so a view taken of a
    non-contiguous history shows up as wrong windows. False when outside the interpreted fragment."""
    import numpy as np
    from sa.interp import Interp
    from sa.inteval import NotEvaluable
    from sa.teval import frac_array
    col, pkg = ctx.col, ctx.pkg
    f = pkg.func(f"{MOD}::{CLS}.calc_full_log_probs_chunked")
    where = f"{rel}::{CLS}.calc_full_log_probs_chunked"
    names = [p_.name for p_ in f.params[1:]]
    V = 3
    bad, rows = None, 0
    try:
        for N in (1, 2, 3, 4):
            for T in (0, 1, 3, 5):
                for B in (1, 2):
                    hist = np.array([[10 * t_ + b_ + 1 for b_ in range(B)] for t_ in range(T)]).reshape(T, B)
                    for layout in ("contiguous", "a transposed view"):
                        if layout != "contiguous" and (T < 2 or B < 2):
                            continue
                        for chunk in (1, 2, 3, 100):
                            calls = []
                            holder = {}

                            def leaf(x, env):
                                if isinstance(x, ast.Call) and call_name(x) == "self.calc_idx_log_probs" and len(x.args) == 3:
                                    it_ = holder["it"]
                                    h_, idx_ = it_.eval(x.args[0], env), it_.eval(x.args[2], env)
                                    h_ = np.asarray(h_, dtype=object)
                                    calls.append((h_, idx_))
                                    cols = h_.shape[1] if h_.ndim == 2 else B
                                    return (frac_array(np.zeros((cols, V), dtype=int).tolist()) if cols else np.empty((0, V), dtype=object), "<state>")
                                return None
                            it = Interp(leaf=leaf, tensors=True)
                            holder["it"] = it
                            h_in = frac_array(hist.tolist()) if T else np.empty((0, B), dtype=object)
                            if layout != "contiguous":
                                h_in = frac_array(hist.T.tolist()).T
                            env = dict(zip(names, (h_in, "<state>", chunk)))
                            env.update({"self.max_ngram": N, "self.vocab_size": V})
                            kind, got = it.run(f.node, env)
                            rows += 1
                            Nm1 = min(T, N - 1)
                            problem = None
                            if kind != "return" or not hasattr(got, "shape") or tuple(got.shape) != (T + 1, B, V):
                                problem = f"returns {kind} {getattr(got, 'shape', got)}; expected a tensor of shape {(T + 1, B, V)}"
                            else:
                                head, tail = calls[:Nm1], calls[Nm1:]
                                for i_, (h_, idx_) in enumerate(head):
                                    if int(np.asarray(idx_).reshape(-1)[0]) != i_ or h_.shape[0] != i_ or [[int(v_) for v_ in r_] for r_ in h_.tolist()] != hist[:i_].tolist():
                                        problem = problem or f"call {i_} scores index {idx_} on a history of {h_.shape[0]} steps; expected index {i_} on the first {i_} steps"
                                want = np.array([[hist[Nm1 + r_ - Nm1 + i_, b_] for r_ in range(T + 1 - Nm1) for b_ in range(B)] for i_ in range(Nm1)]).reshape(Nm1, (T + 1 - Nm1) * B)
                                if N == 1:
                                    pass  # (no history is read by a unigram model: whatever window it is handed has no rows)
                                if any(h_.ndim != 2 or h_.shape[0] != Nm1 or h_.shape[1] > chunk * B or int(np.asarray(idx_).reshape(-1)[0]) != Nm1 for h_, idx_ in tail):
                                    problem = problem or f"the chunk calls use windows of shapes {[tuple(h_.shape) for h_, _ in tail]} at indices {[str(i_) for _, i_ in tail]}; expected {Nm1} rows, at most {chunk * B} columns, index {Nm1}"
                                elif tail or want.size:
                                    gotw = np.concatenate([h_ for h_, _ in tail], 1) if tail else np.empty((Nm1, 0), dtype=object)
                                    if gotw.shape != want.shape or [[int(v_) for v_ in r_] for r_ in gotw.tolist()] != want.tolist():
                                        problem = problem or f"the windows of the chunks, side by side, are {[[int(v_) for v_ in r_] for r_ in gotw.tolist()]}; the contexts of times {Nm1}..{T} are {want.tolist()}"
                            if problem and bad is None:
                                bad = (N, T, B, layout, chunk, problem)
    except NotEvaluable:
        return False
    col.floor("chunked_window_rows", rows, 60)
    col.ob("G12", "S5", f"{where}::chunk-windows-table", bad is None,
           (f"order {bad[0]}, a history of {bad[1]} steps x {bad[2]} sequence(s) ({bad[3]}), chunk_size={bad[4]}: {bad[5]}") if bad else "", rel, f.line,
           sample=dict(rows=rows))
    return True


def _strided_windows(ctx: Ctx, rel: str):
    """calc_full_log_probs_chunked scores T_rest time steps at once through `hist.as_strided((Nm1, T_rest * B), (B, 1),
    off)`: column r * B + b, row i of the view must be the token that the one-step code reads for time t + r, i.e.
    hist[t + r - Nm1 + i, b], whose offset from hist's own start is (t + r - Nm1 + i) * B + b."""
    from sa import minmax as MM
    col, pkg = ctx.col, ctx.pkg
    f = pkg.func(f"{MOD}::{CLS}.calc_full_log_probs_chunked")
    rd = ReachingDefs(f.node)
    views = [c for c in own_calls(f.node) if isinstance(c.func, ast.Attribute) and c.func.attr == "as_strided" and len(c.args) == 3]
    if len(views) != 1:
        raise AnalysisError("C06: calc_full_log_probs_chunked no longer builds exactly one strided view")
    v = views[0]
    recv = u(v.func.value)

    # the time cursor: the variable of `for t in range(Nm1, T + 1, chunk)` or of the equivalent `t = Nm1; while t < T + 1: ...; t += chunk`
    while_cursors = set()
    for w_ in own_nodes(f.node):
        if isinstance(w_, ast.While):
            tested = {x.id for x in ast.walk(w_.test) if isinstance(x, ast.Name)}
            stepped = {x.target.id for x in ast.walk(w_) if isinstance(x, ast.AugAssign) and isinstance(x.target, ast.Name)}
            while_cursors |= tested & stepped

    def leaf_of_def(d):
        if d.kind == "for":
            return "t"
        if d.kind in ("assign", "aug") and d.name in while_cursors:
            return "t"
        if d.kind == "param" and d.name == f.params[-1].name:
            return "C"
        if d.kind == "unpack" and isinstance(d.value, ast.Attribute) and d.value.attr == "shape" and d.slot:
            return ("T", "B")[d.slot[0]] if d.slot[0] < 2 else None
        return None

    def leaf_of_expr(e):
        if isinstance(e, ast.Call) and isinstance(e.func, ast.Attribute) and e.func.attr == "storage_offset" and u(e.func.value) == recv:
            return "OFF0"
        if isinstance(e, ast.Attribute) and u(e) == "self.max_ngram":
            return "N"
        return None
    # strides written in terms of the SHAPE ((B, 1) for a (T, B) tensor) describe the storage only of a contiguous tensor: every
    # definition of the receiver that reaches the view must be `<x>.contiguous()` or a freshly built tensor. (A transposed or
    # sliced history - hist.t(), hist[:, ::2] - has other strides; the view would then read tokens of other steps / sequences.)
    fresh = ("torch.cat", "torch.stack", "torch.zeros", "torch.ones", "torch.empty", "torch.full", "torch.arange", "torch.tensor")
    if isinstance(v.func.value, ast.Name):
        defs = rd.defs_of(v.func.value)
        not_contig = [d for d in defs if not (d.kind == "assign" and isinstance(d.value, ast.Call)
                                              and ((isinstance(d.value.func, ast.Attribute) and d.value.func.attr == "contiguous")
                                                   or call_name(d.value) in fresh))]
        shape_strides = not any(isinstance(x, ast.Call) and isinstance(x.func, ast.Attribute) and x.func.attr == "stride" for x in ast.walk(v.args[1]))
        if shape_strides:
            col.ob("G12", "S5", f"{rel}::{CLS}.calc_full_log_probs_chunked::strided-window-over-contiguous-storage", bool(defs) and not not_contig,
                   f"`{u(v)[:70]}` takes its strides from the shape, which is right only for a contiguous tensor, but `{recv}` may be "
                   f"{', '.join(sorted({d.kind + (':' + u(d.value)[:30] if d.value is not None else '') for d in not_contig}))} here: for a "
                   f"transposed or strided history the windows hold tokens of other steps", rel, v.lineno, sample=[d.kind for d in defs])
    ex = MM.Extractor(rd, leaf_of_def, leaf_of_expr)
    size, stride, off = v.args
    ok = isinstance(size, ast.Tuple) and isinstance(stride, ast.Tuple) and len(size.elts) == 2 and len(stride.elts) == 2
    if not ok:
        raise AnalysisError("C06: strided view is not 2-dimensional")
    try:
        s0, s1, o = ex.term(stride.elts[0]), ex.term(stride.elts[1]), ex.term(off)
        n0, n1 = ex.term(size.elts[0]), ex.term(size.elts[1])
    except MM.Unknown as e:
        col.undecided(f"C06: strided view of calc_full_log_probs_chunked: {e}")
        return
    lin = ("add", ("add", o, ("mul", ("leaf", "i"), s0)), ("mul", ("leaf", "j"), s1))

    def grid():
        for N in (1, 2, 3, 4):
            for T in range(0, 6):
                Nm1 = min(T, N - 1)
                for B in (1, 2, 3):
                    for t in range(Nm1, T + 1):
                        for i in range(0, max(Nm1, 1)):
                            for j in range(0, 2 * B):
                                for OFF0 in (0, 7):
                                    for C in (1, 2, 5):
                                        yield dict(N=N, T=T, B=B, t=t, i=i, j=j, OFF0=OFF0, C=C)

    def want(vv):
        Nm1 = min(vv["T"], vv["N"] - 1)
        if vv["i"] >= Nm1:
            return None
        r, b = divmod(vv["j"], vv["B"])
        return vv["OFF0"] + (vv["t"] + r - Nm1 + vv["i"]) * vv["B"] + b
    env, g, w, n = MM.counterexample(lin, want, grid())
    col.ob("G12", "S5", f"{rel}::{CLS}.calc_full_log_probs_chunked::strided-window-element", env is None and n > 0,
           f"element (i, j) of the strided view lies at storage position `{MM.show(lin)[:200]}`; the history window of time "
           f"t + j // B needs hist[t + j // B - Nm1 + i, j % B], i.e. storage_offset + (t + j // B - Nm1 + i) * B + j % B; "
           f"they differ e.g. at {env}: {g} vs {w}", rel, v.lineno, sample=dict(term=MM.show(lin)[:200], grid_points=n))
    env, g, w, n = MM.counterexample(n0, lambda vv: min(vv["T"], vv["N"] - 1), grid())
    col.ob("G12", "S5", f"{rel}::{CLS}.calc_full_log_probs_chunked::strided-window-rows", env is None,
           f"the view has `{MM.show(n0)}` rows; the one-step code reads min(T, N - 1) history rows", rel, v.lineno)
    env, g, w, n = MM.counterexample(n1, lambda vv: min(vv["C"], vv["T"] + 1 - vv["t"]) * vv["B"], grid())
    col.ob("G12", "S5", f"{rel}::{CLS}.calc_full_log_probs_chunked::strided-window-columns", env is None,
           f"the view has `{MM.show(n1)}` columns; a chunk covers min(chunk_size, T + 1 - t) time steps of B sequences "
           f"(differs at {env}: {g} vs {w})", rel, v.lineno)


def _offset_width_headroom(ctx: Ctx, rel: str):
    """S7: the integer width of `offsets` is selected for the bound B = max_n(len(level n) + len(level n-1) + c). Every
    level's dummy node stores `len(level n) + 1`; with a single node in level n-1 (always possible) this needs
    B >= len(level n) + 1, i.e. c >= 0. (The back-fill `offsets[i - 1] = offsets[i] + 1` needs the same headroom: the
    hop from a childless node over the next level's dummy is len(n-1) + len(n).)"""
    col, pkg = ctx.col, ctx.pkg
    build = pkg.func(f"{MOD}::{CLS}._build_trie")
    rd = ReachingDefs(build.node)
    # the bound: max(<len(D[n]) + len(D[n - 1]) + c> for n in ...)
    bound = None
    for n in own_nodes(build.node):
        if isinstance(n, ast.Assign) and isinstance(n.value, ast.Call) and call_name(n.value) == "max" and n.value.args \
                and isinstance(n.value.args[0], ast.GeneratorExp):
            ge = n.value.args[0]
            elt = ge.elt
            lens_ = [c for c in ast.walk(elt) if isinstance(c, ast.Call) and call_name(c) == "len"]
            if lens_ and len(ge.generators) == 1 and isinstance(ge.generators[0].target, ast.Name):
                bound = (n, elt, lens_, ge.generators[0].target.id)
    if bound is None:
        raise AnalysisError("C06: the offset-width bound of _build_trie was not found")
    n_assign, elt, lens_, gv = bound
    # the bound as a polynomial over LEVEL[0] = len(level n) and LEVEL[-1] = len(level n - 1)
    nz = Normalizer(rename=lambda s_: s_)
    import copy as _copy
    from sa.norm import const_of, patom
    e2 = _copy.deepcopy(elt)
    undec = []

    class _R(ast.NodeTransformer):
        def visit_Call(self, node):
            if call_name(node) == "len" and len(node.args) == 1 and isinstance(node.args[0], ast.Subscript):
                off = const_of(padd(nz.poly(node.args[0].slice), patom(gv), -1))
                if off is not None and off in (0, -1):
                    return ast.Name(id="LEVEL_n" if off == 0 else "LEVEL_nm1", ctx=ast.Load())
            if call_name(node) == "len":
                undec.append(u(node))
            return self.generic_visit(node)
    e2 = _R().visit(e2)
    pb = nz.poly(e2)
    if undec or any(len(k) > 1 or (k and k[0] not in ("LEVEL_n", "LEVEL_nm1")) for k in pb):
        col.undecided(f"C06: the offset-width bound `{u(elt)}` is not linear in the two level sizes")
        return
    cn, cm = pb.get(("LEVEL_n",), 0), pb.get(("LEVEL_nm1",), 0)
    c = pb.get((), 0)
    if cn < 1 or cm < 1:
        col.ob("G21", "S7", f"{rel}::{CLS}._build_trie::offset-width-covers-the-dummy-hop", False,
               f"the width of `offsets` is chosen for `{u(elt)}`, which does not dominate len(level n) + len(level n-1): the hop "
               f"from a childless node over the next level's dummy is that sum, so with many contexts and few continuations per "
               f"context the back-fill wraps in the narrow type and later n-grams are attached to the wrong parents", rel,
               n_assign.lineno, sample=dict(bound=u(elt)))
        return
    # the dummy store: offsets[allocated] = len(<level>) + k
    dummy = None
    for n in own_nodes(build.node):
        if isinstance(n, ast.Assign) and isinstance(n.targets[0], ast.Subscript) and isinstance(n.value, ast.BinOp) \
                and isinstance(n.value.op, ast.Add) and any(isinstance(x, ast.Call) and call_name(x) == "len" for x in ast.walk(n.value)):
            k = [x.value for x in (n.value.left, n.value.right) if isinstance(x, ast.Constant) and isinstance(x.value, int)]
            if k:
                dummy = (n, k[0])
    if dummy is None or c is None:
        col.undecided("C06: offset bound or dummy-offset store of _build_trie not in the expected additive form")
        return
    need = dummy[1] - 1  # B = L_n + L_{n-1} + c >= L_n + k with L_{n-1} >= 1  <=>  c >= k - 1
    col.ob("G21", "S7", f"{rel}::{CLS}._build_trie::offset-width-covers-the-dummy-hop", c >= need,
           f"the width of `offsets` is chosen for `{u(elt)}` = len(level n) + len(level n-1) + ({c}), but each level's dummy node "
           f"stores `{u(dummy[0].value)}` and the back-fill adds one more to a full hop: with len(level n-1) == 1 (or a total of "
           f"exactly 256 / 32768) the value does not fit - the constructor raises, or the offset wraps to 0 and every longer "
           f"n-gram under that node silently backs off", rel, n_assign.lineno, sample=dict(bound=u(elt), constant=c, dummy=u(dummy[0].value)))


def _arpa_numeric_grammar(ctx: Ctx):
    """S8: an ARPA entry is `<log-prob> <tokens...> [<back-off>]`. parse_arpa_lm reads the back-off with the float
    constructor but recognises the log-probability with a regular expression; both columns hold the same kind of number,
    so the expression must accept what the float constructor accepts for the usual spellings (printf %e always signs the
    exponent; -inf is what the lookup model itself stores for a missing entry). The pattern is a string constant of the
    source; it is compiled here and probed with literals - no code of the repository is run."""
    import re as _re
    col, pkg = ctx.col, ctx.pkg
    f = pkg.func("_parsing::parse_arpa_lm")
    rel = f.module.relname
    pats = []
    for n in own_nodes(f.node):
        if isinstance(n, ast.Call) and call_name(n) == "re.compile" and n.args and isinstance(n.args[0], ast.Constant) \
                and isinstance(n.args[0].value, str) and n.args[0].value.endswith("\\s+(.*)$"):
            pats.append(n)
    uses_float = any(isinstance(c, ast.Call) and isinstance(c.func, ast.Name) and c.func.id in ("ftype", "float") for c in own_calls(f.node))
    if len(pats) != 1 or not uses_float:
        raise AnalysisError("C06: the entry pattern / float conversion of parse_arpa_lm was not found")
    rx = _re.compile(pats[0].args[0].value)
    probes = ["-1.5", "-1.5e-03", "-1.5e+00", "-2.302585E+00", "-inf", "-.5", "-1.", "0", "-99"]
    rejected = [p for p in probes if not rx.match(f"{p} a b")]
    col.ob("G13", "S8", f"{rel}::parse_arpa_lm::both-numeric-columns-use-one-grammar", not rejected,
           f"the log-probability column is recognised by `{pats[0].args[0].value}`, which rejects {rejected} although the back-off "
           f"column (float constructor) accepts them: an ARPA file written with %e, or containing -inf, raises IOError 'line ... "
           f"is not valid' instead of yielding its entries", rel, pats[0].lineno, sample=dict(rejected=rejected, probes=probes))


def _kernel_returns_no_view_of_the_tables(ctx: Ctx, rel: str):
    """S9: the lookup kernel receives the model's registered buffers. A result that is a pure view of one of them
    (slice / expand / view without an arithmetic or copying step) lets the caller's in-place edit of the *result*
    rewrite the table, after which every later query - and the saved state - is wrong."""
    from sa.defuse import ReachingDefs
    col, pkg = ctx.col, ctx.pkg
    kern = pkg.func(f"{MOD}::{KERNEL}")
    rd = ReachingDefs(kern.node)
    bufs = {p.name for p in kern.params} & {"logps", "logbs", "ids", "offsets"}
    VIEW = {"expand", "expand_as", "view", "reshape", "unsqueeze", "squeeze", "t", "transpose", "narrow", "select", "permute"}

    def pure_view(e, depth=0):
        if depth > 8:
            return None
        if isinstance(e, ast.Name):
            if e.id in bufs and all(d.kind == "param" for d in rd.defs_of(e)):
                return e.id
            ds = list(rd.defs_of(e))
            if len(ds) == 1 and ds[0].kind == "assign" and ds[0].value is not None:
                return pure_view(ds[0].value, depth + 1)
            return None
        if isinstance(e, ast.Subscript):
            return pure_view(e.value, depth + 1)
        if isinstance(e, ast.Call) and isinstance(e.func, ast.Attribute) and e.func.attr in VIEW:
            return pure_view(e.func.value, depth + 1)
        return None
    bad = []
    nret = 0
    for n in own_nodes(kern.node):
        if isinstance(n, ast.Return) and n.value is not None:
            nret += 1
            vals = n.value.elts if isinstance(n.value, ast.Tuple) else [n.value]
            for v in vals:
                b = pure_view(v)
                if b:
                    bad.append((n, b, u(v)))
    col.ob("G29", "S9", f"{rel}::{KERNEL}::result-is-not-a-view-of-a-table", nret >= 1 and not bad,
           f"`return {bad[0][2] if bad else ''}` hands out a view of the model's `{bad[0][1] if bad else ''}` buffer: an in-place edit "
           f"of the returned log-probabilities rewrites the table (the unigram model then answers every later query, and saves, "
           f"the edited numbers)", rel, bad[0][0].lineno if bad else kern.line, sample=[b[2] for b in bad])



def _arpa_base_conversion(ctx: Ctx):
    """S8: with to_base_e every number read from the file - the log-probability AND the back-off weight - is converted
    (divided by log10(e)); converting one column and not the other yields a table that is neither base-10 nor natural."""
    col, pkg = ctx.col, ctx.pkg
    f = pkg.func("_parsing::parse_arpa_lm")
    rel = f.module.relname
    rd = ReachingDefs(f.node)
    flag = [p.name for p in f.params if p.name == "to_base_e"]
    if not flag:
        raise AnalysisError("C06: parse_arpa_lm lost its to_base_e option")

    pm_arpa = parent_map(f.node)

    def from_flag(e):
        if "to_base_e" in rd.derives(e).params() or any(isinstance(x, ast.Name) and x.id == "to_base_e" for x in ast.walk(e)):
            return True
        # chosen by a branch on the flag (`if to_base_e: norm = ... else: norm = ...`)
        from sa.astutil import guards_of as _go
        for x in ast.walk(e):
            if isinstance(x, ast.Name) and isinstance(x.ctx, ast.Load):
                for d in rd.defs_of(x):
                    st_ = getattr(d, "stmt", None)
                    if st_ is not None and any(any(isinstance(y, ast.Name) and y.id == "to_base_e" for y in ast.walk(t)) for t, _ in _go(pm_arpa, st_)):
                        return True
        return False

    def zero(e):
        return (isinstance(e, ast.Constant) and e.value == 0) or (isinstance(e, ast.Call) and len(e.args) == 1 and not e.keywords
                                                                  and isinstance(e.args[0], ast.Constant) and e.args[0].value == 0)

    def converted(e, depth=0):
        if depth > 8:
            return False
        if isinstance(e, ast.BinOp) and isinstance(e.op, ast.Div) and from_flag(e.right):
            return True
        if isinstance(e, ast.BinOp) and isinstance(e.op, ast.Mult) and (from_flag(e.right) or from_flag(e.left)):
            return True
        if zero(e):
            return True
        if isinstance(e, ast.Tuple):
            return all(converted(x, depth + 1) for x in e.elts)
        if isinstance(e, ast.IfExp):
            return converted(e.body, depth + 1) and converted(e.orelse, depth + 1)
        if isinstance(e, ast.Name):
            ds = [d for d in rd.defs_of(e)]
            return bool(ds) and all(d.kind == "assign" and d.value is not None and converted(d.value, depth + 1) for d in ds)
        return False
    # the stores into the tables that are returned (`dict_ = prob_dicts[ngram - 1]; dict_[tokens] = ...`)
    ret_names = {x.id for r in own_nodes(f.node) if isinstance(r, ast.Return) and r.value is not None for x in ast.walk(r.value)
                 if isinstance(x, ast.Name)}
    stores = []
    for n in own_nodes(f.node):
        if isinstance(n, ast.Assign) and len(n.targets) == 1 and isinstance(n.targets[0], ast.Subscript) \
                and isinstance(n.targets[0].value, ast.Name):
            base = n.targets[0].value
            if not (base.id in ret_names or rd.derives(base).names() & ret_names):
                continue
            comps = list(n.value.elts) if isinstance(n.value, ast.Tuple) else [n.value]
            stores.append((n, comps))
    bad = [(n, c) for n, comps in stores for c in comps if not converted(c)]
    col.ob("G13", "S8", f"{rel}::parse_arpa_lm::every-stored-number-is-base-converted", bool(stores) and not bad,
           f"`{u(bad[0][0])[:90] if bad else ''}` stores `{u(bad[0][1]) if bad else ''}` without dividing by the to_base_e "
           f"normaliser: with to_base_e=True that column stays in base 10 while the other is natural", rel,
           bad[0][0].lineno if bad else f.line, sample=[u(n)[:90] for n, _ in stores])
    col.floor("arpa_number_stores", len(stores), 1)
    # every number of an entry is determined by that entry's own line: a variable that the line loop (conditionally) re-assigns
    # and that is stored into a table must not be reachable from a definition outside the loop body - else an entry that omits
    # its back-off inherits the one of an earlier line
    pm_f = parent_map(f.node)
    stale = []
    for n, comps in stores:
        loop = pm_f.get(n)
        while loop is not None and not isinstance(loop, (ast.For, ast.While)):
            loop = pm_f.get(loop)
        if loop is None:
            continue
        inside = {id(x) for st_ in loop.body for x in ast.walk(st_)} | {id(loop)}  # (the loop target is bound per line)
        for c in comps:
            # every definition the stored value derives from (directly or through temporaries such as `value = (value, logb / norm)`),
            # grouped by variable
            # judged per USE: a read (in the stored value or in a definition it derives from) that can see both a definition inside the
            # loop body and one outside it. (Grouping by variable name would merge unrelated uses of a re-used name such as `match`.)
            uses = [x for x in ast.walk(c) if isinstance(x, ast.Name) and isinstance(x.ctx, ast.Load)]
            for nd_ in rd.derives(c).nodes():
                uses.extend(x for x in ast.walk(nd_) if isinstance(x, ast.Name) and isinstance(x.ctx, ast.Load))
            seen_ = set()
            for x in uses:
                if id(x) in seen_ or id(x) not in inside:
                    continue  # (a read outside the line loop - the block header - naturally sees the previous block's last line)
                seen_.add(id(x))
                ds = [d for d in rd.defs_of(x) if d.kind == "assign" and getattr(d, "stmt", None) is not None]
                if any(id(d.stmt) in inside for d in ds) and any(id(d.stmt) not in inside for d in ds):
                    stale.append((n, x.id))
    col.ob("G16", "S8", f"{rel}::parse_arpa_lm::entry-values-come-from-the-entry's-own-line", not stale,
           (f"`{stale[0][1]}` is stored by `{u(stale[0][0])[:70]}` but can still hold a value assigned before the line loop / for an "
            f"earlier line: an n-gram that omits its back-off weight (implicit 0) is stored with the previous entry's weight") if stale else "",
           rel, stale[0][0].lineno if stale else f.line, sample=len(stores))


def _mutants():
    from selftest.mutate import Mutant as M
    L = "_lm.py"
    return [
        M("offset-bound-one-level", L, "max_potential_offset = max((len(prob_dicts[n]) + len(prob_dicts[n - 1]) for n in range(1, N)))", "max_potential_offset = max((len(prob_dicts[n]) + 1 for n in range(1, N)))", "offset-width-covers-the-dummy-hop"),
        M("backoff-not-converted", "_parsing.py", "dict_[tokens] = (ftype(logp) / norm, logb / norm)", "dict_[tokens] = (ftype(logp) / norm, logb)", "every-stored-number-is-base-converted"),
        M("unigram-returns-table-view", "_lm.py", "return last_logps.expand(B, V).clone()", "return last_logps.expand(B, V)", "result-is-not-a-view-of-a-table"),
        M("arpa-unsigned-exponent-only", "_parsing.py", "ngram_entry_pattern = re.compile('^([-+]?(?:(?:\\\\d+\\\\.?\\\\d*|\\\\.\\\\d+)(?:[Ee][-+]?\\\\d+)?|inf))\\\\s+(.*)$')", "ngram_entry_pattern = re.compile('^(-?\\\\d+(?:\\\\.\\\\d+)?(?:[Ee]-?\\\\d+)?)\\\\s+(.*)$')", "both-numeric-columns-use-one-grammar"),
        M("offset-width-one-short", "_lm.py", "max_potential_offset = max((len(prob_dicts[n]) + len(prob_dicts[n - 1]) for n in range(1, N)))", "max_potential_offset = max((len(prob_dicts[n]) + len(prob_dicts[n - 1]) - 1 for n in range(1, N)))", "offset-width-covers-the-dummy-hop"),
        M("window-stride-one-row-short", "_lm.py", "hist.as_strided((Nm1, T_rest * B), (B, 1), hist.storage_offset() + B * (t - Nm1))", "hist.as_strided((Nm1, T_rest * B), (B, 1), hist.storage_offset() + B * (t - Nm1 + 1))", "chunk-windows-table"),
        M("window-strides-swapped", "_lm.py", "hist.as_strided((Nm1, T_rest * B), (B, 1), hist.storage_offset() + B * (t - Nm1))", "hist.as_strided((Nm1, T_rest * B), (1, B), hist.storage_offset() + B * (t - Nm1))", "chunk-windows-table"),
        M("last-chunk-overruns", "_lm.py", "T_rest = min(chunk_size, T + 1 - t)", "T_rest = chunk_size", "chunk-windows-table"),
        M("strided-view-absolute-offset", "_lm.py", "hist.storage_offset() + B * (t - Nm1)", "B * (t - Nm1)", "strided-view-offset-relative-to-receiver"),
        M("drop-int-widening", L, "parent = int(parents[prefix]) + last_start", "parent = parents[prefix] + last_start",
          "unsigned-scalar-decremented"),
        M("kernel-N-G-swapped", L, "self.vocab_size, self.max_ngram, self.max_ngram_nodes, self.max_direct_descendants)",
          "self.vocab_size, self.max_ngram_nodes, self.max_ngram, self.max_direct_descendants)", "G1/S2"),
        M("kernel-logps-logbs-swapped", L, "self.logps, self.logbs, self.sos", "self.logbs, self.logps, self.sos", "G1/S2"),
        M("kernel-U-off", L, "U = V + shift + 1 % N\n    I, P", "U = V + shift + 1\n    I, P", "layout::U"),
        M("builder-P-off", L, "I, P = (O + G - U, O + G)\n        if N > 1:", "I, P = (O + G - U, O + G + 1)\n        if N > 1:", "layout::size(logps)"),
        M("load-skip-realloc", L, "self.logbs = torch.empty_like(logbs, device=self.logbs.device)", "pass", "definite-assignment"),
        M("load-skip-max-ngram", L, "self.max_ngram_nodes = self.vocab_size + self.shift\n            self.max_ngram = 1",
          "self.max_ngram_nodes = self.vocab_size + self.shift", "definite-assignment"),
        M("load-realloc-wrong-source", L, "self.logbs = torch.empty_like(logbs, device=self.logbs.device)",
          "self.logbs = torch.empty_like(logps, device=self.logbs.device)", "realloc(logbs)"),
        M("load-U-wrong", L, "U = self.vocab_size + self.shift + 1\n            if len(offsets) < U:",
          "U = self.vocab_size + 1\n            if len(offsets) < U:", "load_state_dict::U"),
        M("full-not-chunked", L, "return self.calc_full_log_probs_chunked(hist, prev, 1)",
          "return self.calc_full_log_probs_chunked(hist, prev, hist.size(0))", "=chunked(hist, prev, 1)"),
        M("shift-differs", L, "shift = 0 if 0 <= sos < V else 1", "shift = 0 if 0 < sos < V else 1", "shift-definitions-agree"),
        M("arpa-drop-option", "_parsing.py", "return parse_arpa_lm(f, token2id, to_base_e, ftype, logger)",
          "return parse_arpa_lm(f, token2id, to_base_e, ftype)", "G6/S1"),
        M("child-window-V", L, "vrange = torch.arange(V + 1, device=device, dtype=torch.long)", "vrange = torch.arange(V, device=device, dtype=torch.long)", "child-window-extent"),
        M("twin:reformat", L, "I, P = (O + G - U, O + G)\n        if N > 1:", "I = O + G - U\n        P = O + G\n        if N > 1:", "", twin=True),
    ]


def selftest(ctx: Ctx):
    from selftest.mutate import run_selftest
    return run_selftest("C06", ctx.pkg.repo, _mutants(), floor=10)


MANIFEST = dict(
    level_text=(
        "Static analysis (no execution) of LookupLanguageModel: writer/reader agreement of the flat-buffer layout "
        "constants in polynomial normal form, argument binding of the 11-parameter kernel, definite assignment of "
        "derived attributes and buffer re-allocation on every non-raising path of load_state_dict, single code path "
        "for full/chunked evaluation, path/file re-dispatch of the ARPA reader, and a taint rule for possibly-unsigned "
        "NumPy scalars that are decremented and sign-tested. Necessary conditions of 'same numbers after save/load', "
        "'all at once or in chunks', 'integer width selection'; the back-off recursion itself is not decided."
        " By value: the context window of the kernel for scalar / one-element / per-element indices (51 rows), the ARPA reader on a three-order text in base 10 and e, the orders visited by the start-symbol re-keying. The caller's index tensor and history are unchanged by the window selection (in-place writes reach the interpreter's aliases), and _build_trie copies the caller's table under `not destructive` before any statement that writes into it (statement order of copy and first mutation)."),
    level_note="Trusted: python ast; NumPy 2 promotion rules. F14 (uint8 parent index wraps; the 7 always-failing "
               "baseline tests) was found by G21 and repaired by a fix: commit.",
    technique="static analysis: polynomial normal forms of layout constants, path-based definite assignment, argument binding, numeric-type taint; typestate of the buffers while loading (no read of old contents before the copy, also through defaulted helper arguments); interpretation of the kernel's window selection over exact tensors and of parse_arpa_lm over a line stream (plain-data interpreter over the syntax tree; only re / math of the standard library are called); calc_full_log_probs_chunked interpreted with the one-step scorer as a recording leaf (strided views evaluated against the receiver's storage); copy-before-mutation order rule on the caller's table",
    design_ref="DESIGN.md section 4 C06",
)
