"""C13 epoch samplers: purity (G11), epoch stepping (G10), rank slice / length (G12), modes (G8)."""
from __future__ import annotations

import ast

from rules import enum as R_enum
from rules import pure as R_pure
from sa.astutil import attr_chain, call_name, names_in, u
from sa.defuse import ReachingDefs
from sa.model import AnalysisError, own_calls, own_nodes
from sa.norm import Normalizer, ceil_div, padd, pstr
from sa.paths import PathEnumerator
from .common import Ctx, plumbing

MOD = "_dataloaders"
BASE = "AbstractEpochSampler"
PER_EPOCH = "get_samples_for_epoch_ignoring_distributed"


def run(ctx: Ctx):
    col, pkg, res = ctx.col, ctx.pkg, ctx.res
    rel = pkg.module(MOD).relname
    base = pkg.cls(f"{MOD}::{BASE}")
    subs = [c for c in res.subclasses(base)]
    col.floor("sampler_subclasses", len(subs), 2)
    finals, why_not = R_pure.final_fields(pkg, res, base)
    col.count("final_fields", len(finals))
    if "epoch" in finals:
        raise AnalysisError("C13: `epoch` is classified final although __iter__ advances it")

    # ---- S1 order is a function of (seed, epoch) alone ---------------------------------
    entry = []
    for c in [base] + subs:
        for m in c.methods.get(PER_EPOCH, []):
            entry.append(m)
        for m in c.methods.get("get_samples_for_epoch", []):
            entry.append(m)
    col.floor("per_epoch_functions", len(entry), 4)
    for f0 in entry:
        for f in R_pure.reachable_self_methods(res, f0):
            where = f"{f.module.relname}::{f.qualname}"
            is_abstract = f.has_decorator("abstractmethod")
            rng = R_pure.global_rng_calls(f)
            col.ob("G11", "S1", f"{where}::no-global-rng", not rng,
                   f"the per-epoch order draws from a process-global random source "
                   f"`{rng[0][1] if rng else ''}`: the order depends on how much randomness was consumed before",
                   rel, rng[0][0].lineno if rng else f.line, sample=dict(function=f.qualname, rng=[r[1] for r in rng]))
            for attr, node in R_pure.self_attr_reads(f):
                if f.cls and res.find_method(f.cls, attr):
                    continue  # method reference
                ok = attr in finals
                col.ob("G11", "S1", f"{where}::reads-final(self.{attr})", ok,
                       f"`self.{attr}` is read while computing an epoch's order but is mutable state "
                       f"({why_not.get(attr, 'never assigned in __init__')}): the order is not a function of "
                       f"(seed, epoch) alone", rel, node.lineno, sample=dict(function=f.qualname, attr=attr))
            wr = R_pure.self_attr_writes(f)
            col.ob("G11", "S1", f"{where}::no-self-writes", not wr,
                   f"`self.{wr[0][0] if wr else ''}` is assigned while computing an epoch's order "
                   f"(asking for an epoch's order must not change later answers)", rel,
                   wr[0][1].lineno if wr else f.line, sample=dict(function=f.qualname))
            if is_abstract:
                continue
            params = {p.name for p in f.params}
            for call, seed in R_pure.local_generators(f):
                if seed is None:
                    col.ob("G11", "S1", f"{where}::generator-seeded", False,
                           "a local generator is created without an explicit seed", rel, call.lineno)
                    continue
                rd = ReachingDefs(f.node)
                der = rd.derives(seed)
                free_params = der.params() - {"self"}
                attrs = {n.attr for n in der.nodes() if isinstance(n, ast.Attribute)
                         and isinstance(n.value, ast.Name) and n.value.id == "self"}
                ok_names = free_params <= {"epoch"} and attrs <= finals
                extra_calls = [u(c) for c in der.calls() if c is not call]
                col.ob("G11", "S1", f"{where}::seed-free-names", ok_names and not extra_calls,
                       f"the generator seed `{u(seed)}` depends on {sorted(free_params | {'self.' + a for a in attrs})} "
                       f"{extra_calls}; only final fields and the `epoch` parameter are allowed", rel, call.lineno,
                       sample=dict(seed=u(seed), params=sorted(free_params), attrs=sorted(attrs)))
                col.ob("G11", "S1", f"{where}::seed-uses-epoch-and-base-seed",
                       "epoch" in free_params and "base_seed" in attrs,
                       f"the generator seed `{u(seed)}` does not combine the sampler's base seed with the epoch "
                       f"(documented: seeded with (base_seed, epoch))", rel, call.lineno,
                       sample=dict(seed=u(seed)))
    # the random sampler must use a local generator for its permutation
    rnd = pkg.cls(f"{MOD}::EpochRandomSampler")
    f = res.find_method(rnd, PER_EPOCH)[0]
    gens = R_pure.local_generators(f)
    col.ob("G11", "S1", f"{rel}::EpochRandomSampler.{PER_EPOCH}::has-local-generator", len(gens) >= 1,
           "EpochRandomSampler's per-epoch order is not drawn from a locally seeded generator", rel, f.line)
    rd = ReachingDefs(f.node)
    for st, env in rd.return_envs:
        der = rd.derives(st.value)
        src = [c for c in der.calls() if isinstance(c.func, ast.Attribute) and c.func.attr in
               ("permutation", "shuffle", "choice", "randint", "random", "integers")]
        ok = False
        for c in src:
            recv = rd.derives(c.func.value)
            if any(call_name(cc).split(".")[-1] in ("RandomState", "default_rng") for cc in recv.calls()):
                ok = True
            # the permuted extent must be the data-set size
            if c.func.attr == "permutation" and c.args:
                col.ob("G12", "S3", f"{rel}::EpochRandomSampler.{PER_EPOCH}::permutes-total",
                       u(c.args[0]) == "self.total",
                       f"the epoch order permutes `{u(c.args[0])}`, not the whole data set (self.total)", rel,
                       c.lineno, sample=u(c))
        col.ob("G11", "S1", f"{rel}::EpochRandomSampler.{PER_EPOCH}::returns-local-draw", ok,
               "the returned order does not derive from a draw of the locally seeded generator", rel, st.lineno,
               sample=u(st.value))
    seq = pkg.cls(f"{MOD}::EpochSequentialSampler")
    f = res.find_method(seq, PER_EPOCH)[0]
    for st, env in ReachingDefs(f.node).return_envs:
        rv_ = st.value
        while isinstance(rv_, ast.Call) and call_name(rv_) in ("iter", "list", "tuple") and len(rv_.args) == 1:
            rv_ = rv_.args[0]
        rng_ok = False
        if isinstance(rv_, ast.Call) and call_name(rv_) == "range" and not rv_.keywords:
            from sa.inteval import NotEvaluable as _NEr, int_eval as _ier
            try:
                vals_ = [_ier(a_, {"self.total": 11}) for a_ in rv_.args]
                rng_ok = list(range(*vals_)) == list(range(11))
            except (_NEr, TypeError, ValueError):
                rng_ok = False
        col.ob("G12", "S3", f"{rel}::EpochSequentialSampler.{PER_EPOCH}::range-total", rng_ok,
               f"the sequential order is `{u(st.value)}`, expected range(self.total)", rel, st.lineno,
               sample=u(st.value))

    # ---- S2 __iter__ yields the current epoch, then advances by exactly one ----------------
    it = res.find_method(base, "__iter__")[0]
    where = f"{rel}::{it.qualname}"

    def ev(n):
        if isinstance(n, ast.Call) and isinstance(n.func, ast.Attribute) and n.func.attr == "get_samples_for_epoch" \
                and u(n.func.value) == "self":
            return "GET(" + ",".join(u(a) for a in n.args) + ")"
        if isinstance(n, ast.AugAssign) and u(n.target) == "self.epoch":
            return f"EPOCH{type(n.op).__name__}={u(n.value)}"
        if isinstance(n, ast.Assign) and any(u(t) == "self.epoch" for t in n.targets):
            v_ = n.value  # `self.epoch = self.epoch + 1` is the same advance as `self.epoch += 1`
            if isinstance(v_, ast.BinOp) and isinstance(v_.op, ast.Add) and "self.epoch" in (u(v_.left), u(v_.right)):
                return f"EPOCHAdd={u(v_.right) if u(v_.left) == 'self.epoch' else u(v_.left)}"
            return f"EPOCH:={u(n.value)}"
        return None

    paths = PathEnumerator(ev, keep_all_ifs=True).paths(it.node.body)
    col.floor("iter_paths", len(paths), 1)
    for p in paths:
        labs = p.labels()
        ok = labs in (["GET(self.epoch)", "EPOCHAdd=1"],) and p.exit == "return"
        col.ob("G10", "S2", f"{where}::path", ok,
               f"__iter__ must take the order of `self.epoch` and then advance it by exactly 1; path does {labs}",
               rel, it.line, sample=labs)
        if p.exit == "return":
            rd = ReachingDefs(it.node)
            der = rd.derives(p.exit_node.value)
            okr = any(isinstance(c.func, ast.Attribute) and c.func.attr == "get_samples_for_epoch" for c in der.calls())
            col.ob("G10", "S2", f"{where}::returns-epoch-order", okr,
                   "__iter__ does not return the order computed for the current epoch", rel, p.exit_node.lineno)
    # subclasses must not override __iter__/__len__/get_samples_for_epoch with different logic
    for c in subs:
        for name in ("__iter__", "__len__", "get_samples_for_epoch"):
            col.ob("G10", "S2", f"{rel}::{c.name}::inherits({name})", name not in c.methods,
                   f"{c.name} overrides {name}; the epoch/rank logic is only verified on {BASE}", rel,
                   c.node.lineno, nontrivial=False)

    # ---- S3 rank slice and length ------------------------------------------------------------
    g = res.find_method(base, "get_samples_for_epoch")[0]
    where = f"{rel}::{g.qualname}"
    triple = None
    rdg = ReachingDefs(g.node)
    for st, env in rdg.return_envs:
        v = st.value
        if isinstance(v, ast.Call) and call_name(v).split(".")[-1] == "islice" and len(v.args) == 4:
            triple = (v.args[1], v.args[2], v.args[3])
            src = rdg.derives(v.args[0])
            oks = any(isinstance(c.func, ast.Attribute) and c.func.attr == PER_EPOCH and
                      [u(a) for a in c.args] == ["epoch"] for c in src.calls())
            col.ob("G12", "S3", f"{where}::slices-the-epoch-order", oks,
                   "the rank slice is not taken from get_samples_for_epoch_ignoring_distributed(epoch)", rel,
                   st.lineno, sample=u(v))
        elif isinstance(v, ast.Subscript) and isinstance(v.slice, ast.Slice):
            triple = (v.slice.lower, v.slice.upper, v.slice.step)
    if triple is None:
        raise AnalysisError("C13: cannot find the rank slice (islice / slice subscript) in get_samples_for_epoch")
    from sa.inline import Inliner as _InlG
    inl_g = _InlG(g.node, rdg)
    triple = tuple(inl_g.expand(x) if x is not None else None for x in triple)  # named start / stop / step are looked through
    tnames = [u(x) if x is not None else None for x in triple]
    _table_first = True  # (the partition table below decides the share and the length by value; these two read the spelling and are
    # reported only when the table cannot be built)
    col.ob("G12", "S3", f"{where}::slice-triple", tnames == ["self._rank", "self.effective_total", "self._world_size"] or _table_first,
           f"rank slice is (start, stop, step) = {tnames}; expected (self._rank, self.effective_total, "
           f"self._world_size) for a disjoint exact cover", rel, g.line, sample=tnames)
    ln = res.find_method(base, "__len__")[0]
    rets = [st for st, _ in ReachingDefs(ln.node).return_envs]
    if len(rets) != 1:
        raise AnalysisError("C13: __len__ has several returns")
    from sa.inline import Inliner as _InlL
    cd = ceil_div(_InlL(ln.node).expand(rets[0].value))
    n = Normalizer()
    want = padd(n.poly(triple[1]), n.poly(triple[0]), -1)
    okl = cd is not None and not padd(cd[0], want, -1) and not padd(cd[1], n.poly(triple[2]), -1)
    col.ob("G12", "S3", f"{rel}::{ln.qualname}::ceil((stop-start)/step)", okl or _table_first,
           f"__len__ returns `{u(rets[0].value)}` which is not ceil((stop - start) / step) of the rank slice "
           f"{tnames}" + (f" (normalises to ceil(({pstr(cd[0])}) / ({pstr(cd[1])})))" if cd else ""),
           rel, rets[0].lineno, sample=dict(len=u(rets[0].value), slice=tnames))

    # ---- S4 / S3 __init__: world handling ------------------------------------------------------
    init = res.find_method(base, "__init__")[0]
    where = f"{rel}::{init.qualname}"
    members, cmpd = R_enum.g8_dispatch(pkg, res, col, init, "on_uneven_distributed", "S4", allow_else=0)
    R_enum.g8_validation(pkg, res, col, init, "on_uneven_distributed", "S4", members)
    # __init__ specialised on each mode (tests on the mode folded, also through temporaries); what remains is inspected on
    # expansions, so neither the spelling of the 'in a process group' test nor a named remainder matters
    from sa.astutil import guards_of, parent_map
    from sa.inline import Inliner
    from sa.specialise import specialise

    def _mode_view(mode):
        node, _ = specialise(init.node, {"on_uneven_distributed": mode}, allow_reassigned=("on_uneven_distributed",), inline_tests=True)  # (re-assigned only by its argcheck validator, which returns it)
        return node, parent_map(node), Inliner(node)

    def _targets(st):
        out = []
        for t in st.targets:
            out.extend(t.elts if isinstance(t, ast.Tuple) else [t])
        return [u(t) for t in out]

    def _mentions_remainder(t, inl):
        return "%" in inl.text(t)
    # The partition table (props/c13_table.py): __init__ / get_samples_for_epoch / __len__ interpreted for every mode x process-group
    # state x size, compared with the documented table. Spelling of the in-a-group test, named remainders, helpers: irrelevant.
    from sa.inteval import NotEvaluable
    from .c13_table import SIZES, WORLD, SamplerTable
    modtree = pkg.module(MOD).tree
    src_param = [p_.name for p_ in init.params if p_.name != "self"][0]
    tab = SamplerTable(modtree, base.node, init.node, g.node, ln.node, "on_uneven_distributed", src_param)
    try:
        rows = tab.rows()
    except NotEvaluable as e:
        rows = None
        col.undecided(f"{where}: the sampler constructor / rank share is outside the interpreted fragment ({e})")
        col.ob("G12", "S3", f"{rel}::{g.qualname}::slice-triple[spelling]", tnames == ["self._rank", "self.effective_total", "self._world_size"],
               f"rank slice is (start, stop, step) = {tnames}", rel, g.line)
        col.ob("G12", "S3", f"{rel}::{ln.qualname}::ceil((stop-start)/step)[spelling]", okl, f"__len__ returns `{u(rets[0].value)}`", rel, rets[0].lineno)
    if rows is not None:
        col.floor("sampler_table_rows", len(rows), 100)

        def _bad(pred, cmp_):
            return [r_ for r_ in rows if pred(r_) and not cmp_(r_)]

        def _same(r_, *keys):
            return r_["got"].get("raised") == r_["want"]["raised"] and all(r_["got"].get(k) == r_["want"].get(k) for k in keys if not r_["want"]["raised"])

        def _fmt(r_):
            return (f"mode={r_['mode']!r}, torch.distributed available={r_['available']} initialised={r_['initialised']} group rank={r_['group_rank']} "
                    f"of {WORLD}, {r_['n']} items: got {r_['got']}, documented {r_['want']}")
        in_group = lambda r_: r_["mode"] != "ignore" and r_["available"] and r_["initialised"] and r_["group_rank"] >= 0  # noqa: E731
        specs = [
            ("G12", "S3", "drop-branch", lambda r_: r_["mode"] == "drop" and in_group(r_), lambda r_: _same(r_, "effective", "total"),
             "under 'drop' effective_total is not total - total % world_size (ranks would get unequal counts)"),
            ("G8", "S4", "raise-branch", lambda r_: r_["mode"] == "raise" and in_group(r_), lambda r_: _same(r_, "effective", "total"),
             "under 'raise' an indivisible size does not raise (or a divisible one does)"),
            ("G8", "S4", "uneven-keeps-every-index", lambda r_: r_["mode"] == "uneven" and in_group(r_), lambda r_: _same(r_, "effective", "total"),
             "under 'uneven' the size is reduced or refused: every index must be yielded by exactly one rank"),
            ("G12", "S3", "rank-and-world", lambda r_: in_group(r_), lambda r_: r_["want"]["raised"] or r_["got"].get("raised") or _same(r_, "rank", "world"),
             "in a process group self._rank / self._world_size are not the group's rank / world size"),
            ("G8", "S4", "ignore-excludes-process-group", lambda r_: r_["mode"] == "ignore", lambda r_: _same(r_, "rank", "world", "effective", "total"),
             "under 'ignore' the process group determines rank / world size / size: a rank would get a shard instead of the full epoch"),
            ("G8", "S4", "ignore-fallback", lambda r_: r_["mode"] != "ignore" and not in_group(r_), lambda r_: _same(r_, "rank", "world", "effective", "total"),
             "outside a process group (unavailable, uninitialised, rank < 0) the sampler is not rank 0 of world 1 over the whole data set"),
        ]
        for rule, clause, name, pred, cmp_, why in specs:
            sel = [r_ for r_ in rows if pred(r_)]
            col.floor(f"sampler_table_rows[{name}]", len(sel), 6)
            bad = _bad(pred, cmp_)
            col.ob(rule, clause, f"{where}::{name}", not bad, why + (": " + _fmt(bad[0]) if bad else ""), rel, init.line,
                   sample=dict(rows=len(sel), mismatching=len(bad)))
        # the shares: for every state the reported length is the number of indices the rank yields; over the ranks of a group the
        # shares are disjoint and cover exactly 0 .. effective-1
        badlen = [r_ for r_ in rows if r_["slice"] is not None and r_["len"] != len(r_["slice"])]
        col.ob("G12", "S3", f"{rel}::{ln.qualname}::length-is-the-number-of-indices-yielded", not badlen,
               (f"len() reports {badlen[0]['len']} but the rank yields {len(badlen[0]['slice'])} indices ({_fmt(badlen[0])}): a loader built on "
                f"the sampler announces a number of batches it does not deliver, and replicas disagree") if badlen else "", rel, ln.line,
               sample=dict(rows=sum(1 for r_ in rows if r_["slice"] is not None), mismatching=len(badlen)))
        cover_bad = []
        for mode in ("raise", "drop", "uneven"):
            for n_ in SIZES:
                grp = [r_ for r_ in rows if r_["mode"] == mode and r_["n"] == n_ and in_group(r_) and r_["slice"] is not None]
                if len(grp) != WORLD:
                    continue
                allidx = [i for r_ in grp for i in r_["slice"]]
                eff = grp[0]["want"]["effective"]
                if sorted(allidx) != list(range(eff)) or len({len(r_["slice"]) for r_ in grp}) > (2 if mode == "uneven" else 1):
                    cover_bad.append((mode, n_, [r_["slice"] for r_ in grp], eff))
        col.ob("G12", "S3", f"{rel}::{g.qualname}::rank-shares-partition-the-epoch", not cover_bad,
               (f"mode={cover_bad[0][0]!r}, {cover_bad[0][1]} items over {WORLD} ranks: the ranks yield {cover_bad[0][2]}, which is not a partition "
                f"of 0..{cover_bad[0][3] - 1} into shares of equal size (sizes differing by at most one under 'uneven')") if cover_bad else "", rel, g.line,
               sample=dict(groups=len(SIZES) * 3, bad=len(cover_bad)))
    _seed_domain(ctx)
    _loaders_hand_the_epoch_to_the_sampler(ctx)
    plumbing(ctx, "S4")
    return dict(
        explanation=(
            "Decides for C13: (S1) every function computing an epoch's order (both samplers, all overrides, "
            "transitively through self-calls) draws from no process-global RNG, reads only final fields of "
            "self (fields assigned only in __init__ anywhere in the package), writes no field, and seeds its "
            "local generator from (base_seed, epoch) only; (S2) __iter__ takes the order of self.epoch then "
            "advances it by exactly 1 on its only path; (S3) the rank slice is (rank, effective_total, world) "
            "over the epoch order and __len__ normalises to ceil((stop-start)/step); drop sets effective_total "
            "= total - total % world; (S4) the four uneven-handling modes are validated and dispatched "
            "exhaustively; (S6) the loaders forward init_epoch / seed to the sampler they build on every path, and the reported length of a "
            "bucketed loader counts the rank's share of the current epoch. Disjointness/cover/equal counts follow from the (start, stop, step) triple by "
            "arithmetic. NOT decided: numpy RandomState / islice semantics (trusted)."),
        decided=["S1", "S2", "S3", "S4", "S6"],
        not_decided=["numpy.random.RandomState determinism", "itertools.islice semantics"],
        assumptions=["numpy.random.RandomState(seed).permutation is a deterministic function of seed",
                     "torch.distributed.get_rank/get_world_size are constant during a run"],
    )


def _loaders_hand_the_epoch_to_the_sampler(ctx: Ctx):
    """S6: the property is stated about what a rank is handed per epoch, and users meet the samplers through the loaders. (a) every loader
    constructor that accepts `init_epoch` (or any option its sampler takes under the same name) forwards it on every path to the sampler it
    builds - a loader resumed at epoch k must deliver epoch k's order, not epoch 0's; (b) the length a bucketed loader reports counts the
    RANK's share of the current epoch (`get_samples_for_epoch(sampler.epoch)`): counting the epoch 'ignoring distributed' reports the
    whole epoch on every rank, iterating the sampler itself advances its epoch."""
    from rules.dropped import dropped_options
    from sa.inline import Inliner
    from sa.defuse import ReachingDefs
    col, pkg, res = ctx.col, ctx.pkg, ctx.res
    rel = pkg.module(MOD).relname
    n_ctor = 0
    for cname in ("SpectDataLoader", "LangDataLoader", "SpectEvaluationDataLoader", "SpectTrainingDataLoader", "ContextWindowTrainingDataLoader",
                  "ContextWindowEvaluationDataLoader"):
        try:
            f = pkg.func(f"{MOD}::{cname}.__init__")
        except Exception:
            continue
        n_ctor += 1
        dro = [d_ for d_ in dropped_options(pkg, res, f) if d_["formal"] in ("init_epoch", "seed", "base_seed", "on_uneven_distributed")]
        col.ob("G38", "S6", f"{rel}::{f.qualname}::epoch-and-seed-options-reach-the-sampler", not dro,
               (f"{f.qualname} accepts `{dro[0]['formal']}` but builds {dro[0]['callee']} without it on some path (`{u(dro[0]['node'])[:80]}`): the "
                f"sampler starts from its default, so the order of an epoch depends on how that epoch was reached") if dro else "", rel,
               dro[0]["node"].lineno if dro else f.line)
    col.floor("loader_constructors", n_ctor, 2)
    ln = pkg.func(f"{MOD}::_get_batch_sampler_len")
    rd = ReachingDefs(ln.node)
    inl = Inliner(ln.node, rd)
    bsn = ln.params[0].name
    its = [inl.expand(n.iter) for n in own_nodes(ln.node) if isinstance(n, (ast.comprehension, ast.For))]

    def _base(it):
        t = u(it)
        for wrap in ("iter(", "list(", "tuple("):
            if t.startswith(wrap):
                t = t[len(wrap):]
        return t.startswith(f"{bsn}.sampler") or t == bsn
    its = [it for it in its if _base(it)]
    col.floor("loader_len_sampler_iterations", len(its), 1)
    for it in its:
        ok = isinstance(it, ast.Call) and isinstance(it.func, ast.Attribute) and it.func.attr == "get_samples_for_epoch" \
            and len(it.args) == 1 and u(it.args[0]) == u(it.func.value) + ".epoch"
        col.ob("G16", "S6", f"{rel}::{ln.qualname}::length-counts-the-rank's-share-of-the-current-epoch", ok,
               f"the reported length is counted over `{u(it)[:90]}`; it must be <sampler>.get_samples_for_epoch(<sampler>.epoch) - the rank's own "
               f"share of the epoch the next iteration delivers", rel, it.lineno, sample=u(it)[:100])


MANIFEST = dict(
    level_text=(
        "Static effect/purity analysis + linear-form normalisation (no execution): the per-epoch order "
        "functions of both samplers are pure in (final fields, epoch) with a locally seeded generator; "
        "__iter__ steps the epoch by exactly one after taking the current order; the per-rank slice and "
        "__len__ agree as (rank, effective_total, world) and ceil((stop-start)/step); all four "
        "on_uneven_distributed modes are handled. From these the exact-partition statement follows by "
        "arithmetic over (N, world, rank); numpy/itertools semantics are trusted. At the loader level (S6): every loader constructor forwards init_epoch / seed options to the sampler it builds on every path, and the length a bucketed loader reports counts the rank's own share of the current epoch."),
    level_note="Trusted: python ast, numpy RandomState determinism, itertools.islice. Fields are 'final' if "
               "assigned only in __init__ of the sampler hierarchy and never through another object in the package.",
    technique="static analysis: effect/purity analysis (RNG sources, final fields), reaching definitions, linear normal forms, partial evaluation per uneven-handling mode, integer evaluation of the dropped size on a grid; interpretation of the constructor / rank share / __len__ over the syntax tree at a grid of (mode, process-group state, size) compared with the documented partition table; dropped-option analysis of the loader constructors, iteration-source rule of the loader length",
    design_ref="DESIGN.md section 4 C13, section 3 G11/G12/G8/G10",
)


def _seed_domain(ctx: Ctx):
    """S5: the order of an epoch is np.random.RandomState((base_seed, epoch)).permutation(...). (a) A seed the constructor
    accepts must be one the generator accepts: an upper bound check without a lower bound lets a negative seed through and
    every later iteration raises. (b) The order has to be the same on every rank - the ranks slice one common permutation -
    so the seed must not come from process-local randomness (each rank would draw its own)."""
    from sa.defuse import ReachingDefs
    col, pkg = ctx.col, ctx.pkg
    f = pkg.func("_dataloaders::EpochRandomSampler.__init__")
    rel = f.module.relname
    rd = ReachingDefs(f.node)
    stores = [n for n in own_nodes(f.node) if isinstance(n, ast.Assign) and any(u(t) == "self.base_seed" for t in n.targets)]
    if not stores:
        raise AnalysisError("C13: EpochRandomSampler.__init__ does not store self.base_seed")
    UP = ("argcheck.is_lte", "argcheck.is_lt", "argcheck.is_btw", "argcheck.is_btw_closed", "argcheck.is_btw_open")
    LO = ("argcheck.is_gte", "argcheck.is_gt", "argcheck.is_nonneg", "argcheck.is_nonnegi", "argcheck.is_nat", "argcheck.is_posi",
          "argcheck.is_pos", "argcheck.is_btw", "argcheck.is_btw_closed", "argcheck.is_btw_open", "argcheck.as_nonnegi", "argcheck.as_nat")
    # one store after the branches, or one per branch: every stored value that comes from the caller's seed is bounded on both
    # sides; the calls behind all stored values together are searched for process-local randomness
    calls, upper, lower, n_user = [], True, True, 0
    pname = "base_seed"
    for st_ in stores:
        der = rd.derives(st_.value)
        cs = [call_name(c) for c in der.calls()] + [call_name(c) for c in ast.walk(st_.value) if isinstance(c, ast.Call)]
        calls += cs
        from_user = pname in der.params() or any(isinstance(x, ast.Name) and x.id == pname and any(d.kind == "param" for d in rd.defs_of(x))
                                                 for x in ast.walk(st_.value))
        if from_user:
            n_user += 1
            upper = upper and any(c in UP for c in cs)
            lower = lower and any(c in LO for c in cs)
    upper, lower = upper and n_user > 0, lower and n_user > 0
    col.ob("G3", "S5", f"{rel}::EpochRandomSampler.__init__::seed-bounded-on-both-sides", upper and lower,
           f"`base_seed` is validated by {sorted(set(c for c in calls if c.startswith('argcheck.')))}: bounded above but not below, so "
           f"EpochRandomSampler(ds, base_seed=-1) is constructed and every iteration then raises 'Seed must be between 0 and "
           f"2**32 - 1'", rel, stores[0].lineno, sample=sorted(set(calls)))
    rng = [c for c in calls if c.startswith(("torch.rand", "torch.randint", "random.", "np.random.", "numpy.random."))]
    shared = any(c.startswith("torch.distributed.broadcast") or c.endswith("broadcast_object_list") for c in [call_name(x) for x in own_calls(f.node)])
    col.ob("G11", "S5", f"{rel}::EpochRandomSampler.__init__::default-seed-is-common-to-all-ranks", not rng or shared,
           f"with base_seed omitted the seed is drawn by {sorted(set(rng))} in each process and never broadcast: the ranks of a "
           f"distributed group permute with different seeds and their slices neither are disjoint nor cover the epoch", rel,
           stores[0].lineno, sample=sorted(set(rng)))


def _mutants():
    from selftest.mutate import Mutant as M
    T = "_dataloaders.py"
    return [
        M("bucket-length-ignores-the-rank", "_dataloaders.py", "batch_sampler.sampler.get_samples_for_epoch(batch_sampler.sampler.epoch)", "batch_sampler.sampler.get_samples_for_epoch_ignoring_distributed(batch_sampler.sampler.epoch)", "length-counts-the-rank"),
        M("seed-unbounded-below", "_dataloaders.py", "base_seed = argcheck.is_nonneg(base_seed, 'base_seed')\n", "", "seed-bounded-on-both-sides"),
        M("random-sampler-drops-mode", "_dataloaders.py", "super().__init__(data_source, init_epoch, on_uneven_distributed)", "super().__init__(data_source, init_epoch)", "super().__init__-forwards-shared-options"),
        M("seed-reads-self-epoch", T, "np.random.RandomState((self.base_seed, epoch))",
          "np.random.RandomState((self.base_seed, self.epoch))", "reads-final(self.epoch)"),
        M("global-permutation", T, "shuffled = rs.permutation(self.total)",
          "shuffled = np.random.permutation(self.total)", "no-global-rng"),
        M("torch-randperm", T, "shuffled = rs.permutation(self.total)",
          "shuffled = torch.randperm(self.total).tolist()", "no-global-rng"),
        M("seed-without-epoch", T, "np.random.RandomState((self.base_seed, epoch))",
          "np.random.RandomState((self.base_seed, 0))", "seed-uses-epoch-and-base-seed"),
        M("epoch-step-2", T, "self.epoch += 1", "self.epoch += 2", "G10/S2"),
        M("epoch-step-before", T, "ret = self.get_samples_for_epoch(self.epoch)\nself.epoch += 1",
          "self.epoch += 1\nret = self.get_samples_for_epoch(self.epoch)", "G10/S2"),
        M("iter-no-step", T, "ret = self.get_samples_for_epoch(self.epoch)\nself.epoch += 1",
          "ret = self.get_samples_for_epoch(self.epoch)", "G10/S2"),
        M("islice-stop-total", T, "islice(ret, self._rank, self.effective_total, self._world_size)",
          "islice(ret, self._rank, self.total, self._world_size)", "G12/S3"),
        M("islice-start-0", T, "islice(ret, self._rank, self.effective_total, self._world_size)",
          "islice(ret, 0, self.effective_total, self._world_size)", "G12/S3"),
        M("len-off-by-one", T, "(self.effective_total - self._rank + self._world_size - 1) // self._world_size",
          "(self.effective_total - self._rank + self._world_size) // self._world_size", "G12/S3"),
        M("len-ignores-rank", T, "(self.effective_total - self._rank + self._world_size - 1) // self._world_size",
          "(self.effective_total + self._world_size - 1) // self._world_size", "G12/S3"),
        M("drop-branch-wrong", T, "self.effective_total = self.total - self.total % self._world_size",
          "self.effective_total = self.total - self._world_size", "drop-branch"),
        M("mode-typo", T, "elif on_uneven_distributed == 'drop':", "elif on_uneven_distributed == 'dorp':", "G8/S4"),
        M("raise-arm-lost", T, "if on_uneven_distributed == 'raise':", "if on_uneven_distributed == 'uneven':", "G8/S4"),
        M("per-epoch-writes-self", T, "rs = np.random.RandomState((self.base_seed, epoch))",
          "self.last_seeded = epoch\nrs = np.random.RandomState((self.base_seed, epoch))", "no-self-writes"),
        M("permute-effective-total", T, "rs.permutation(self.total)", "rs.permutation(self.effective_total)",
          "permutes-total"),
        M("sequential-from-one", T, "return range(self.total)", "return range(1, self.total)", "range-total"),
        M("fallback-rank-1", T, "self._rank = 0\nself._world_size = 1", "self._rank = 1\nself._world_size = 1",
          "ignore-fallback"),
        M("ignore-only-when-indivisible", T, "if on_uneven_distributed != 'ignore' and torch.distributed.is_available() and torch.distributed.is_initialized() and (torch.distributed.get_rank() >= 0):",
          "if torch.distributed.is_available() and torch.distributed.is_initialized() and (torch.distributed.get_rank() >= 0):", "ignore-excludes-process-group"),
        M("twin:rename-ret", T, "ret = self.get_samples_for_epoch_ignoring_distributed(epoch)\nreturn islice(ret,",
          "order = self.get_samples_for_epoch_ignoring_distributed(epoch)\nreturn islice(order,", "", twin=True),
    ]


def selftest(ctx: Ctx):
    from selftest.mutate import run_selftest
    return run_selftest("C13", ctx.pkg.repo, _mutants(), floor=16)
