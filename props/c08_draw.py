"""C08/S5: the eight drawn SpecAugment parameters as functions of (length, sizes, limits, one uniform draw, mask index).

spec_augment_draw_parameters is interpreted over rationals for ONE sequence of the batch and ONE mask slot: tensors are scalars
(`lengths` is that sequence's length, `torch.arange(num_masks)` is that slot's index j, every `torch.rand(...)` is the same value
r in [0, 1)), `.long()` truncates, clamp / min / max / floor / masked_fill / where are their scalar meanings, layout operations
(unsqueeze, expand, to, float, ...) are identities. The result is compared with the documented rule at a grid of points:

    H_t = clamp(L/2 - eps, 0, max_time_warp)      centre_t = r (L - 2 H_t) + H_t      shift_t = r 2 H_t - H_t
    H_f = min(max(F/2 - eps, 0), max_freq_warp)   centre_f = r (F - 2 H_f) + H_f      shift_f = r 2 H_f - H_f
    cap_t = floor(min(L p_max, max_time_mask))    n_t = floor(min(L p_num, num_time_mask))
    width_t = 0 if j >= n_t else trunc(r (cap_t + 1 - eps))          start_t = trunc(r (L - width_t + 1 - eps))
    cap_f = min(max_freq_mask, F)                 width_f = trunc(r (cap_f + 1 - eps))   start_f = trunc(r (F - width_f + 1 - eps))

from which the bounds of the property (start + width <= extent, centre in [H, L - H), |shift| <= H, ...) follow by arithmetic.
Nothing of the repository is executed; a construct outside the fragment makes the rule undecided."""
from __future__ import annotations

import ast
import math
from fractions import Fraction

from sa.astutil import call_name, u

EMPTY = ("empty",)
PASS_THROUGH = {"to", "float", "double", "long_", "unsqueeze", "expand", "expand_as", "view", "reshape", "contiguous", "clone", "detach",
                "squeeze", "type_as", "cpu"}


class Und(Exception):
    pass


class _Ret(Exception):
    def __init__(self, v):
        self.v = v


def _trunc(x):
    return Fraction(math.trunc(x))


def _floor(x):
    return Fraction(math.floor(x))


class DrawMachine:
    def __init__(self, func_node, params, eps=Fraction(1, 1000)):
        self.f = func_node
        self.pnames = params  # formal names in order
        self.eps = eps

    def run(self, env0, r, j):
        env = dict(env0)
        eps = self.eps

        def num(x):
            if isinstance(x, bool):
                return Fraction(int(x))
            if isinstance(x, (int, Fraction)):
                return Fraction(x)
            raise Und(f"not a number: {x!r}")

        def ev(e, d=0):
            if d > 80:
                raise Und("depth")
            if isinstance(e, ast.Constant):
                if isinstance(e.value, bool) or e.value is None or isinstance(e.value, str):
                    return e.value
                if isinstance(e.value, (int, float)):
                    return Fraction(str(e.value))
                raise Und(u(e))
            if isinstance(e, ast.Name):
                if e.id in env:
                    return env[e.id]
                raise Und(f"`{e.id}`")
            if isinstance(e, ast.Attribute):
                if e.attr in ("device", "dtype"):
                    return ("meta",)
                if e.attr == "shape" and u(e.value) == self.pnames[0]:
                    return ("shape", env["__N"], env["__T"], env["__F"])
                if u(e).startswith("torch."):
                    return ("meta",)
                raise Und(u(e)[:40])
            if isinstance(e, ast.Subscript):
                v = ev(e.value, d + 1)
                if isinstance(v, tuple) and v and v[0] == "shape" and isinstance(e.slice, ast.Constant):
                    return Fraction(v[1 + e.slice.value])
                if isinstance(v, Fraction):
                    return v  # indexing a per-sequence / per-mask tensor: the one element we follow
                raise Und(u(e)[:40])
            if isinstance(e, (ast.Tuple, ast.List)):
                return ("seq",) + tuple(ev(x, d + 1) for x in e.elts)
            if isinstance(e, ast.UnaryOp):
                v = ev(e.operand, d + 1)
                if isinstance(e.op, ast.Not):
                    return not _truth(v)
                if isinstance(e.op, ast.USub):
                    return -num(v)
                if isinstance(e.op, ast.Invert) and isinstance(v, bool):
                    return not v
                raise Und(u(e)[:40])
            if isinstance(e, ast.BoolOp):
                out = None
                for x in e.values:
                    out = ev(x, d + 1)
                    if (isinstance(e.op, ast.And) and not _truth(out)) or (isinstance(e.op, ast.Or) and _truth(out)):
                        return out
                return out
            if isinstance(e, ast.BinOp):
                a, b = ev(e.left, d + 1), ev(e.right, d + 1)
                if isinstance(e.op, (ast.BitAnd, ast.BitOr)) and isinstance(a, bool) and isinstance(b, bool):
                    return (a and b) if isinstance(e.op, ast.BitAnd) else (a or b)
                a, b = num(a), num(b)
                if isinstance(e.op, ast.Add):
                    return a + b
                if isinstance(e.op, ast.Sub):
                    return a - b
                if isinstance(e.op, ast.Mult):
                    return a * b
                if isinstance(e.op, ast.Div):
                    if b == 0:
                        raise Und("division by zero")
                    return a / b
                if isinstance(e.op, ast.FloorDiv):
                    return _floor(a / b)
                raise Und(u(e)[:40])
            if isinstance(e, ast.Compare):
                left = ev(e.left, d + 1)
                for op, r_ in zip(e.ops, e.comparators):
                    right = ev(r_, d + 1)
                    if isinstance(op, (ast.Is, ast.IsNot)):
                        res = (left is right) == isinstance(op, ast.Is)
                    else:
                        a, b = num(left), num(right)
                        res = {ast.Lt: a < b, ast.LtE: a <= b, ast.Gt: a > b, ast.GtE: a >= b, ast.Eq: a == b, ast.NotEq: a != b}[type(op)]
                    if not res:
                        return False
                    left = right
                return True
            if isinstance(e, ast.IfExp):
                return ev(e.body if _truth(ev(e.test, d + 1)) else e.orelse, d + 1)
            if isinstance(e, ast.Call):
                return call(e, d)
            raise Und(u(e)[:40])

        def _truth(v):
            if isinstance(v, tuple):
                raise Und("truth value of a non-scalar")
            return bool(v)

        def kw(e, name):
            for k in e.keywords:
                if k.arg == name:
                    return k.value
            return None

        def clamp(x, lo, hi):
            x = num(x)
            if lo is not None:
                x = max(x, num(lo))
            if hi is not None:
                x = min(x, num(hi))
            return x

        def call(e, d):
            cn = call_name(e)
            if cn == "torch.rand" or cn == "torch.rand_like":
                return r
            if cn == "_get_tensor_eps":
                return eps
            if cn == "torch.arange":
                return Fraction(j)
            if cn in ("torch.empty", "torch.zeros") and e.args and u(e.args[0]) in ("0", "(0,)", "[0]"):
                return EMPTY
            if cn == "torch.full" and len(e.args) >= 2:
                return ev(e.args[1], d + 1)
            if cn in ("torch.tensor", "torch.as_tensor", "float", "int") and e.args:
                v = ev(e.args[0], d + 1)
                return _trunc(num(v)) if cn == "int" else v
            if cn in ("min", "max") and len(e.args) >= 2 and not e.keywords:
                vals = [num(ev(a, d + 1)) for a in e.args]
                return min(vals) if cn == "min" else max(vals)
            if cn in ("torch.min", "torch.max", "torch.minimum", "torch.maximum") and len(e.args) == 2:
                a, b = num(ev(e.args[0], d + 1)), num(ev(e.args[1], d + 1))
                return min(a, b) if "min" in cn else max(a, b)
            if cn == "torch.where" and len(e.args) == 3:
                return ev(e.args[1], d + 1) if _truth(ev(e.args[0], d + 1)) else ev(e.args[2], d + 1)
            if cn in ("torch.clamp", "torch.clip") and e.args:
                lo = e.args[1] if len(e.args) > 1 else kw(e, "min")
                hi = e.args[2] if len(e.args) > 2 else kw(e, "max")
                return clamp(ev(e.args[0], d + 1), ev(lo, d + 1) if lo is not None else None, ev(hi, d + 1) if hi is not None else None)
            if cn in ("torch.clamp_min", "torch.clamp_max") and len(e.args) == 2:
                x, b = ev(e.args[0], d + 1), ev(e.args[1], d + 1)
                return clamp(x, b, None) if cn.endswith("min") else clamp(x, None, b)
            if cn in ("torch.floor", "torch.trunc") and len(e.args) == 1:
                x = num(ev(e.args[0], d + 1))
                return _floor(x) if cn.endswith("floor") else _trunc(x)
            if cn in ("torch.masked_fill",) and len(e.args) == 3:
                return ev(e.args[2], d + 1) if _truth(ev(e.args[1], d + 1)) else ev(e.args[0], d + 1)
            if isinstance(e.func, ast.Attribute):
                m = e.func.attr
                recv = ev(e.func.value, d + 1)
                if m in PASS_THROUGH or (m == "to"):
                    return recv
                if m in ("long", "int", "trunc"):
                    return _trunc(num(recv))
                if m in ("floor", "floor_"):
                    return _floor(num(recv))
                if m in ("ceil", "ceil_") and not e.args:
                    return Fraction(math.ceil(num(recv)))
                if m in ("round", "round_") and not e.args:
                    return Fraction(round(Fraction(num(recv))))  # (half to even, as the library rounds)
                if m in ("clamp", "clamp_", "clip"):
                    lo = e.args[0] if len(e.args) > 0 else kw(e, "min")
                    hi = e.args[1] if len(e.args) > 1 else kw(e, "max")
                    return clamp(recv, ev(lo, d + 1) if lo is not None else None, ev(hi, d + 1) if hi is not None else None)
                if m in ("clamp_min", "clamp_min_", "clamp_max", "clamp_max_") and len(e.args) == 1:
                    b = ev(e.args[0], d + 1)
                    return clamp(recv, b, None) if "min" in m else clamp(recv, None, b)
                if m in ("masked_fill", "masked_fill_") and len(e.args) == 2:
                    return ev(e.args[1], d + 1) if _truth(ev(e.args[0], d + 1)) else recv
                if m in ("size",) and len(e.args) == 1 and u(e.func.value) == self.pnames[0]:
                    return Fraction(("__N", "__T", "__F")[int(u(e.args[0]))] and env[("__N", "__T", "__F")[int(u(e.args[0]))]])
                if m in ("numel",) and recv is EMPTY:
                    return Fraction(0)
                if m in ("ge", "gt", "le", "lt", "eq", "ne") and len(e.args) == 1:
                    a, b = num(recv), num(ev(e.args[0], d + 1))
                    return {"ge": a >= b, "gt": a > b, "le": a <= b, "lt": a < b, "eq": a == b, "ne": a != b}[m]
            raise Und(u(e)[:60])

        def ex(stmts):
            for st in stmts:
                if isinstance(st, ast.Expr):
                    continue  # docstring / a check helper called for its exceptions
                if isinstance(st, ast.Assign):
                    v = ev(st.value)
                    for t in st.targets:
                        if isinstance(t, ast.Name):
                            env[t.id] = v
                        elif isinstance(t, (ast.Tuple, ast.List)) and isinstance(v, tuple) and v and v[0] in ("shape", "seq") and len(v) - 1 == len(t.elts):
                            for tt, vv in zip(t.elts, v[1:]):
                                if not isinstance(tt, ast.Name):
                                    raise Und(u(st)[:40])
                                env[tt.id] = Fraction(vv) if isinstance(vv, int) else vv
                        else:
                            raise Und(u(st)[:40])
                elif isinstance(st, ast.AnnAssign) and isinstance(st.target, ast.Name) and st.value is not None:
                    env[st.target.id] = ev(st.value)
                elif isinstance(st, ast.AugAssign) and isinstance(st.target, ast.Name):
                    a, b = num(env.get(st.target.id)), num(ev(st.value))
                    env[st.target.id] = {ast.Add: a + b, ast.Sub: a - b, ast.Mult: a * b}.get(type(st.op))
                    if env[st.target.id] is None:
                        raise Und(u(st)[:40])
                elif isinstance(st, ast.If):
                    ex(st.body if _truth(ev(st.test)) else st.orelse)
                elif isinstance(st, ast.Return):
                    raise _Ret(ev(st.value) if st.value is not None else None)
                elif isinstance(st, (ast.Pass, ast.Assert)):
                    continue
                elif isinstance(st, ast.Raise):
                    raise Und("a raise on an interpreted path")
                else:
                    raise Und(type(st).__name__)
        try:
            ex(self.f.body)
        except _Ret as r_:
            return r_.v
        raise Und("no return")


def documented(L, T, F, P, r, j, eps):
    one = Fraction(1)
    Ht = min(max(L / 2 - eps, Fraction(0)), P["max_time_warp"])
    Hf = min(max(F / 2 - eps, Fraction(0)), P["max_freq_warp"])
    cap_t = _floor(min(L * P["max_time_mask_proportion"], P["max_time_mask"]))
    n_t = _floor(min(L * P["num_time_mask_proportion"], P["num_time_mask"]))
    wt = Fraction(0) if j >= n_t else _trunc(r * (cap_t + one - eps))
    st = _trunc(r * (L - wt + one - eps))
    cap_f = min(P["max_freq_mask"], F)
    wf = _trunc(r * (cap_f + one - eps))
    sf = _trunc(r * (F - wf + one - eps))
    return (r * (L - 2 * Ht) + Ht, r * 2 * Ht - Ht, r * (F - 2 * Hf) + Hf, r * 2 * Hf - Hf, st, wt, sf, wf)


SLOTS = ("time-warp-centre", "time-warp-shift", "freq-warp-centre", "freq-warp-shift", "time-mask-start", "time-mask-width",
         "freq-mask-start", "freq-mask-width")


def draw_table(func_node, pnames):
    """Returns (points, {slot: first mismatch}) over the grid; raises Und when the function leaves the fragment."""
    m = DrawMachine(func_node, pnames)
    bad = {}
    n = 0
    F_ = Fraction
    for L, T in ((F_(5), 8), (F_(8), 8), (F_(1), 8), (F_(7), 8)):  # (7: a quarter of it has a fractional part above one half)
        for Fv in (4, 7):
            for r in (F_(0), F_(1, 3), F_(999, 1000)):
                for j in (0, 1, 3):
                    for mtw, mfw in ((F_(2), F_(1)), (F_(10), F_(10))):
                        for mtm, mtmp in ((F_(3), F_(1)), (F_(20), F_(1, 4))):
                            for ntm, ntmp in ((F_(4), F_(1)), (F_(4), F_(1, 4))):
                                for mfm in (F_(2), F_(10)):
                                    P = dict(max_time_warp=mtw, max_freq_warp=mfw, max_time_mask=mtm, max_time_mask_proportion=mtmp,
                                             num_time_mask=ntm, num_time_mask_proportion=ntmp, max_freq_mask=mfm, num_freq_mask=F_(2))
                                    env = {"__N": 2, "__T": T, "__F": Fv, pnames[0]: ("feats",)}
                                    for k, v in P.items():
                                        env[k] = v
                                    env["lengths"] = L
                                    got = m.run(env, r, j)
                                    n += 1
                                    if not (isinstance(got, tuple) and got and got[0] == "seq" and len(got) == 9):
                                        raise Und("the function does not return its 8 slots")
                                    want = documented(L, F_(T), F_(Fv), P, r, j, m.eps)
                                    for name, g, w in zip(SLOTS, got[1:], want):
                                        if g != w and name not in bad:
                                            bad[name] = dict(length=str(L), T=T, F=Fv, draw=str(r), mask_index=j, limits={k: str(v) for k, v in P.items()},
                                                             does=str(g), documented=str(w))
    return n, bad
