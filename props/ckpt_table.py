"""C15 / C16: the checkpoint table.

`TrainingStateController.__init__` and `update_for_epoch` (with the methods they call: get_info, get_best_epoch, the path methods,
save_info_to_hist, _clean_up_files) are interpreted over plain data (sa/pyinterp.py; nothing of the repository is imported or run)
against a modelled state directory: `save_model_and_optimizer_with_info` stores {path: epoch}, `os.path.exists` / `os.remove` read and
delete entries, `os.path.join` joins with '/'. The controller is driven through every validation-metric history of length 3 and 4 over
{0.4, 0.5, 0.6, 0.7} (ties included), selecting the best epoch by validation or by training metric, and after EVERY completed update the
directory is compared with the documented state:

  keep_last_and_best_only, file names that carry the epoch:  exactly the files of the last and of the best epoch, each holding the
        parameters saved for that epoch (best = lowest recorded metric at the history's print precision, the earlier epoch on a tie)
  keep_last_and_best_only, file names WITHOUT the epoch:     the update is refused (ValueError) exactly when the new epoch is not the
        best one - it would overwrite the best checkpoint; when it is accepted the files hold the new epoch's parameters
  every epoch kept:                                          the files of every finished epoch

How the clean-up set is assembled, in which order history and checkpoint are written, does not matter; a wrong row is a metric history."""
from __future__ import annotations

import ast
import itertools
from typing import Dict, List, Optional

from sa.astutil import call_name, u
from sa.inteval import NotEvaluable
from sa.pyinterp import Obj, PyInterp, Raised

CLS = "TrainingStateController"
PARAM_DEFAULTS = dict(num_epochs=None, log10_learning_rate=None, early_stopping_threshold=0.0, early_stopping_patience=1, early_stopping_burnin=0,
                      reduce_lr_threshold=0.0, reduce_lr_factor=0.5, reduce_lr_patience=1, reduce_lr_cooldown=0, reduce_lr_log10_epsilon=-8,
                      reduce_lr_burnin=0, seed=None, keep_last_and_best_only=True, saved_model_fmt="model_{epoch:03d}.pt",
                      saved_optimizer_fmt="optim_{epoch:03d}.pt")


class Undecided(Exception):
    pass


def _class(pkg, modname: str) -> ast.ClassDef:
    for st in pkg.module(modname).tree.body:
        if isinstance(st, ast.ClassDef) and st.name == CLS:
            return st
    raise Undecided(f"class {CLS} not found")


class Driver:
    def __init__(self, pkg, modname: str = "training"):
        self.cls = _class(pkg, modname)
        self.methods = {st.name: st for st in self.cls.body if isinstance(st, ast.FunctionDef)}
        for need in ("__init__", "update_for_epoch", "get_model_path_with_info", "get_optimizer_path_with_info"):
            if need not in self.methods:
                raise Undecided(f"{CLS}.{need} not found")
        self.class_consts = {st.targets[0].id: st.value for st in self.cls.body
                             if isinstance(st, ast.Assign) and len(st.targets) == 1 and isinstance(st.targets[0], ast.Name)}

    def interp(self, fs: Dict[str, int]) -> PyInterp:
        holder = {}

        def leaf(e, env):
            if isinstance(e, ast.Attribute) and isinstance(e.value, ast.Name) and e.value.id == "self" and e.attr in self.class_consts \
                    and isinstance(env.get("self"), Obj) and e.attr not in env["self"].attrs:
                return holder["it"].eval(self.class_consts[e.attr], {})
            if not isinstance(e, ast.Call):
                return None
            cn = call_name(e)
            it = holder["it"]
            if cn == "warnings.warn":
                return "warned"
            if cn.split(".")[-1] == "OrderedDict" and not e.args:
                return {}
            if cn.startswith("super(") or cn.startswith("super.") or (isinstance(e.func, ast.Attribute) and isinstance(e.func.value, ast.Call)
                                                                       and call_name(e.func.value) == "super"):
                return "super"
            if cn in ("torch.distributed.is_available", "torch.distributed.is_initialized"):
                return ()  # (a falsy non-None answer: no process group)
            if cn == "os.path.join":
                return "/".join(str(it.eval(a, env)) for a in e.args)
            if cn == "os.path.exists":
                return ("yes",) if it.eval(e.args[0], env) in fs else ()
            if cn == "os.path.dirname":
                return str(it.eval(e.args[0], env)).rsplit("/", 1)[0]
            if cn in ("os.remove", "os.unlink"):
                p_ = it.eval(e.args[0], env)
                if p_ not in fs:
                    raise Raised("FileNotFoundError")
                del fs[p_]
                return "removed"
            if isinstance(e.func, ast.Attribute) and isinstance(e.func.value, ast.Name) and e.func.value.id == "self":
                if e.func.attr == "save_model_and_optimizer_with_info" and len(e.args) == 3:
                    self_ = env["self"]
                    info = it.eval(e.args[2], env)
                    for m_ in ("get_model_path_with_info", "get_optimizer_path_with_info"):
                        fs[it.call_function(self.methods[m_], [self_, info], {})] = info["epoch"]
                    return "saved"
                if e.func.attr == "_barrier":
                    return "barrier"
            return None
        it = PyInterp(leaf=leaf)
        holder["it"] = it
        return it

    def new_controller(self, fs: Dict[str, int], **params) -> Obj:
        p = dict(PARAM_DEFAULTS)
        p.update(params)
        self_ = Obj()
        self_.__dict__["cls"] = self.cls
        it = self.interp(fs)
        it.call_function(self.methods["__init__"], [self_, Obj(**p), None, "D", False, None], {})
        return self_

    def update(self, self_: Obj, fs: Dict[str, int], train_met: float, val_met: float, best_is_train: bool):
        it = self.interp(fs)
        model = Obj()
        optim = Obj(defaults={"lr": 0.1}, param_groups=[{"lr": 0.1}])
        try:
            return "ok", it.call_function(self.methods["update_for_epoch"], [self_, model, optim, train_met, val_met, None, best_is_train], {})
        except Raised as r:
            return "raise", r.kind


def best_epoch(metrics: List[float]) -> int:
    """The documented rule: lowest metric at the print precision (4 digits after the point in scientific notation), earlier epoch on ties."""
    best, best_v = 0, float("inf")
    for e_, m in enumerate(metrics, 1):
        v = float("{:.4e}".format(m))
        if v < best_v:
            best, best_v = e_, v
    return best


def table(pkg, thorough: bool = True):
    """(number of histories, first counterexample or None). Raises Undecided / NotEvaluable when outside the interpreted fragment."""
    drv = Driver(pkg)
    vals = (0.4, 0.5, 0.6, 0.7)
    hists = [h for h in itertools.product(vals, repeat=3)] + [h for i_, h in enumerate(itertools.product(vals, repeat=4)) if thorough or i_ % 3 == 0]
    bad, n = None, 0
    configs = (("epoch in the file names", dict(), True), ("no epoch in the file names", dict(saved_model_fmt="model.pt", saved_optimizer_fmt="optim.pt"), True),
               ("every epoch kept", dict(keep_last_and_best_only=False), False))
    for tag, params, keep in configs:
        for h in (hists if tag != "every epoch kept" else hists[::7]):
            for by_train in ((False, True) if tag == "epoch in the file names" else (False,)):
                fs: Dict[str, int] = {}
                ctl = drv.new_controller(fs, **params)
                n += 1
                train = [round(1.1 - v, 3) for v in h]  # (a different ranking than the validation metric)
                for e_ in range(1, len(h) + 1):
                    kind, val = drv.update(ctl, fs, train[e_ - 1], h[e_ - 1], by_train)
                    sel = train[:e_] if by_train else list(h[:e_])
                    b = best_epoch(sel)
                    if tag == "no epoch in the file names":
                        want_raise = b != e_
                        if (kind == "raise") != want_raise or (kind == "raise" and val != "ValueError"):
                            bad = bad or (tag, h[:e_], by_train, f"epoch {e_} is {'refused (' + str(val) + ')' if kind == 'raise' else 'accepted'} with the best epoch {b}",
                                          "refused with ValueError exactly when the new epoch is not the best (its files would replace the best checkpoint)", dict(fs))
                            break
                        if kind == "raise":
                            break
                        want_fs = {"D/model.pt": e_, "D/optim.pt": e_}
                    elif kind == "raise":
                        bad = bad or (tag, h[:e_], by_train, f"the update of epoch {e_} raises {val}", "a completed update", dict(fs))
                        break
                    elif keep:
                        want_fs = {f"D/{k}_{x:03d}.pt": x for x in {e_, b} for k in ("model", "optim")}
                    else:
                        want_fs = {f"D/{k}_{x:03d}.pt": x for x in range(1, e_ + 1) for k in ("model", "optim")}
                    if fs != want_fs:
                        bad = bad or (tag, h[:e_], by_train, f"after epoch {e_} the state directory holds {dict(sorted(fs.items()))} (file -> epoch whose parameters it holds)",
                                      f"{dict(sorted(want_fs.items()))} (last epoch {e_}, best epoch {b})", None)
                        break
                if bad is not None:
                    return n, bad
    return n, None


def check(ctx, rule: str, clause: str) -> bool:
    """Registers the table as an obligation of the running property; False when outside the interpreted fragment."""
    col, pkg = ctx.col, ctx.pkg
    rel = pkg.module("training").relname
    try:
        n, bad = table(pkg, thorough=(getattr(ctx, 'tier', 'quick') == 'thorough'))
    except (NotEvaluable, Undecided, Raised):
        return False
    col.count("checkpoint_table_histories", n)
    col.ob(rule, clause, f"{rel}::{CLS}.update_for_epoch::checkpoint-table", bad is None,
           (f"[{bad[0]}] {'training' if bad[2] else 'validation'} metrics {list(bad[1])}: {bad[3]}; documented: {bad[4]}") if bad else "", rel, 0,
           sample=dict(histories=n))
    return True
