"""C05 CTC prefix search: plumbing (G1/G2), fusion state re-indexing (G14/G16), padding
sentinels (G13), -inf sentinel never multiplied by a mask/probability (G20)."""
from __future__ import annotations

import ast

from rules.sentinel import SentinelTaint
from sa.astutil import call_name, guards_of, is_neg_inf, parent_map, u
from sa.defuse import ReachingDefs
from sa.model import AnalysisError, own_calls, own_nodes
from sa.resolve import bind_args
from .common import Ctx, plumbing
from .search_common import SearchLoop, check_index_spaces

MOD = "_decoding"
ADV = "ctc_prefix_search_advance"


def run(ctx: Ctx):
    col, pkg, res = ctx.col, ctx.pkg, ctx.res
    rel = pkg.module(MOD).relname
    adv = pkg.func(f"{MOD}::{ADV}")
    fwd = pkg.func(f"{MOD}::CTCPrefixSearch.forward")
    where_f = f"{rel}::{fwd.qualname}"
    where_a = f"{rel}::{ADV}"
    sl = SearchLoop(fwd, ADV, src_slot=5, n_slots=7)
    rd = sl.rd

    # ---- S1 the call: tuple arguments in order; masses fed back ---------------------------
    b = bind_args(sl.adv_call, adv, False)
    got = {p.name: a for p, a, _ in b.pairs}
    pt = got.get("probs_t")
    names_pt = [u(x) for x in pt.elts] if isinstance(pt, ast.Tuple) else []
    # (extension probs, non-extension probs, blank probs): derive from the step's frame slices
    blank_name = nonext_name = None
    for n in own_nodes(fwd.node):
        if isinstance(n, ast.Assign) and len(n.targets) == 1 and isinstance(n.value, ast.Subscript):
            sl_ = n.value.slice
            items = list(sl_.elts) if isinstance(sl_, ast.Tuple) else [sl_]
            if len(items) == 2 and isinstance(items[0], ast.Constant) and items[0].value is Ellipsis:
                if isinstance(items[1], ast.Name):
                    blank_name = u(n.targets[0])  # probs[..., V]: the last (blank) column
                elif isinstance(items[1], ast.Slice) and items[1].lower is None and isinstance(items[1].upper, ast.Name):
                    nonext_name = u(n.targets[0])  # probs[..., :V]: the label columns
    ok_pt = False
    if isinstance(pt, ast.Tuple) and len(pt.elts) == 3:
        d1 = rd.derives(pt.elts[1])
        d2 = rd.derives(pt.elts[2])
        ok_pt = (nonext_name in {x.id for x in d1.nodes() if isinstance(x, ast.Name)}
                 and blank_name in {x.id for x in d2.nodes() if isinstance(x, ast.Name)}
                 and blank_name not in {x.id for x in d1.nodes() if isinstance(x, ast.Name)})
    col.ob("G1", "S1", f"{where_f}::{ADV}(probs_t=(ext, nonext, blank))", ok_pt,
           f"probs_t is passed as {names_pt}; slot 1 must derive from the non-blank frame scores "
           f"(`{nonext_name}`) and slot 2 from the blank scores (`{blank_name}`)", rel, sl.adv_call.lineno,
           sample=names_pt)
    pp = got.get("probs_prev")
    nb_next = sl.slot_name(sl.adv_assign, (3, 0))
    b_next = sl.slot_name(sl.adv_assign, (3, 1))
    fed = False
    if isinstance(pp, ast.Tuple) and len(pp.elts) == 2:
        # each element must be reached (loop-carried) by the same slot of this call's result
        def reach(e, want):
            der = rd.derives(e, value_flow=True, stop=lambda d: d.stmt is sl.adv_assign)
            return any(d.stmt is sl.adv_assign and d.slot == want for d in der.defs)
        fed = reach(pp.elts[0], (3, 0)) and reach(pp.elts[1], (3, 1)) \
            and not reach(pp.elts[0], (3, 1)) and not reach(pp.elts[1], (3, 0))
    col.ob("G2", "S1", f"{where_f}::{ADV}(probs_prev<-(nb, b) of the previous step)", fed,
           f"the non-blank / blank masses returned by one step (`{nb_next}`, `{b_next}`) are not fed back into the "
           f"same slots of probs_prev (`{u(pp)}`): the two masses are swapped or mixed", rel, sl.adv_call.lineno,
           sample=u(pp))
    # in the advance function the masses are unpacked in the same order as they are returned
    rda = ReachingDefs(adv.node)
    ret = [st for st, _ in rda.return_envs][-1]
    order_ok = False
    pp_un = _tuple_slots(rda, "probs_prev")
    pt_un = _tuple_slots(rda, "probs_t")
    if len(pp_un) == 2 and len(pt_un) == 3 and isinstance(ret.value, ast.Tuple) and isinstance(ret.value.elts[3], ast.Tuple):
        # blank mass of the next step derives from the blank probability; non-blank from nonext/ext
        rb = rda.derives(ret.value.elts[3].elts[1], value_flow=True)
        rn = rda.derives(ret.value.elts[3].elts[0], value_flow=True)
        uses = lambda der, nm: any(d.name == nm for d in der.defs)
        blank_t, nonext_t, ext_t = pt_un[2], pt_un[1], pt_un[0]
        order_ok = uses(rb, blank_t) and not uses(rb, ext_t) and uses(rn, ext_t) and uses(rn, nonext_t) \
            and not uses(rn, blank_t)
    col.ob("G2", "S1", f"{where_a}::returned-(nb, b)-roles", order_ok,
           "in the advance step the returned blank mass must derive from the blank probability only and the "
           "non-blank mass from the extension / non-extension probabilities only (slots swapped otherwise)",
           rel, ret.lineno)

    # merging an extension into an existing prefix requires the prefix relation: the mask that moves mass between
    # slots, and the mask that clears merged extensions, both derive (value flow) from prev_is_prefix
    merge_masks = []
    for n in own_nodes(adv.node):
        # a masked selection: t.masked_fill(mask, c) or torch.where(mask, a, b)
        if isinstance(n, ast.Call) and n.args and ((isinstance(n.func, ast.Attribute) and n.func.attr == "masked_fill")
                                                   or (call_name(n) == "torch.where" and len(n.args) == 3)):
            der = rda.derives(n.args[0])
            names = {d.name for d in der.defs}
            if "y_prev_lens" in names and not {"next_ind"} & names:
                merge_masks.append((n, "prev_is_prefix" in der.params()))
    col.floor("merge_mask_sites", len(merge_masks), 2)
    for n, ok in merge_masks:
        col.ob("G16", "S1", f"{where_a}::merge-mask-uses-prefix-relation({u(n.args[0])[:30]})", ok,
               f"`{u(n)[:80]}`: mass is moved/cleared between beam slots by a mask that does not depend on the prefix "
               f"relation (prev_is_prefix): two unrelated prefixes whose lengths differ by one are merged", rel, n.lineno,
               sample=u(n)[:100])
    # number of kept candidates = min(width, old_width * (V + 1))
    from sa.norm import Normalizer, padd, pstr
    kdef = [n for n in own_nodes(adv.node) if isinstance(n, ast.Assign) and isinstance(n.value, ast.Call)
            and call_name(n.value) == "min" and len(n.value.args) == 2 and any(u(a) == "width" for a in n.value.args)]
    okk = False
    if kdef:
        other = [a for a in kdef[0].value.args if u(a) != "width"][0]
        nz = Normalizer()
        shp = [n for n in own_nodes(adv.node) if isinstance(n, ast.Assign) and isinstance(n.targets[0], ast.Tuple)
               and len(n.targets[0].elts) == 3 and u(n.value).endswith(".shape") and u(n.value).split(".")[0] == pt_un.get(0)]
        if shp:
            kp_, v_ = u(shp[0].targets[0].elts[1]), u(shp[0].targets[0].elts[2])
            okk = not padd(nz.poly(other), nz.poly(ast.parse(f"{kp_} * {v_} + {kp_}", mode="eval").body), -1)
            if not okk:
                # by value: locals (single-use or shared) that hold parts of the count are followed through their definitions
                from sa.inteval import NotEvaluable, guarded_value
                from sa.astutil import parent_map
                try:
                    pm_ = parent_map(adv.node)
                    okk = all(guarded_value(other, {kp_: a_, v_: b_}, rda, pm_) == a_ * b_ + a_ for a_ in (1, 2, 5) for b_ in (1, 3, 7))
                except NotEvaluable:
                    okk = False
    col.ob("G12", "S1", f"{where_a}::K=min(width, old_width*(V+1))", okk,
           f"the number of kept candidates is `{u(kdef[0].value) if kdef else None}`; there are old_width * V extension "
           f"candidates plus old_width non-extension candidates", rel, kdef[0].lineno if kdef else adv.line)

    # ---- S2 fusion branch -------------------------------------------------------------------
    n_g, n_e = check_index_spaces(col, sl, rel, "S2", "probs_t")
    col.floor("extract_by_src_sites", n_e, 1)
    ex = [c for c in own_calls(fwd.node) if isinstance(c.func, ast.Attribute) and c.func.attr == "extract_by_src"]
    idx_txt = {u(c.args[1]) for c in ex}
    col.ob("G16", "S2", f"{where_f}::both-states-reindexed-by-one-index", len(idx_txt) == 1 and len(ex) == 2,
           f"the old and the advanced model state are re-indexed with {sorted(idx_txt)}; they must follow the same "
           f"surviving prefixes", rel, ex[0].lineno if ex else fwd.line, sample=sorted(idx_txt))
    in_next_name = sl.slot_name(sl.calc_assign, (1,))
    prev_arg = sl.calc_assign.value.args[1] if len(sl.calc_assign.value.args) > 1 else None
    mix = [c for c in own_calls(fwd.node) if isinstance(c.func, ast.Attribute) and c.func.attr == "mix_by_mask"]
    col.floor("mix_by_mask_sites", len(mix), 1)
    nonext_slot = sl.slot_name(sl.adv_assign, (6,))
    for c in mix:
        if len(c.args) != 3:
            raise AnalysisError("C05: mix_by_mask call does not have three positional arguments")
        a_true, a_false, a_mask = c.args

        def src_state(e):
            """which state an expression comes from: 'old' (the state fed to calc_idx_log_probs) or 'new'."""
            der = rd.derives(e, stop=lambda d: False)
            out = set()
            for cc in der.calls():
                if isinstance(cc.func, ast.Attribute) and cc.func.attr == "extract_by_src":
                    s = cc.args[0]
                    sder = rd.derives(s)
                    if any(d.stmt is sl.calc_assign and d.slot == (1,) for d in sder.defs):
                        out.add("new")
                    else:
                        out.add("old")
            return out
        # direct (one-hop) provenance: the extract_by_src call that defines each argument
        def direct(e):
            if isinstance(e, ast.Name):
                ks = set()
                for d in rd.defs_of(e):
                    v = d.value
                    if isinstance(v, ast.Call) and isinstance(v.func, ast.Attribute) and v.func.attr == "extract_by_src":
                        s = v.args[0]
                        sd = rd.defs_of(s) if isinstance(s, ast.Name) else ()
                        ks.add("new" if any(x.stmt is sl.calc_assign and x.slot == (1,) for x in sd) else "old")
                    else:
                        ks.add("?")
                return ks
            return {"?"}
        kt, kf = direct(a_true), direct(a_false)
        col.ob("G16", "S2", f"{where_f}::mix_by_mask(prev_true=old, prev_false=advanced)", kt == {"old"} and kf == {"new"},
               f"mix_by_mask receives {sorted(kt)} state as prev_true and {sorted(kf)} state as prev_false; a "
               f"non-extended prefix (mask true) must keep the OLD model state and an extended one the ADVANCED state",
               rel, c.lineno, sample=u(c))
        mder = rd.derives(a_mask)
        okm = any(d.stmt is sl.adv_assign and d.slot == (6,) for d in mder.defs) and not any(
            isinstance(x, ast.UnaryOp) and isinstance(x.op, (ast.Invert, ast.Not)) for e in [a_mask] for x in ast.walk(e))
        col.ob("G16", "S2", f"{where_f}::mix_by_mask(mask=this step's is-non-extension)", okm,
               f"the mixing mask `{u(a_mask)}` is not this step's non-extension flag (`{nonext_slot}`)", rel, c.lineno,
               sample=u(a_mask))
    # the state fed to the next calc is the mixed state
    if prev_arg is not None and isinstance(prev_arg, ast.Name):
        ds = rd.defs_of(prev_arg)
        from_mix = any(isinstance(d.value, ast.Call) and isinstance(d.value.func, ast.Attribute)
                       and d.value.func.attr == "mix_by_mask" for d in ds)
        stale = any(isinstance(d.value, ast.Call) and isinstance(d.value.func, ast.Attribute)
                    and d.value.func.attr == "extract_by_src" for d in ds)
        col.ob("G16", "S2", f"{where_f}::next-step-state-is-the-mixed-state", from_mix and not stale,
               "the state passed to lm.calc_idx_log_probs on the next frame is not the result of mix_by_mask", rel,
               sl.calc_assign.lineno)

    _fusion_formula(ctx, fwd, sl, pt, rel, where_f)
    _mass_constants(ctx, adv, rel, where_a)
    _beam_filled_when_no_frame_was_processed(ctx, fwd, rel, where_f)
    # ---- S3 padding sentinels ---------------------------------------------------------------------
    _s3(ctx, adv, fwd, sl, rel)

    # ---- S4 never NaN: -inf sentinel x {mask, probability} -------------------------------------
    st = SentinelTaint(adv, tainted_params={"probs_prev"} if fed else set())
    sinks = st.sinks()
    n_mask = [s for s in sinks if s[1] == "mask"]
    n_float = [s for s in sinks if s[1] == "float"]
    col.ob("G20", "S4", f"{where_a}::neg-inf-mass*bool-mask", not n_mask,
           "a mass that can hold the -inf sentinel of an empty beam slot is multiplied by a 0/1 mask: -inf * 0 = NaN "
           "for every masked-out slot (" + "; ".join(f"line {s[0].lineno}: `{u(s[0])[:70]}`" for s in n_mask[:3]) + ")",
           rel, n_mask[0][0].lineno if n_mask else adv.line,
           sample=[u(s[0])[:100] for s in n_mask] or "no -inf-tainted mass is multiplied by a mask")
    col.ob("G20", "S4", f"{where_a}::neg-inf-mass*probability", not n_float,
           "a mass that can hold the -inf sentinel is multiplied by a probability tensor that a saturated softmax "
           "makes exactly 0: -inf * 0.0 = NaN (" + "; ".join(
               f"line {s[0].lineno}: `{u(s[0])[:60]}`" for s in n_float[:4]) + ")",
           rel, n_float[0][0].lineno if n_float else adv.line,
           sample=[u(s[0])[:100] for s in n_float] or "none")
    col.count("sentinel_mult_sites", len(sinks))
    # the taint engine must see the sentinel at all (positive control): the K < width branch
    src_seen = any(st.is_source(n) for n in own_nodes(adv.node))
    col.ob("G20", "S4", f"{where_a}::sentinel-source-present", src_seen,
           "no -inf sentinel source found in the advance step (the rule would pass vacuously)", rel, adv.line,
           nontrivial=False)
    stf = SentinelTaint(fwd)
    fs = stf.sinks()
    col.ob("G20", "S4", f"{where_f}::neg-inf-mass*anything", not fs,
           "CTCPrefixSearch.forward multiplies a -inf padded mass: " + "; ".join(u(s[0])[:60] for s in fs[:3]),
           rel, fs[0][0].lineno if fs else fwd.line, sample=[u(s[0])[:80] for s in fs] or "none")
    # shallow fusion: each component keeps its own state through split / extract / mix / merge
    from .search_common import fusion_component_lineage
    fusion_component_lineage(ctx, "S3")
    from .search_common import initial_state_reaches_the_model as _isr
    _isr(ctx, ctx.pkg.func("_decoding::CTCPrefixSearch.forward"), "S10")
    plumbing(ctx, "S1")
    return dict(
        explanation=(
            "Decides for C05: (S1) the advance call passes (ext, nonext, blank) probabilities and feeds the returned "
            "(non-blank, blank) masses back into the same slots; inside the step the returned blank mass derives only "
            "from the blank probability; (S2) in the fusion branch both model states are re-indexed by one flat index "
            "built from this step's beam-local source index with the stride the scores were shaped with, and "
            "mix_by_mask gets (old, advanced, this step's non-extension mask); (S3) every slot appended beyond the "
            "legitimate candidates carries -inf mass / False prefix relation and nothing else is concatenated onto a "
            "mass; (S4) no mass that can carry the -inf sentinel is multiplied by a 0/1 mask [F12, repaired] or by a "
            "probability [known finding F13]. NOT decided: equality with the prefix-beam recursion's mass, 'never "
            "more', merge bookkeeping, per-element independence (numerical)."),
        decided=["S1", "S2", "S3", "S4"],
        not_decided=["mass equals prefix-beam recursion", "never more than true mass", "merge bookkeeping",
                     "batch element independence"],
        assumptions=["torch semantics: -inf * 0 = NaN, -inf + finite = -inf, where/masked_fill select",
                     "a softmax can produce exact 0.0"],
    )


def _tuple_slots(rd, param: str):
    """{slot index: local name} for `a, b = param` or `a = param[0]; b = param[1]`."""
    out = {}
    for d in rd.defs:
        v = d.value
        if d.kind == "unpack" and isinstance(v, ast.Name) and v.id == param and d.slot and len(d.slot) == 1:
            out[d.slot[0]] = d.name
        elif d.kind == "assign" and isinstance(v, ast.Subscript) and isinstance(v.value, ast.Name) \
                and v.value.id == param and isinstance(v.slice, ast.Constant) and isinstance(v.slice.value, int):
            out[v.slice.value] = d.name
    return out


def _s3(ctx, adv, fwd, sl, rel):
    col = ctx.col
    # advance: in the `K < width` branch every cat onto a mass appends a -inf source; onto the prefix relation a
    # False source
    rda = ReachingDefs(adv.node)
    pm = parent_map(adv.node)
    ret = [st for st, _ in rda.return_envs][-1]
    if not (isinstance(ret.value, ast.Tuple) and len(ret.value.elts) == 7):
        raise AnalysisError("C05: advance step does not return a 7-tuple")
    mass_names = {u(x) for x in ret.value.elts[3].elts} if isinstance(ret.value.elts[3], ast.Tuple) else set()
    rel_name = u(ret.value.elts[4])
    st = SentinelTaint(adv)
    n_mass = n_rel = 0
    for n in own_nodes(adv.node):
        if isinstance(n, ast.Assign) and isinstance(n.value, ast.Call) and call_name(n.value) == "torch.cat" \
                and n.value.args and isinstance(n.value.args[0], (ast.List, ast.Tuple)):
            tgt = u(n.targets[0])
            elts = n.value.args[0].elts
            gs = guards_of(pm, n)
            if not any("width" in u(t) for t, pol in gs):
                continue
            if tgt in mass_names and u(elts[0]) == tgt:
                n_mass += 1
                ok = all(_is_neg_inf_fill(rda, e) for e in elts[1:])
                col.ob("G13", "S3", f"{rel}::ctc_prefix_search_advance::pad-mass({ 'nb' if tgt == sorted(mass_names)[1] else 'b'})",
                       ok, f"`{u(n)}` pads a mass with something other than the -inf sentinel: a slot holding no real "
                       f"prefix would carry positive mass", rel, n.lineno, sample=u(n))
            if tgt == rel_name:
                # one cat per axis, as two statements or nested in one expression
                def _cats(c_):
                    first = c_.args[0].elts[0]
                    inner = _cats(first) if isinstance(first, ast.Call) and call_name(first) == "torch.cat" and first.args \
                        and isinstance(first.args[0], (ast.List, ast.Tuple)) else ([] if u(first) == tgt else None)
                    return None if inner is None else inner + [c_]
                chain = _cats(n.value)
                for c_ in chain or []:
                    n_rel += 1
                    ok = all(_is_false_fill(rda, e) for e in c_.args[0].elts[1:])
                    col.ob("G13", "S3", f"{rel}::ctc_prefix_search_advance::pad-prefix-relation[{n_rel}]", ok,
                           f"`{u(c_)[:120]}` pads the prefix relation with something other than False", rel, n.lineno, sample=u(c_)[:120])
    col.floor("advance_mass_pad_sites", n_mass, 2)
    _dead_sources_excluded_from_merges(ctx, adv, rel)
    table_ok = _search_table(ctx, adv, rel)
    # case splits over one per-path predicate: in `p | (~p' & q)` (k is unextended, or it is extended and its new label matches)
    # p and p' are the same vector and must be laid along the same axis of the (k, k') relation - viewed along different axes
    # the two arms talk about different paths
    def _axis_view(e):
        if isinstance(e, ast.UnaryOp) and isinstance(e.op, ast.Invert):
            e = e.operand
        if isinstance(e, ast.Call) and isinstance(e.func, ast.Attribute) and e.func.attr == "unsqueeze" and len(e.args) == 1:
            return u(e.func.value), u(e.args[0])
        return None
    nsplit, badsplit = 0, []
    from sa.inline import Inliner as _InlCS
    _inl_cs = _InlCS(adv.node, rda)
    cands_ = []
    for st_ in own_nodes(adv.node):
        if isinstance(st_, ast.Assign):
            cands_ += [x for x in ast.walk(_inl_cs.expand(st_.value)) if isinstance(x, ast.BinOp)]
    seen_cs = set()
    for n in cands_:
        if u(n) in seen_cs:
            continue
        seen_cs.add(u(n))
        if isinstance(n, ast.BinOp) and isinstance(n.op, ast.BitOr):
            for a_, b_ in ((n.left, n.right), (n.right, n.left)):
                va = _axis_view(a_)
                if va is None or not (isinstance(b_, ast.BinOp) and isinstance(b_.op, ast.BitAnd)):
                    continue
                for c_ in (b_.left, b_.right):
                    if isinstance(c_, ast.UnaryOp) and isinstance(c_.op, ast.Invert):
                        vb = _axis_view(c_)
                        if vb is not None and vb[0] == va[0]:
                            nsplit += 1
                            if vb[1] != va[1]:
                                badsplit.append((n, va, vb))
    col.count("case_split_sites", nsplit)  # (a hazard pattern, not an anchor: written with torch.where there is no such site)
    col.ob("G19", "S3", f"{rel}::ctc_prefix_search_advance::case-split-over-one-path-index", not badsplit,
           (f"`{u(badsplit[0][0])[:110]}` splits on `{badsplit[0][1][0]}` laid along axis {badsplit[0][1][1]} in one arm and axis "
            f"{badsplit[0][2][1]} in the other: the 'is an extension' test is applied to the other path of the pair, so an extension that is "
            f"a prefix of a surviving prefix is not recorded as one and the same label sequence later appears twice") if badsplit else "",
           rel, badsplit[0][0].lineno if badsplit else adv.line, sample=nsplit)
    # (the search table runs the 'beam wider than the candidates' padding by value - however the relation is padded; the cat sites are
    # required only where the table could not be evaluated)
    col.floor("advance_relation_pad_sites", n_rel, 0 if table_ok else 2)
    # forward: the two padding sites (inside the loop and after it)
    rdf = sl.rd
    nf = 0
    mass_roots = {sl.slot_name(sl.adv_assign, (3, 0)), sl.slot_name(sl.adv_assign, (3, 1))}
    pp = [a for p, a, _ in bind_args(sl.adv_call, adv, False).pairs if p.name == "probs_prev"][0]
    if isinstance(pp, ast.Tuple):
        mass_roots |= {u(x) for x in pp.elts}
    rets = [st_ for st_, _ in rdf.return_envs]
    if rets and isinstance(rets[-1].value, ast.Tuple):
        mass_roots.add(u(rets[-1].value.elts[2]))
    for n in own_nodes(fwd.node):
        if isinstance(n, ast.Call) and call_name(n) == "torch.cat" and n.args and isinstance(n.args[0], (ast.List, ast.Tuple)):
            elts = n.args[0].elts
            if u(elts[0]) in mass_roots:
                nf += 1
                ok = all(_is_neg_inf_fill(rdf, e) for e in elts[1:])
                col.ob("G13", "S3", f"{rel}::CTCPrefixSearch.forward::pad-mass({u(elts[0])})", ok,
                       f"`{u(n)[:100]}` pads a mass with something other than the -inf sentinel", rel, n.lineno,
                       sample=u(n)[:120])
    col.floor("forward_mass_pad_sites", nf, 3)


def _dead_sources_excluded_from_merges(ctx, adv, rel):
    """S6: the masses live in probability space with -inf marking a slot that holds no prefix (fillers of an over-wide beam,
    extensions merged into an identical prefix). The merge of an extension into the identical existing prefix is a SUM over source
    slots selected by the prefix relation: `ext.gather(..).masked_fill(~exact, 0.0).sum(1)`. A dead source that is still recorded
    as a prefix contributes -inf and the real prefix it is merged into dies with it - with a beam wider than the number of
    distinct prefixes a whole label sequence (and its mass) disappears although nothing had to be pruned. Either the selection mask
    of every such sum, or the prefix relation handed to the next step, must derive from a liveness test of the masses
    (a comparison with -inf / isinf / isfinite)."""
    col = ctx.col
    rda = ReachingDefs(adv.node)
    st = SentinelTaint(adv, tainted_params={"probs_prev"})

    def liveness(e):
        for x in [e] + list(rda.derives(e).exprs):
            for y in ast.walk(x):
                if isinstance(y, ast.Compare) and any(is_neg_inf(z) for z in [y.left] + list(y.comparators)):
                    return True
                if isinstance(y, ast.Call) and call_name(y).split(".")[-1] in ("isinf", "isfinite", "isneginf"):
                    return True
        return False
    ret = [s_ for s_, _ in rda.return_envs][-1]
    rel_out = ret.value.elts[4] if isinstance(ret.value, ast.Tuple) and len(ret.value.elts) == 7 else None
    out_live = rel_out is not None and liveness(rel_out)
    sites, bad = 0, []
    for c in own_calls(adv.node):
        if not (isinstance(c.func, ast.Attribute) and c.func.attr == "sum" and c.args):
            continue
        recv = c.func.value
        if not (isinstance(recv, ast.Call) and isinstance(recv.func, ast.Attribute) and recv.func.attr == "masked_fill" and len(recv.args) == 2
                and u(recv.args[1]) in ("0.0", "0")):
            continue
        if not st.tainted(recv.func.value):
            continue
        sites += 1
        if not (out_live or liveness(recv.args[0])):
            bad.append(c)
    col.floor("merge_sum_sites", sites, 1)
    col.ob("G20", "S6", f"{rel}::ctc_prefix_search_advance::dead-slots-are-no-sources-of-a-merge", not bad,
           (f"`{u(bad[0])[:110]}` sums extension masses over the source slots selected by the prefix relation; a slot without mass "
            f"(-inf) that is still recorded as a prefix contributes -inf and kills the real prefix it is merged into - e.g. V = 1, T = 5, "
            f"width 10: the label sequence (0, 0, 0) with mass 0.12 is missing although only 4 distinct sequences exist. Neither the "
            f"selection mask nor the returned prefix relation is conjoined with a liveness test of the masses") if bad else "", rel,
           bad[0].lineno if bad else adv.line, sample=sites)


def _is_neg_inf_fill(rd, e) -> bool:
    der = rd.derives(e, max_depth=2)
    for c in der.calls():
        last = call_name(c).split(".")[-1]
        if last in ("full", "new_full", "full_like") and len(c.args) >= 2 and is_neg_inf(c.args[1]):
            return True
    return False


def _is_false_fill(rd, e) -> bool:
    der = rd.derives(e, max_depth=3)
    # a negated / complemented source is not False (`~false_` pads with True)
    for x in [e] + list(der.exprs):
        for y in ast.walk(x):
            if (isinstance(y, ast.UnaryOp) and isinstance(y.op, (ast.Invert, ast.Not))) or (
                    isinstance(y, ast.Call) and call_name(y).split(".")[-1] in ("logical_not", "ones", "new_ones", "ones_like", "bitwise_not")):
                return False
    for c in der.calls():
        last = call_name(c).split(".")[-1]
        if last in ("zeros", "new_zeros") and any(k.arg == "dtype" and u(k.value) == "torch.bool" for k in c.keywords):
            return True
        if last in ("full", "new_full") and len(c.args) >= 2 and u(c.args[1]) in ("False", "0") and any(
                k.arg == "dtype" and u(k.value) == "torch.bool" for k in c.keywords):
            return True
    return False


MANIFEST = dict(
    level_text=(
        "Static dataflow/taint analysis (no execution) of ctc_prefix_search_advance and CTCPrefixSearch.forward: "
        "argument/return slot roles of the blank and non-blank masses, index-space kinds (beam-local vs flat) and "
        "stride of the model-state re-indexing in shallow fusion, mix_by_mask argument roles, padding sentinels, and "
        "a taint analysis showing that no -inf padded mass reaches a multiplication by a 0/1 mask (NaN). These are "
        "necessary conditions ('never NaN', 'state follows the surviving prefixes'); equality of the reported mass "
        "with the prefix-beam recursion is numerical and not decided."
        " By value: ctc_prefix_search_advance driven from the empty prefix through 1-3 frames over 1-2 labels plus blank with beams wider than the reachable prefixes: distinct prefixes, exact alignment mass, order, empty slots behind (7 searches); pruned beams, language-model fusion values and lengths masks are not tabulated. The state handed to the fused model's first update_input is the caller's (backward slice of CTCPrefixSearch.forward interpreted with and without a state); the count of kept candidates is evaluated through its definitions."),
    level_note="Trusted: python ast, IEEE semantics of -inf*0, torch where/masked_fill. F12 (mass * mask) was found by "
               "G20 and repaired; F13 (-inf mass * probability under a saturated softmax) is a known finding.",
    technique="static analysis: taint analysis for the -inf sentinel, index-space kind checking, reaching definitions, argument binding; truth table of the fill-up test over (padded length, frames processed, width); the advance step interpreted over exact rationals and driven frame by frame, compared with brute-force enumeration of all alignments on a finite grid (beams wide enough that nothing is pruned); backward slice of the initial state interpreted over plain data",
    design_ref="DESIGN.md section 4 C05, section 3 G20/G14",
)



SHAPE_ONLY = {"view", "unsqueeze", "expand", "flatten", "reshape", "squeeze", "contiguous", "clone", "expand_as", "view_as"}


def _fusion_formula(ctx: Ctx, fwd, sl, pt, rel, where_f):
    """S1/S5 the score handed to the advance step as the extension probability, per fusion arm, as a polynomial over
    {beta, CTC (the frame's label probabilities), BLANK, SM[lm] (the fused model's softmax)}. Shape-only methods are
    transparent; `softmax`/`log_softmax`/`exp` move between the raw, log and probability domains. The documented arms:
      no model or beta == 0 : CTC
      plain shallow fusion  : CTC * SM[lm]^beta
      valid mixture         : (1 - beta) CTC + beta SM[lm] (1 - BLANK)"""
    from sa.norm import Poly, padd, pmul, pconst, patom, pstr
    col = ctx.col
    rd = sl.rd
    pm = parent_map(fwd.node)

    class Und(Exception):
        pass

    def leaf_role(name_node, d):
        v = d.value
        if d.kind == "unpack" and isinstance(v, ast.Call) and isinstance(v.func, ast.Attribute) and v.func.attr == "calc_idx_log_probs" \
                and d.slot == (0,):
            return ("R", pconst(1), "lm")
        # frame slices: X[t] of probs[..., :V] / probs[..., V]
        if isinstance(v, ast.Tuple) and d.kind == "unpack" and d.slot and len(d.slot) == 1:
            v = v.elts[d.slot[0]]
        if isinstance(v, ast.Subscript) and isinstance(v.value, ast.Name) and not isinstance(v.slice, (ast.Tuple, ast.Slice)):
            for d2 in rd.defs_of(v.value):
                v2 = d2.value
                if isinstance(v2, ast.Subscript) and isinstance(v2.slice, ast.Tuple) and len(v2.slice.elts) == 2 \
                        and isinstance(v2.slice.elts[0], ast.Constant) and v2.slice.elts[0].value is Ellipsis:
                    base = v2.value
                    bd = [x.value for x in rd.defs_of(base)] if isinstance(base, ast.Name) else []
                    if not (len(bd) == 1 and isinstance(bd[0], ast.Call) and isinstance(bd[0].func, ast.Attribute)
                            and bd[0].func.attr == "softmax"):
                        raise Und(f"`{u(v2)}` is not a slice of the frame softmax")
                    it = v2.slice.elts[1]
                    if isinstance(it, ast.Slice) and it.lower is None and it.upper is not None:
                        return ("P", patom("CTC"))
                    if not isinstance(it, ast.Slice):
                        return ("P", patom("BLANK"))
        return None

    def ev(e, depth=0):
        if depth > 30:
            raise Und("too deep")
        if isinstance(e, ast.Constant) and isinstance(e.value, (int, float)) and not isinstance(e.value, bool):
            from fractions import Fraction
            return ("P", pconst(Fraction(str(e.value))))
        if isinstance(e, ast.Attribute) and u(e.value) == "self":
            return ("P", patom(e.attr))
        if isinstance(e, ast.Name):
            ds = list(rd.defs_of(e))
            if len(ds) != 1:
                raise Und(f"`{e.id}` has {len(ds)} reaching definitions")
            r = leaf_role(e, ds[0])
            if r is not None:
                return r
            if ds[0].kind != "assign" or ds[0].value is None:
                raise Und(f"`{e.id}` is not a plain assignment")
            return ev(ds[0].value, depth + 1)
        if isinstance(e, ast.UnaryOp) and isinstance(e.op, ast.USub):
            k, *r = ev(e.operand, depth + 1)
            if k == "P":
                return ("P", pmul(pconst(-1), r[0]))
            return (k, pmul(pconst(-1), r[0]), r[1])
        if isinstance(e, ast.BinOp) and isinstance(e.op, (ast.Add, ast.Sub)):
            a, b = ev(e.left, depth + 1), ev(e.right, depth + 1)
            if a[0] != "P" or b[0] != "P":
                raise Und(f"`{u(e)[:60]}` adds values outside the probability domain")
            return ("P", padd(a[1], b[1], 1 if isinstance(e.op, ast.Add) else -1))
        if isinstance(e, ast.BinOp) and isinstance(e.op, ast.Mult):
            a, b = ev(e.left, depth + 1), ev(e.right, depth + 1)
            if a[0] == "P" and b[0] == "P":
                return ("P", pmul(a[1], b[1]))
            if a[0] == "P":
                a, b = b, a
            if b[0] != "P":
                raise Und(f"`{u(e)[:60]}` multiplies two log-domain values")
            return (a[0], pmul(a[1], b[1]), a[2])
        if isinstance(e, ast.Call) and isinstance(e.func, ast.Attribute):
            m = e.func.attr
            if m in SHAPE_ONLY:
                return ev(e.func.value, depth + 1)
            x = ev(e.func.value, depth + 1)
            if m == "softmax":
                if x[0] != "R":
                    raise Und(f"softmax of a {x[0]}-domain value")
                return ("P", patom(f"SM[{pstr(x[1])}*{x[2]}]"))
            if m == "log_softmax":
                if x[0] != "R":
                    raise Und(f"log_softmax of a {x[0]}-domain value")
                return ("L", pconst(1), f"SM[{pstr(x[1])}*{x[2]}]")
            if m == "exp":
                if x[0] == "L":
                    return ("P", patom(x[2] if pstr(x[1]) == "1" else f"{x[2]}^({pstr(x[1])})"))
                if x[0] == "R":
                    return ("P", patom(f"EXP[{pstr(x[1])}*{x[2]}]"))
                raise Und("exp of a probability")
            if m == "log":
                raise Und("log")
        raise Und(f"`{u(e)[:60]}` is outside the fusion-formula fragment")

    if not (isinstance(pt, ast.Tuple) and len(pt.elts) == 3 and isinstance(pt.elts[0], ast.Name)):
        raise AnalysisError("C05: the extension probability passed to the advance step is not a name")
    WANT = {
        "none": padd({}, patom("CTC")),
        "plain": pmul(patom("CTC"), patom("SM[1*lm]^(beta)")),
        "valid": padd(padd(patom("CTC"), pmul(patom("beta"), patom("CTC")), -1),
                      pmul(pmul(patom("beta"), patom("SM[1*lm]")), padd(pconst(1), patom("BLANK"), -1))),
    }
    seen = {}
    for d in rd.defs_of(pt.elts[0]):
        if d.stmt is None:
            continue
        gs = guards_of(pm, d.stmt)
        arm = None
        from sa.specialise import _eval as _sp_eval, _UNK
        for t, pol in gs:
            vv = _sp_eval(t, {"self.valid_mixture": True})
            if "valid_mixture" in u(t) and vv is not _UNK:
                arm = "valid" if bool(vv) == pol else "plain"
        if arm is None:
            for t, pol in gs:
                # the arm taken when there is no model
                vv = _sp_eval(t, {"self.lm": None})
                if vv is not _UNK and bool(vv) == pol:
                    arm = "none"
        if arm is None:
            col.undecided(f"{where_f}::extension-score: definition at line {d.line} is under no recognised fusion guard")
            continue
        try:
            r = ev(d.value)
            got = r[1] if r[0] == "P" else None
            why = "" if r[0] == "P" else f"a {r[0]}-domain value"
        except Und as ex:
            got, why = None, str(ex)
        seen[arm] = True
        if got is None and not why.endswith("-domain value"):
            col.undecided(f"{where_f}::extension-score[{arm}]: {why}")
            continue
        ok = got is not None and got == WANT[arm]
        col.ob("G13", "S1", f"{where_f}::extension-score[{arm}]", ok,
               f"in the {arm!r} fusion arm the extension probability is {pstr(got) if got is not None else why}, not "
               f"{pstr(WANT[arm])}: the reported mass is no longer what the prefix-beam recursion assigns with the documented "
               f"fusion score (beta scales the normalised log-probability; the mixture uses the model's softmax)", rel, d.line,
               sample=pstr(got) if got is not None else why)
    col.floor("fusion_arms", len(seen), 3)



def _mass_constants(ctx: Ctx, adv, rel, where_a):
    """S3 a probability-space mass is either a genuine mass or one of the two documented sentinels: 0 (nothing there) and -inf
    (removed from the ranking). Any other constant written into a tensor that derives from the step's masses (masked_fill /
    scatter / where with a literal) gives a slot a mass that is neither - a finite negative one outranks the -inf fillers once
    the width exceeds the live prefixes, a positive one adds mass no alignment has."""
    col = ctx.col
    rd = ReachingDefs(adv.node)
    mass_params = {adv.params[i].name for i in (0, 4) if i < len(adv.params)}
    if len(mass_params) != 2:
        raise AnalysisError("C05: ctc_prefix_search_advance lost its (probs_t, ..., probs_prev) formals")
    sites = []

    def lit(e):
        if is_neg_inf(e):
            return "-inf"
        if isinstance(e, ast.UnaryOp) and isinstance(e.op, ast.USub) and isinstance(e.operand, ast.Constant) \
                and isinstance(e.operand.value, (int, float)):
            return -e.operand.value
        if isinstance(e, ast.Constant) and isinstance(e.value, (int, float)) and not isinstance(e.value, bool):
            return e.value
        return None
    for c in own_calls(adv.node):
        if not isinstance(c.func, ast.Attribute):
            continue
        m = c.func.attr
        val = None
        if m in ("masked_fill", "masked_fill_") and len(c.args) == 2:
            val = c.args[1]
        elif m in ("scatter", "scatter_") and len(c.args) == 3:
            val = c.args[2]
        elif m in ("fill_", "index_fill", "index_fill_") and c.args:
            val = c.args[-1]
        if val is None:
            continue
        v = lit(val)
        if v is None:
            continue
        if not (rd.derives(c.func.value).params() & mass_params):
            continue
        # integer-typed bookkeeping (lengths, tokens) is not a mass: a mass receiver derives from the float params only
        sites.append((c, v))
    bad = [(c, v) for c, v in sites if not (v == "-inf" or v == 0)]
    col.ob("G13", "S3", f"{where_a}::mass-constants-are-0-or-neg-inf", bool(sites) and not bad,
           f"`{u(bad[0][0])[:90] if bad else ''}` writes the constant {bad[0][1] if bad else ''} into a mass: a slot without a "
           f"real prefix must carry 0 or -inf, and a finite negative value outranks the -inf fillers so that merged-away "
           f"duplicates enter a beam wider than the live prefixes", rel, bad[0][0].lineno if bad else adv.line,
           sample=[f"{u(c)[-50:]} -> {v}" for c, v in sites])
    col.floor("mass_constant_sites", len(sites), 3)


def _beam_filled_when_no_frame_was_processed(ctx: Ctx, fwd, rel: str, where_f: str):
    """S6: the search returns `width` slots per element whatever happened. The beam starts one slot wide (the empty prefix) and
    becomes `width` wide in the first processed frame; the frame loop runs `max(lens)` times, NOT `T` times, so for a padded batch
    whose every element is empty no frame is processed although T > 0. The fill-up after the loop must therefore run exactly when
    the beam still has one slot and width != 1. Decided as a truth table: the test of every `if` that follows the frame loop and
    reads the slot counter, the loop's trip count or the padded length is evaluated (sa/inteval.py) in the states
    (padded length T, frames processed L <= T, configured width), with the slot counter 1 if L == 0 else width."""
    from sa.inline import Inliner
    from sa.inteval import NotEvaluable, int_eval
    col = ctx.col
    body = fwd.node.body
    loops = [st for st in body if isinstance(st, ast.For) and isinstance(st.iter, ast.Call) and call_name(st.iter) == "range" and len(st.iter.args) == 1]
    if not loops:
        raise AnalysisError("C05: the frame loop `for t in range(...)` of CTCPrefixSearch.forward was not found at the top level")
    loop = loops[-1]
    rd = ReachingDefs(fwd.node)
    # the slot counter: a name set to 1 before the loop and to the configured width inside it
    inside = {n.targets[0].id for n in ast.walk(loop) if isinstance(n, ast.Assign) and len(n.targets) == 1 and isinstance(n.targets[0], ast.Name)
              and u(n.value) == "self.width"}
    before = {n.targets[0].id for n in body[:body.index(loop)] if isinstance(n, ast.Assign) and len(n.targets) == 1 and isinstance(n.targets[0], ast.Name)
              and isinstance(n.value, ast.Constant) and n.value.value == 1}
    counters = inside & before
    if len(counters) != 1:
        col.undecided(f"{where_f}: the slot counter (1 before the frame loop, self.width inside it) was not found: {sorted(counters)}")
        return
    W = next(iter(counters))
    trip = loop.iter.args[0]
    trip_names = {x.id for x in ast.walk(trip) if isinstance(x, ast.Name)}
    # the padded length: first component of the shape of the first tensor argument
    first = [p.name for p in fwd.params if p.name != "self"][0]
    Tn = None
    for n in own_nodes(fwd.node):
        if isinstance(n, ast.Assign) and isinstance(n.targets[0], ast.Tuple) and u(n.value) in (f"{first}.shape", f"{first}.size()") \
                and isinstance(n.targets[0].elts[0], ast.Name):
            Tn = n.targets[0].elts[0].id
    after = body[body.index(loop) + 1:]
    inl = Inliner(fwd.node, rd, keep=tuple({W} | trip_names | ({Tn} if Tn else set())))
    # the statements of the fill-up: every assignment nested (at any depth) in an `if` that follows the loop and reads one of these
    # names; each runs under the conjunction of its enclosing tests (`if W == 1: if width != 1:` is the same condition)
    pm = parent_map(fwd.node)
    vocab = {W} | trip_names | ({Tn} if Tn else set())
    tests = []
    for st in after:
        if isinstance(st, ast.If) and any(isinstance(x, ast.Name) and x.id in vocab for t_ in [x_.test for x_ in ast.walk(st) if isinstance(x_, ast.If)]
                                          for x in ast.walk(inl.expand(t_))):
            for a_ in ast.walk(st):
                if isinstance(a_, (ast.Assign, ast.AugAssign)):
                    gs = [(t_, pol_) for t_, pol_ in guards_of(pm, a_) if any(t_ is x_.test for x_ in ast.walk(st) if isinstance(x_, ast.If))]
                    tests.append((a_, [(inl.expand(t_), pol_) for t_, pol_ in gs]))
    col.floor("fill_up_tests_after_the_frame_loop", len(tests), 1)
    bad = None
    try:
        for st, gs in tests:
            for T_ in (0, 4):
                for L in sorted({0, min(2, T_), T_}):
                    for width in (1, 3):
                        env = {W: 1 if L == 0 else width, "self.width": width}
                        if Tn:
                            env[Tn] = T_
                        env[u(trip)] = L
                        for nm in trip_names:
                            env.setdefault(nm, L)
                        got = all(bool(int_eval(ex, env)) == pol_ for ex, pol_ in gs)
                        want = env[W] == 1 and width != 1
                        if got != want and bad is None:
                            bad = (st, T_, L, width, got, " and ".join(("" if pol_ else "not ") + u(ex)[:40] for ex, pol_ in gs))
    except NotEvaluable as e:
        col.undecided(f"{where_f}: the test of the fill-up after the frame loop depends on something else than the slot counter, the "
                      f"number of processed frames and the padded length ({e})")
        return
    col.ob("G12", "S6", f"{where_f}::beam-filled-exactly-when-no-frame-was-processed", bad is None,
           (f"`{u(bad[0])[:50]}` runs under `{bad[5]}`, which is {bad[4]} for a batch padded to T={bad[1]} of which {bad[2]} frame(s) were processed (max(lens)={bad[2]}) "
            f"with width={bad[3]}; the beam then has {1 if bad[2] == 0 else bad[3]} slot(s), so the fill-up to `width` slots must "
            f"{'run' if not bad[4] else 'not run'}: the result has the wrong number of slots (an all-empty padded batch returns a single slot "
            f"instead of `width`)") if bad else "", rel, bad[0].lineno if bad else loop.lineno, sample=dict(tests=len(tests)))


def _search_table(ctx: Ctx, adv, rel: str):
    """S9 by value: `ctc_prefix_search_advance` is interpreted over exact values (sa/interp.py + sa/teval.py; nothing is run) and driven
    frame by frame from the single empty prefix, the way the documented loop drives it without a language model (extension scores = the
    frame's label probabilities for every slot). Beams are wider than the number of reachable prefixes (so nothing is pruned, and the
    'beam wider than the candidates' padding runs in the first frames), vocabularies of 1 and 2 labels plus blank, 1-3 frames, generic
    rational frame probabilities (no ties among positive masses; candidates without mass tie-break by index - they carry no prefix), one
    and two batch elements. After the last frame, per element: the slots with positive mass hold DISTINCT label sequences, exactly the
    sequences some alignment collapses to, each with the exact total probability of its alignments (brute-force enumeration), in order
    of non-increasing mass, and every other slot carries 0 or -inf (never NaN) behind them. False when outside the interpreted fragment."""
    import itertools
    import math
    import numpy as np
    from fractions import Fraction as Fr
    import sa.teval as TE
    from sa.interp import Interp
    from sa.inteval import NotEvaluable
    from sa.teval import frac_array
    col = ctx.col
    names = [p_.name for p_ in adv.params]
    if len(names) != 7:
        return False

    def frame_probs(T, V, seed):
        pr = [2, 3, 5, 7, 11, 13, 17, 19, 23, 29, 31, 37, 41, 43, 47]
        out = []
        for t in range(T):
            w = [pr[(seed + 3 * t + 5 * v) % len(pr)] + t for v in range(V + 1)]
            out.append([Fr(x, sum(w)) for x in w])
        return out

    def brute(probs):
        T, V = len(probs), len(probs[0]) - 1
        out = {}
        for path in itertools.product(range(V + 1), repeat=T):
            p = Fr(1)
            for t, s_ in enumerate(path):
                p *= probs[t][s_]
            seq, prev = [], None
            for s_ in path:
                if s_ != prev and s_ != V:
                    seq.append(s_)
                prev = s_
            out[tuple(seq)] = out.get(tuple(seq), 0) + p
        return out

    def search(batch, width):
        N, T, V = len(batch), len(batch[0]), len(batch[0][0]) - 1
        y = np.empty((0, N, 1), dtype=object)
        last, lens = frac_array([[0]] * N), frac_array([[0]] * N)
        nb, b = frac_array([[0]] * N), frac_array([[1]] * N)
        isp = np.ones((N, 1, 1), dtype=bool)
        for t in range(T):
            Kp = lens.shape[1]
            nonext = frac_array([batch[n][t][:V] for n in range(N)])
            blank = frac_array([batch[n][t][V] for n in range(N)])
            ext = np.broadcast_to(nonext[:, None, :], (N, Kp, V)).copy()
            holder = {}

            def leaf(x, env):
                if isinstance(x, ast.Call) and call_name(x) == "trunc_divide" and len(x.args) == 2:
                    a_, d_ = holder["it"].eval(x.args[0], env), holder["it"].eval(x.args[1], env)
                    return np.vectorize(lambda v_: Fr(int(v_) // int(d_)) if v_ >= 0 else Fr(-((-int(v_)) // int(d_))), otypes=[object])(a_)
                return None
            it = Interp(leaf=leaf, tensors=True)
            holder["it"] = it
            kind, got = it.run(adv.node, dict(zip(names, ((ext, nonext, blank), width, (nb, b), y, last, lens, isp))))
            if kind != "return" or not isinstance(got, tuple) or len(got) != 7:
                return f"frame {t}: {kind} {str(got)[:80]}"
            y, last, lens, (nb, b), isp = got[0], got[1], got[2], got[3], got[4]
        return y, lens, nb, b
    bad, rows = None, 0
    old = TE.TIE_BREAK_BY_INDEX_AT_OR_BELOW
    TE.TIE_BREAK_BY_INDEX_AT_OR_BELOW = 0
    try:
        for V, T, width, seeds in ((1, 1, 3, (1,)), (1, 3, 6, (1, 4)), (2, 1, 5, (2,)), (2, 2, 10, (1, 2)), (2, 3, 17, (1, 3)), (2, 3, 12, (5,)), (2, 2, 6, (7,))):
            batch = [frame_probs(T, V, s_) for s_ in seeds]
            res = search(batch, width)
            rows += 1
            if isinstance(res, str):
                bad = bad or (V, T, width, 0, res, None)
                continue
            y, lens, nb, b = res
            for n, probs in enumerate(batch):
                want = {k: v for k, v in brute(probs).items() if v > 0}
                got, problem, seen_dead, prev_m = {}, None, False, None
                for k in range(lens.shape[1]):
                    m = nb[n, k] + b[n, k]
                    if m != m:
                        problem = problem or f"slot {k} carries NaN"
                        continue
                    if m > 0:
                        seq = tuple(int(y[i, n, k]) for i in range(int(lens[n, k])))
                        if seen_dead:
                            problem = problem or f"the prefix {seq} with mass {m} sits behind a slot without mass"
                        if prev_m is not None and m > prev_m:
                            problem = problem or f"the masses are not in non-increasing order at slot {k}"
                        prev_m = m
                        if seq in got:
                            problem = problem or f"the prefix {seq} is returned twice with positive mass"
                        got[seq] = m
                    else:
                        seen_dead = True
                        if m != 0 and m != -math.inf:
                            problem = problem or f"slot {k} carries the mass {m}"
                if problem is None and got != want:
                    diff = [k for k in sorted(set(got) | set(want)) if got.get(k) != want.get(k)][:3]
                    problem = "; ".join(f"prefix {k}: reported {got.get(k, 'absent')}, total probability of its alignments {want.get(k, 'none - no alignment collapses to it')}" for k in diff)
                if problem and bad is None:
                    bad = (V, T, width, n, problem, [[str(p_) for p_ in fr_] for fr_ in probs])
    except NotEvaluable:
        return False
    finally:
        TE.TIE_BREAK_BY_INDEX_AT_OR_BELOW = old
    col.count("prefix_search_table_rows", rows)
    col.ob("G12", "S9", f"{rel}::ctc_prefix_search_advance::prefix-mass-table", bad is None,
           (f"{bad[0]} label(s) plus blank, {bad[1]} frame(s), width {bad[2]} (nothing is pruned), batch element {bad[3]}, frame probabilities {bad[5]}: {bad[4]}") if bad else "",
           rel, adv.line, sample=dict(rows=rows))
    return True


def _mutants():
    from selftest.mutate import Mutant as M
    D = "_decoding.py"
    return [
        M("merged-duplicate-finite-fill", D, "nb_ext_probs_cand = nb_ext_probs_cand.masked_fill(has_match, -float('inf'))",
          "nb_ext_probs_cand = nb_ext_probs_cand.masked_fill(has_match, -1.0)", "mass-constants-are-0-or-neg-inf"),
        M("beta-scales-before-normalising", D, "lm_log_probs_t = lm_log_probs_t.log_softmax(-1)", "lm_log_probs_t = (self.beta * lm_log_probs_t).log_softmax(-1)", "extension-score[plain]"),
        M("mixture-exp-for-softmax", D, "lm_log_probs_t.softmax(-1).view(N, prev_width, V)", "lm_log_probs_t.exp().view(N, prev_width, V)", "extension-score[valid]"),
        M("mixture-forgets-blank", D, " * (1 - blank_probs_t.view(N, 1, 1))", " * (1 - blank_probs_t.view(N, 1, 1) * 0)", "extension-score[valid]"),
        M("fused-merge-swapped", "_lm.py", "return self.merge_dicts(prev_first, prev_second)", "return self.merge_dicts(prev_second, prev_first)", "merge_dicts[", -1),
        M("fused-mix-crosses-components", "_lm.py", "prev_second = self.second.mix_by_mask(prev_second_true, prev_second_false, mask)", "prev_second = self.second.mix_by_mask(prev_first_true, prev_second_false, mask)", "own-state"),
        M("mass-times-mask-again", D, "b_nonext_probs_cand.gather(1, next_src).masked_fill(~next_is_nonext, 0.0)",
          "b_nonext_probs_cand.gather(1, next_src) * next_is_nonext", "neg-inf-mass*bool-mask"),
        M("nb-mass-times-mask", D, "nb_probs_next = torch.where(next_is_nonext, nb_nonext_probs_next, nb_ext_probs_next)",
          "nb_probs_next = nb_nonext_probs_next * next_is_nonext + nb_ext_probs_next * ~next_is_nonext", "neg-inf-mass*bool-mask"),
        M("swap-fed-back-masses", D, "nb_probs_prev, b_probs_prev = (nb_probs_next, b_probs_next)",
          "nb_probs_prev, b_probs_prev = (b_probs_next, nb_probs_next)", "probs_prev<-(nb, b)"),
        M("swap-fed-back-masses-where", D, "b_probs_prev = torch.where(valid_mask, b_probs_next, b_probs_prev)",
          "b_probs_prev = torch.where(valid_mask, nb_probs_next, b_probs_prev)", "probs_prev<-(nb, b)"),
        M("swap-probs-t", D, "(ext_probs_t, nonext_probs_t, blank_probs_t), self.width", "(ext_probs_t, blank_probs_t, nonext_probs_t), self.width",
          "probs_t=(ext, nonext, blank)"),
        M("return-masses-swapped", D, "(nb_probs_next, b_probs_next), next_is_prefix", "(b_probs_next, nb_probs_next), next_is_prefix",
          "G2/S1"),
        M("state-local-index", D, "prev = self.lm.extract_by_src(prev, next_src.flatten())\nin_next",
          "prev = self.lm.extract_by_src(prev, next_is_nonext.flatten().long())\nin_next", "G1"),
        M("mix-args-swapped", D, "self.lm.mix_by_mask(prev, in_next, next_is_nonext.flatten())",
          "self.lm.mix_by_mask(in_next, prev, next_is_nonext.flatten())", "mix_by_mask(prev_true=old"),
        M("mix-mask-negated", D, "self.lm.mix_by_mask(prev, in_next, next_is_nonext.flatten())",
          "self.lm.mix_by_mask(prev, in_next, ~next_is_nonext.flatten())", "mix_by_mask(mask"),
        M("stride-wrong", D, "torch.arange(0, prev_width * N, prev_width, device=next_src.device).unsqueeze(1) + next_src\nprev = self.lm.extract_by_src(prev",
          "torch.arange(0, self.width * N, self.width, device=next_src.device).unsqueeze(1) + next_src\nprev = self.lm.extract_by_src(prev", "stride"),
        M("pad-mass-with-zero", D, "neg_inf = torch.full((N, rem), -float('inf'), device=device, dtype=dtype)",
          "neg_inf = torch.full((N, rem), 0.0, device=device, dtype=dtype)", "pad-mass"),
        M("pad-relation-true", D, "false_ = torch.zeros((N, rem), device=device, dtype=torch.bool)",
          "false_ = torch.ones((N, rem), device=device, dtype=torch.bool)", "pad-prefix-relation"),
        M("forward-pad-zero", D, "neg_inf = nb_probs_prev.new_full((N, self.width - prev_width), -float('inf'))",
          "neg_inf = nb_probs_prev.new_full((N, self.width - prev_width), 0.0)", "CTCPrefixSearch.forward::pad-mass"),
        M("only-one-state-reindexed", D, "in_next = self.lm.extract_by_src(in_next, next_src.flatten())", "pass",
          "G16/S2"),
        M("merge-on-length-alone", D, "ext_is_exact = ((y_prev_lens + 1).unsqueeze(2) == y_prev_lens.unsqueeze(1)) & prev_is_prefix", "ext_is_exact = (y_prev_lens + 1).unsqueeze(2) == y_prev_lens.unsqueeze(1)", "merge-mask-uses-prefix-relation"),
        M("K-too-small", D, "K = min(width, Kp * (V + 1))", "K = min(width, Kp * V)", "K=min(width"),
        M("twin:where-form", D, "b_nonext_probs_cand.gather(1, next_src).masked_fill(~next_is_nonext, 0.0)",
          "torch.where(next_is_nonext, b_nonext_probs_cand.gather(1, next_src), torch.zeros_like(nb_probs_next))", "", twin=True),
    ]


def selftest(ctx: Ctx):
    from selftest.mutate import run_selftest
    return run_selftest("C05", ctx.pkg.repo, _mutants(), floor=12)
