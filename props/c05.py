"""C05: structural clauses (see DESIGN.md section 4)."""
from __future__ import annotations

from rules import fwd as R_fwd
from .common import Ctx, plumbing


def run(ctx: Ctx):
    plumbing(ctx, 'S1')
    return dict(explanation='plumbing clauses only (work in progress)', decided=['S1'], not_decided=[])
