"""Forward substitution of temporaries. `Inliner(func).expand(expr)` returns a copy of `expr` in which every local name that has
exactly one reaching definition - a plain assignment whose right-hand side reads nothing that is re-defined between the
definition and the use - is replaced by (the expansion of) that right-hand side. Rules that compare the *shape* of an expression
use the expansion, so that introducing or inlining a well-named temporary (`idx = torch.arange(n)` ... `idx.unsqueeze(1)`) does
not change what they see. Parameters, loop variables, augmented / unpacked / multiply-defined names are left alone."""
from __future__ import annotations

import ast
import copy
from typing import Optional

from .astutil import enclosing_stmt, parent_map
from .defuse import ReachingDefs


class Inliner:
    def __init__(self, func_node: ast.AST, rd: Optional[ReachingDefs] = None, max_depth: int = 8, keep=()):
        self.func = func_node
        self.rd = rd or ReachingDefs(func_node)
        self.pm = parent_map(func_node)
        self.max_depth = max_depth
        self.keep = set(keep)  # names never expanded (the rule wants to see them)
        self.orig = {}  # id(copied Name) -> the Name node of the function it stands for
        self._held = []  # copies are kept alive so that their ids stay unique

    def _env_at(self, node: ast.AST):
        st = enclosing_stmt(self.pm, node)
        return self.rd.stmt_env_in.get(id(st)) if st is not None else None

    def value_of(self, name: ast.Name) -> Optional[ast.expr]:
        if not isinstance(name, ast.Name) or name.id in self.keep:
            return None
        if not isinstance(name.ctx, ast.Load) and id(self.orig.get(id(name), name)) not in self.rd.use_defs:
            return None  # (the target of an augmented assignment is read too: its uses are recorded)
        ds = list(self.rd.defs_of(self.orig.get(id(name), name)))
        if len(ds) != 1:
            return None
        d = ds[0]
        if d.value is None or d.stmt is None:
            return None
        if d.kind == "aug" and isinstance(d.stmt, ast.AugAssign) and isinstance(d.stmt.target, ast.Name):
            # x op= v   is   x = x op v   with the left x being the previous version (its own reaching definitions)
            value = ast.copy_location(ast.BinOp(left=d.stmt.target, op=d.stmt.op, right=d.stmt.value), d.stmt)
            self._held.append(value)
            env_use = self._env_at(name)
            if env_use is None:
                return None
            for y in ast.walk(d.stmt.value):
                if isinstance(y, ast.Name) and isinstance(y.ctx, ast.Load) and y.id != name.id:
                    if self.rd.defs_of(y) and self.rd.defs_of(y) != env_use.get(y.id, frozenset()):
                        return None
            return value
        value = d.value
        if d.kind == "unpack" and isinstance(value, (ast.Tuple, ast.List)) and d.slot and len(d.slot) == 1 \
                and isinstance(d.stmt, ast.Assign) and len(d.stmt.targets) == 1 and isinstance(d.stmt.targets[0], (ast.Tuple, ast.List)) \
                and len(d.stmt.targets[0].elts) == len(value.elts) and not any(isinstance(x, ast.Starred) for x in value.elts):
            # a, b = x, y   (parallel assignment of displays)
            tnames = {t.id for t in d.stmt.targets[0].elts if isinstance(t, ast.Name)}
            if any(isinstance(y, ast.Name) and y.id in tnames for y in ast.walk(value)):
                return None  # a, b = b, a
            value = value.elts[d.slot[0]]
        elif d.kind != "assign":
            return None
        elif isinstance(d.stmt, ast.Assign) and len(d.stmt.targets) > 1:
            # chained assignment  self.a = b = expr : the name b holds expr
            if not any(isinstance(t, ast.Name) and t.id == name.id for t in d.stmt.targets):
                return None
        elif not (isinstance(d.stmt, ast.Assign) and len(d.stmt.targets) == 1):
            return None
        elif isinstance(d.stmt.targets[0], (ast.Tuple, ast.List)):
            # parallel assignment recorded element-wise: a, b = x, y (not a swap)
            tnames = {t.id for t in d.stmt.targets[0].elts if isinstance(t, ast.Name)}
            if any(isinstance(y, ast.Name) and y.id in tnames for y in ast.walk(d.stmt.value)):
                return None
        elif not isinstance(d.stmt.targets[0], ast.Name):
            return None
        env_use = self._env_at(name)
        if env_use is None:
            return None
        bound_inside = set()
        for y in ast.walk(value):
            if isinstance(y, ast.Lambda):
                bound_inside |= {a.arg for a in y.args.args + y.args.kwonlyargs}
            elif isinstance(y, ast.comprehension):
                bound_inside |= {t.id for t in ast.walk(y.target) if isinstance(t, ast.Name)}
        for y in ast.walk(value):
            if isinstance(y, ast.Name) and isinstance(y.ctx, ast.Load) and y.id not in bound_inside:
                at_def = self.rd.defs_of(y)
                at_use = env_use.get(y.id, frozenset())
                if y.id == name.id:
                    continue  # x = f(x): the inner x is the previous version, fixed by its own defs
                if at_def and at_def != at_use:
                    return None
        return value

    def expand(self, e: ast.AST, depth: int = 0) -> ast.AST:
        if isinstance(e, ast.Name):
            v = self.value_of(e) if depth < self.max_depth else None
            if v is not None:
                return self.expand(v, depth + 1)
            c = copy.copy(e)
            o = self.orig.get(id(e), e)
            self.orig[id(c)] = o
            self._held.append(c)
            if id(o) in self.rd.use_defs:
                self.rd.use_defs[id(c)] = self.rd.use_defs[id(o)]  # the copy answers defs_of / derives like the original
            return c
        if not isinstance(e, ast.AST):
            return e
        new = copy.copy(e)
        for fld, val in ast.iter_fields(e):
            if isinstance(val, list):
                setattr(new, fld, [self.expand(x, depth) if isinstance(x, ast.AST) else x for x in val])
            elif isinstance(val, ast.AST):
                setattr(new, fld, self.expand(val, depth))
        return new

    def defs_of(self, name: ast.Name):
        """Reaching definitions of a Name of the function or of a copy made by expand()."""
        return self.rd.defs_of(self.orig.get(id(name), name))

    def text(self, e: ast.AST) -> str:
        return ast.unparse(self.expand(e))
