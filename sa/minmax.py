"""Min/max-linear abstract expressions.

`extract` turns a source expression (followed backwards through single reaching definitions) into a small term
over named leaves:  int | ('leaf', name) | ('neg', a) | ('add', a, b) | ('sub', a, b) | ('max', a, b) |
('min', a, b) | ('zero_if', a, cond)   with   cond = ('cmp', op, a, b).
`equivalent` decides whether two such terms denote the same integer function over a finite grid of leaf values that
the caller supplies (the grid has a point in every sign cell of the small-coefficient linear forms that occur in the
pad/slice arithmetic). This evaluates the *abstract term*, never code of the analysed repository.
"""
from __future__ import annotations

import ast
import itertools
from typing import Callable, Dict, Iterable, List, Optional, Tuple

from .astutil import call_name, kwarg, u
from .defuse import ReachingDefs


class Unknown(Exception):
    pass


def _all_slices(sl) -> bool:
    items = sl.elts if isinstance(sl, ast.Tuple) else [sl]
    return all(isinstance(i, ast.Slice) for i in items)


PASS_METHODS = {"contiguous", "clone", "long", "detach", "to", "int", "float", "item", "unsqueeze", "expand", "view", "squeeze",
                "expand_as", "reshape", "flatten"}


class Extractor:
    def __init__(self, rd: ReachingDefs, leaf_of_def: Callable, leaf_of_expr: Callable = None, max_depth: int = 25,
                 term_hook: Callable = None, cond_hook: Callable = None):
        self.row_level = False  # treat X.max() / X.min() over the batch as the row's own X (single-row necessary condition)
        self.index_leaf = None  # set to a leaf name to turn torch.arange(a, b, c) into a + k * c with k < (b - a) / c
        self.term_hook = term_hook  # (expr, extractor, depth) -> term or None
        self.cond_hook = cond_hook
        self.constraints = []  # domain conditions collected while passing index ranges (torch.arange)
        self.rd = rd
        self.leaf_of_def = leaf_of_def  # (Def) -> leaf name or None
        self.leaf_of_expr = leaf_of_expr or (lambda e: None)
        self.max_depth = max_depth

    def cond(self, e: ast.AST, depth: int = 0):
        if depth > self.max_depth:
            raise Unknown("depth")
        if self.cond_hook is not None:
            h = self.cond_hook(e, self, depth)
            if h is not None:
                return h
        if isinstance(e, ast.Call) and isinstance(e.func, ast.Attribute) and e.func.attr in PASS_METHODS:
            return self.cond(e.func.value, depth + 1)
        if isinstance(e, ast.Subscript) and _all_slices(e.slice):
            return self.cond(e.value, depth + 1)
        if isinstance(e, ast.BinOp) and isinstance(e.op, (ast.BitAnd, ast.BitOr)):
            return ("and" if isinstance(e.op, ast.BitAnd) else "or", self.cond(e.left, depth + 1), self.cond(e.right, depth + 1))
        if isinstance(e, ast.UnaryOp) and isinstance(e.op, ast.Invert):
            return ("not", self.cond(e.operand, depth + 1))
        if isinstance(e, ast.Name):
            ds = list(self.rd.defs_of(e))
            if len(ds) == 1 and ds[0].kind == "assign":
                return self.cond(ds[0].value, depth + 1)
            if len(ds) == 1 and ds[0].kind == "unpack" and isinstance(ds[0].value, ast.Tuple) and ds[0].slot \
                    and len(ds[0].slot) == 1 and ds[0].slot[0] < len(ds[0].value.elts):
                return self.cond(ds[0].value.elts[ds[0].slot[0]], depth + 1)
            raise Unknown(f"condition `{u(e)}` has {len(ds)} definitions")
        if isinstance(e, ast.Compare) and len(e.ops) == 1:
            op = {ast.Eq: "==", ast.NotEq: "!=", ast.Lt: "<", ast.LtE: "<=", ast.Gt: ">", ast.GtE: ">="}.get(type(e.ops[0]))
            if op:
                return ("cmp", op, self.term(e.left, depth + 1), self.term(e.comparators[0], depth + 1))
        if isinstance(e, ast.Call) and isinstance(e.func, ast.Attribute) and e.func.attr in ("eq", "ne", "lt", "le", "gt", "ge") and len(e.args) == 1:
            op = {"eq": "==", "ne": "!=", "lt": "<", "le": "<=", "gt": ">", "ge": ">="}[e.func.attr]
            return ("cmp", op, self.term(e.func.value, depth + 1), self.term(e.args[0], depth + 1))
        raise Unknown(f"condition `{u(e)}`")

    def _if_defined(self, ds, depth):
        """A name with two definitions chosen by one test: `x = a; if c: x = b` or `if c: x = b else: x = a` -> ite(c, b, a)."""
        if len(ds) != 2 or not all(d.kind == "assign" and d.value is not None and getattr(d, "stmt", None) is not None for d in ds):
            return None
        from .astutil import parent_map
        pm = getattr(self, "_pm", None)
        if pm is None:
            pm = self._pm = parent_map(self.rd.func)
        d1, d2 = sorted(ds, key=lambda d: d.line)
        p1, p2 = pm.get(d1.stmt), pm.get(d2.stmt)
        if isinstance(p2, ast.If) and any(d2.stmt is s_ for s_ in p2.body) and not p2.orelse and p1 is pm.get(p2):
            return ("ite", self.cond(p2.test, depth + 1), self.term(d2.value, depth + 1), self.term(d1.value, depth + 1))
        if isinstance(p1, ast.If) and p1 is p2 and any(d1.stmt is s_ for s_ in p1.body) and any(d2.stmt is s_ for s_ in p1.orelse):
            return ("ite", self.cond(p1.test, depth + 1), self.term(d1.value, depth + 1), self.term(d2.value, depth + 1))
        return None

    def term(self, e: ast.AST, depth: int = 0):
        if depth > self.max_depth:
            raise Unknown("depth")
        if self.term_hook is not None:
            h = self.term_hook(e, self, depth)
            if h is not None:
                return h
        lf = self.leaf_of_expr(e)
        if lf is not None:
            return ("leaf", lf)
        if isinstance(e, ast.Constant) and isinstance(e.value, int) and not isinstance(e.value, bool):
            return int(e.value)
        if isinstance(e, ast.Name):
            ds = list(self.rd.defs_of(e))
            leaves = {self.leaf_of_def(d) for d in ds}
            if len(leaves) == 1 and None not in leaves:
                return ("leaf", leaves.pop())
            if len(ds) == 1 and ds[0].kind == "assign" and ds[0].value is not None:
                return self.term(ds[0].value, depth + 1)
            if len(ds) == 1 and ds[0].kind == "unpack" and isinstance(ds[0].value, ast.Tuple) and ds[0].slot \
                    and len(ds[0].slot) == 1 and ds[0].slot[0] < len(ds[0].value.elts):
                return self.term(ds[0].value.elts[ds[0].slot[0]], depth + 1)
            if len(ds) == 1 and ds[0].kind == "aug":
                d = ds[0]
                prev = list(getattr(d, "prev", ()))
                st = d.value
                if len(prev) == 1 and isinstance(st, ast.AugAssign) and isinstance(st.op, (ast.Add, ast.Sub)):
                    tl = ast.Name(id=d.name, ctx=ast.Load())
                    self.rd.use_defs[id(tl)] = frozenset(prev)
                    a, b = self.term(tl, depth + 1), self.term(st.value, depth + 1)
                    return ("add" if isinstance(st.op, ast.Add) else "sub", a, b)
            ite = self._if_defined(ds, depth)
            if ite is not None:
                return ite
            raise Unknown(f"`{e.id}` has {len(ds)} reaching definitions ({sorted(d.kind for d in ds)})")
        if isinstance(e, ast.UnaryOp) and isinstance(e.op, ast.USub):
            return ("neg", self.term(e.operand, depth + 1))
        if isinstance(e, ast.BinOp) and isinstance(e.op, (ast.Add, ast.Sub)):
            return ("add" if isinstance(e.op, ast.Add) else "sub", self.term(e.left, depth + 1), self.term(e.right, depth + 1))
        if isinstance(e, ast.BinOp) and isinstance(e.op, (ast.Mult, ast.FloorDiv, ast.Div)):
            k = {ast.Mult: "mul", ast.FloorDiv: "floordiv", ast.Div: "div"}[type(e.op)]
            return (k, self.term(e.left, depth + 1), self.term(e.right, depth + 1))
        if isinstance(e, ast.Constant) and isinstance(e.value, float) and e.value == int(e.value):
            return int(e.value)
        if isinstance(e, ast.Call) and call_name(e) == "torch.arange" and self.index_leaf is not None:
            pos = list(e.args)
            if len(pos) == 1:
                a, b, c = 0, self.term(pos[0], depth + 1), 1
            elif len(pos) == 2:
                a, b, c = self.term(pos[0], depth + 1), self.term(pos[1], depth + 1), 1
            elif len(pos) == 3:
                a, b, c = (self.term(x, depth + 1) for x in pos)
            else:
                raise Unknown("arange arity")
            el = ("add", a, ("mul", ("leaf", self.index_leaf), c))
            cstr = ("cmp", "<", el, b)
            if cstr not in self.constraints:
                self.constraints.append(cstr)
            return el
        if isinstance(e, ast.Call) and call_name(e) in ("int", "float") and len(e.args) == 1 and not e.keywords:
            return self.term(e.args[0], depth + 1)
        if isinstance(e, ast.Call) and self.row_level and isinstance(e.func, ast.Attribute) and e.func.attr in ("max", "min") \
                and not e.args and not e.keywords:
            # batch-wide extreme of a per-row quantity, seen from one row: at least / at most the row's own value
            return self.term(e.func.value, depth + 1)
        if isinstance(e, ast.Call):
            cn = call_name(e)
            if cn in ("torch.min", "torch.minimum", "min") and len(e.args) == 2:
                return ("min", self.term(e.args[0], depth + 1), self.term(e.args[1], depth + 1))
            if cn in ("torch.max", "torch.maximum", "max") and len(e.args) == 2:
                return ("max", self.term(e.args[0], depth + 1), self.term(e.args[1], depth + 1))
            if cn in ("torch.zeros_like", "torch.zeros") or (isinstance(e.func, ast.Attribute) and e.func.attr in ("new_zeros",)):
                return 0
            if cn in ("torch.relu", "torch.nn.functional.relu") and len(e.args) == 1:
                return ("max", self.term(e.args[0], depth + 1), 0)
            if isinstance(e.func, ast.Attribute):
                m, recv = e.func.attr, e.func.value
                if m in PASS_METHODS:
                    return self.term(recv, depth + 1)
                if m in ("clamp_min", "clamp_min_") and len(e.args) == 1:
                    return ("max", self.term(recv, depth + 1), self.term(e.args[0], depth + 1))
                if m in ("clamp_max", "clamp_max_") and len(e.args) == 1:
                    return ("min", self.term(recv, depth + 1), self.term(e.args[0], depth + 1))
                if m in ("relu", "relu_") and not e.args:
                    return ("max", self.term(recv, depth + 1), 0)
                if m in ("clamp", "clamp_"):
                    lo = e.args[0] if e.args else kwarg(e, "min")
                    hi = e.args[1] if len(e.args) > 1 else kwarg(e, "max")
                    t = self.term(recv, depth + 1)
                    if lo is not None and not (isinstance(lo, ast.Constant) and lo.value is None):
                        t = ("max", t, self.term(lo, depth + 1))
                    if hi is not None and not (isinstance(hi, ast.Constant) and hi.value is None):
                        t = ("min", t, self.term(hi, depth + 1))
                    return t
                if m in ("masked_fill", "masked_fill_") and len(e.args) == 2 and isinstance(e.args[1], ast.Constant) \
                        and e.args[1].value == 0:
                    return ("zero_if", self.term(recv, depth + 1), self.cond(e.args[0], depth + 1))
                if m in ("min", "minimum") and len(e.args) == 1:
                    return ("min", self.term(recv, depth + 1), self.term(e.args[0], depth + 1))
                if m in ("max", "maximum") and len(e.args) == 1:
                    return ("max", self.term(recv, depth + 1), self.term(e.args[0], depth + 1))
        raise Unknown(f"`{u(e)[:60]}` is outside the min/max-linear fragment")


def rename_leaves(t, mapping: Dict[str, str]):
    if isinstance(t, tuple):
        if t[0] == "leaf":
            return ("leaf", mapping.get(t[1], t[1]))
        return tuple(rename_leaves(x, mapping) if isinstance(x, tuple) else x for x in t)
    return t


def ev(t, env: Dict[str, int]) -> int:
    if isinstance(t, int):
        return t
    k = t[0]
    if k == "leaf":
        return env[t[1]]
    if k == "neg":
        return -ev(t[1], env)
    if k == "add":
        return ev(t[1], env) + ev(t[2], env)
    if k == "sub":
        return ev(t[1], env) - ev(t[2], env)
    if k == "mul":
        return ev(t[1], env) * ev(t[2], env)
    if k == "floordiv":
        return ev(t[1], env) // ev(t[2], env)
    if k == "div":
        from fractions import Fraction
        return Fraction(ev(t[1], env)) / Fraction(ev(t[2], env))
    if k == "max":
        return max(ev(t[1], env), ev(t[2], env))
    if k == "min":
        return min(ev(t[1], env), ev(t[2], env))
    if k == "zero_if":
        return 0 if evc(t[2], env) else ev(t[1], env)
    if k == "ite":
        return ev(t[2], env) if evc(t[1], env) else ev(t[3], env)
    raise Unknown(str(k))


def evc(c, env) -> bool:
    if c[0] == "and":
        return evc(c[1], env) and evc(c[2], env)
    if c[0] == "or":
        return evc(c[1], env) or evc(c[2], env)
    if c[0] == "not":
        return not evc(c[1], env)
    _, op, a, b = c
    x, y = ev(a, env), ev(b, env)
    return {"==": x == y, "!=": x != y, "<": x < y, "<=": x <= y, ">": x > y, ">=": x >= y}[op]


def show(t) -> str:
    if isinstance(t, int):
        return str(t)
    k = t[0]
    if k == "leaf":
        return t[1]
    if k == "neg":
        return f"-{show(t[1])}"
    if k in ("add", "sub"):
        return f"({show(t[1])} {'+' if k == 'add' else '-'} {show(t[2])})"
    if k in ("mul", "floordiv", "div"):
        return f"({show(t[1])} {dict(mul='*', floordiv='//', div='/')[k]} {show(t[2])})"
    if k in ("max", "min"):
        return f"{k}({show(t[1])}, {show(t[2])})"
    if k == "zero_if":
        return f"[0 if {showc(t[2])} else {show(t[1])}]"
    if k == "ite":
        return f"[{show(t[2])} if {showc(t[1])} else {show(t[3])}]"
    return str(t)


def showc(c) -> str:
    if c[0] in ("and", "or"):
        return f"({showc(c[1])} {'&' if c[0] == 'and' else '|'} {showc(c[2])})"
    if c[0] == "not":
        return f"~{showc(c[1])}"
    return f"{show(c[2])} {c[1]} {show(c[3])}"


def is_cond(t) -> bool:
    return isinstance(t, tuple) and t[0] in ("cmp", "and", "or", "not")


def counterexample(got, want: Callable[[Dict[str, int]], Optional[int]], grid: Iterable[Dict[str, int]]):
    """First grid point where the term differs from the specification (`want` returns None where unconstrained)."""
    n = 0
    for env in grid:
        w = want(env)
        if w is None:
            continue
        n += 1
        g = evc(got, env) if is_cond(got) else ev(got, env)
        if g != w:
            return env, g, w, n
    return None, None, None, n
