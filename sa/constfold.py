"""Module-level constants folded from their defining expression (nothing is imported or run).

`config.EPS_INF = math.log(3.4028234663852886e38) / 2` and the like: numbers, strings, arithmetic, `math.<function>(..)`,
`float("inf")`, and other constants of the same module. Anything else raises NotEvaluable."""
from __future__ import annotations

import ast
import math
from typing import Dict

from .astutil import call_name
from .inteval import NotEvaluable

_MATH = {"log", "log1p", "exp", "sqrt", "log2", "log10", "expm1", "floor", "ceil"}


def fold_constant(tree: ast.Module, name: str, _seen=None):
    """The value of the top-level constant `name` of the module `tree`."""
    seen = set(_seen or ())
    if name in seen:
        raise NotEvaluable(f"cyclic constant {name}")
    seen.add(name)
    value = None
    n = 0
    for st in tree.body:
        if isinstance(st, ast.Assign) and len(st.targets) == 1 and isinstance(st.targets[0], ast.Name) and st.targets[0].id == name:
            value, n = st.value, n + 1
        elif isinstance(st, ast.AnnAssign) and isinstance(st.target, ast.Name) and st.target.id == name and st.value is not None:
            value, n = st.value, n + 1
    if n != 1:
        raise NotEvaluable(f"constant {name} has {n} top-level definitions")

    def ev(e):
        if isinstance(e, ast.Constant) and isinstance(e.value, (int, float, str, bool)):
            return e.value
        if isinstance(e, ast.Name):
            return fold_constant(tree, e.id, seen)
        if isinstance(e, ast.UnaryOp) and isinstance(e.op, (ast.USub, ast.UAdd)):
            v = ev(e.operand)
            return -v if isinstance(e.op, ast.USub) else v
        if isinstance(e, ast.BinOp) and isinstance(e.op, (ast.Add, ast.Sub, ast.Mult, ast.Div, ast.Pow, ast.FloorDiv)):
            a, b = ev(e.left), ev(e.right)
            try:
                return {ast.Add: lambda: a + b, ast.Sub: lambda: a - b, ast.Mult: lambda: a * b, ast.Div: lambda: a / b,
                        ast.Pow: lambda: a ** b, ast.FloorDiv: lambda: a // b}[type(e.op)]()
            except (ZeroDivisionError, OverflowError, TypeError):
                raise NotEvaluable("constant arithmetic")
        if isinstance(e, ast.Call):
            cn = call_name(e)
            if cn == "float" and len(e.args) == 1:
                v = ev(e.args[0])
                try:
                    return float(v)
                except (TypeError, ValueError):
                    raise NotEvaluable("float()")
            if cn.startswith("math.") and cn[5:] in _MATH and not e.keywords:
                try:
                    return getattr(math, cn[5:])(*[ev(a) for a in e.args])
                except (ValueError, OverflowError, TypeError):
                    raise NotEvaluable(cn)
        if isinstance(e, ast.Attribute) and isinstance(e.value, ast.Name) and e.value.id == "math" and e.attr in ("inf", "pi", "e"):
            return getattr(math, e.attr)
        raise NotEvaluable(f"constant expression {type(e).__name__}")
    return ev(value)
