"""Virtual inlining of *new* private helpers, applied when the package is loaded.

The rules of this checker were written against the functions of the reference tree. A maintainer who extracts a few lines of
one of those functions into a small private helper (`_length_mask(...)`, `_scatter_masked_tokens(...)`) has not changed what the
function computes, but a rule that looks for the extracted lines inside the function would no longer find them. Before the
rules run, every call to a module-level private function that the reference tree does not have (see KNOWN_PRIVATE) and that is
"simple" is therefore expanded in place:

  * expression helper - the body is `return <expr>`: the call (anywhere in an expression) becomes <expr> with the formals
    replaced by the argument expressions;
  * statement helper - straight-line or branching body whose only `return` is its last statement: a statement
    `t = _h(a, b)` / `return _h(a, b)` / `_h(a, b)` becomes the body with formals replaced (or bound to fresh names when an
    argument is not a simple expression or the formal is re-assigned), locals renamed where they would clash, and the final
    `return X` turned into `t = X` / `return X` / `X`.

Helpers of the reference tree are never expanded (the rules know them as call sites); a helper that is not simple stays a call.
Line numbers of expanded statements are those of the helper's source. The transformation only concerns what the rules see;
nothing is executed or written."""
from __future__ import annotations

import ast
import copy
from typing import Dict, List, Optional

# module (file stem) -> private module-level functions that exist on the reference tree
KNOWN_PRIVATE = {
    "_attn": {"_concat_soft_attention"},
    "_combinatorics": {"_enumerate_binary_sequences_with_cardinality_int", "_enumerate_binary_sequences_with_cardinality_tensor"},
    "_dataloaders": {"_get_batch_sampler_len", "_get_bucket_batch_sampler_params"},
    "_datasets": {"_utts_in_dir", "_load_ref", "_write_hyp", "_info_and_validate"},
    "_decoding": {"_sequence_log_probs_tensor", "_sequence_log_probs_ps"},
    "_feats": {"_feat_delta_filters"},
    "_img": {"_get_tensor_eps", "_phi", "_apply_interpolation", "_solve_interpolation", "_deterimine_pinned_points",
             "_sparse_image_warp_flow", "_sparse_image_warp_noflow", "_spec_augment_check_input"},
    "_lm": {"_lookup_calc_idx_log_probs"},
    "_mc": {"_attach_grad"},
    "_pad": {"_get_padding_buffers"},
    "_parsing": {"_trn_line_to_transcript"},
    "_string": {"_lens_from_eos", "_string_matching"},
    "argcheck": {"_is_check_allow_none", "_nv", "_type_check_factory", "_compare_allow_none", "_numlike_special_factory",
                 "_cast_factory"},
    "command_line": {"_add_common_arg", "_parse_token2id", "_save_transcripts_to_dir_do_work", "_noop_collate",
                     "_load_transcripts_from_data_dir", "_parse_wc2utt", "_torch_token_data_dir_to_torch_ali_dir_do_work",
                     "_torch_ali_dir_to_torch_token_dir_do_work", "_torch_token_data_dir_to_textgrids_do_work",
                     "_chunk_torch_spect_data_dir_do_work", "_copy_spect_data_dir_do_work",
                     "_print_torch_ali_data_dir_length_moments", "_do_mv_printing", "_print_torch_ref_data_dir_length_moments",
                     "_worker_init", "_worker_func", "_multiprocessor_pattern", "_multiprocessor_pattern_generator"},
    "config": {"_cpu_count"},
    "estimators": {"_reattach_z_to_new_logits", "_to_z_tilde"},
}


# module -> class -> private methods that exist on the reference tree (a NEW private method `self._m(...)` is expanded like a
# new module-level helper, with `self` bound to `self`)
KNOWN_PRIVATE_METHODS = {
    "_combinatorics": {"SimpleRandomSamplingWithoutReplacement": {"_log_normalizer", "_natural_params"}},
    "_decoding": {"BeamSearch": {"_to_width"}, "SequentialLanguageModelDistribution": {"_validate_sample"}},
    "_lm": {"LookupLanguageModel": {"_build_trie", "_infer_max_direct_descendants"}},
    "_pl_data": {"LitDataModule": {"_construct_dataloader_with_checks", "_construct_dataset_with_checks"},
                 "LitDataModuleParams": {"_use_split"}},
    "_straight_through": {"GumbelOneHotCategorical": {"_new"}, "LogisticBernoulli": {"_new"},
                          "StraightThrough": {"_validate_thresholded_sample"}},
    "_textgrid": {"TextGrid": {"_check_type", "_find_tiers", "_load_tiers"}, "Tier": {"_make_info"}},
    "training": {"TrainingStateController": {"_barrier", "_clean_up_files", "_init_seed_and_model"}},
}


def _strip_bare_returns(body: List[ast.stmt]) -> List[ast.stmt]:
    """A procedure's bare `return`s in tail position (after the guard-clause form was turned into if/else) are dropped."""
    if not body:
        return body
    out = list(body[:-1])
    last = body[-1]
    if isinstance(last, ast.Return) and last.value is None:
        pass
    elif isinstance(last, ast.If):
        b_, o_ = _strip_bare_returns(last.body), _strip_bare_returns(last.orelse)
        out.append(ast.copy_location(ast.If(test=last.test, body=b_ or [ast.copy_location(ast.Pass(), last)], orelse=o_), last))
    else:
        out.append(last)
    return out


def _body(fn: ast.FunctionDef) -> List[ast.stmt]:
    b = list(fn.body)
    if b and isinstance(b[0], ast.Expr) and isinstance(b[0].value, ast.Constant) and isinstance(b[0].value.value, str):
        b = b[1:]
    b = _normalise_tail(b)
    rets = [n for st in b for n in ast.walk(st) if isinstance(n, ast.Return)]
    if rets and all(r.value is None for r in rets):
        # a procedure with early exits: `if c: A; return` + rest  ->  `if c: A else: rest`
        stripped = _strip_bare_returns(b)
        if not any(isinstance(n, ast.Return) for st in stripped for n in ast.walk(st)):
            return stripped or [ast.Pass()]
    return b


def _ends_in_return(body: List[ast.stmt]) -> bool:
    if not body:
        return False
    last = body[-1]
    if isinstance(last, ast.Return):
        return True
    if isinstance(last, ast.If):
        return bool(last.orelse) and _ends_in_return(last.body) and _ends_in_return(last.orelse)
    if isinstance(last, ast.With):
        return _ends_in_return(last.body)
    return False


def _normalise_tail(body: List[ast.stmt]) -> List[ast.stmt]:
    """`if c: ...; return a` followed by the rest  ==  `if c: ...; return a  else: <rest>` (guard-clause form to if/else form),
    applied recursively, so that every return ends up in tail position where that is possible."""
    out: List[ast.stmt] = []
    for i, st in enumerate(body):
        if isinstance(st, ast.If) and i < len(body) - 1:
            if not st.orelse and _ends_in_return(_normalise_tail(st.body)):
                new_if = ast.copy_location(ast.If(test=st.test, body=_normalise_tail(st.body), orelse=_normalise_tail(body[i + 1:])), st)
                out.append(new_if)
                return out
        if isinstance(st, ast.If):
            st = ast.copy_location(ast.If(test=st.test, body=_normalise_tail(st.body), orelse=_normalise_tail(st.orelse) if st.orelse else []), st)
        out.append(st)
    return out


def _tail_ok(body: List[ast.stmt]) -> bool:
    """Every path through `body` ends in `return <expr>` and a return occurs only in tail position (last statement of the
    block, or of both arms of a terminal if/else)."""
    if not body:
        return False
    for st in body[:-1]:
        if any(isinstance(n, ast.Return) for n in ast.walk(st)):
            return False
    last = body[-1]
    if isinstance(last, ast.Return):
        return last.value is not None
    if isinstance(last, ast.If):
        return bool(last.orelse) and _tail_ok(last.body) and _tail_ok(last.orelse)
    if isinstance(last, ast.With):
        return _tail_ok(last.body)
    return False


def _replace_tail(body: List[ast.stmt], mk) -> List[ast.stmt]:
    """Copy of a tail-return block with every `return X` replaced by mk(X)."""
    out = list(body[:-1])
    last = body[-1]
    if isinstance(last, ast.Return):
        made = mk(last.value)
        for m_ in (made if isinstance(made, list) else [made]):
            out.append(ast.copy_location(m_, last))
    elif isinstance(last, ast.With):
        out.append(ast.copy_location(ast.With(items=last.items, body=_replace_tail(last.body, mk)), last))
    else:
        new_if = ast.copy_location(ast.If(test=last.test, body=_replace_tail(last.body, mk), orelse=_replace_tail(last.orelse, mk)), last)
        out.append(new_if)
    return out


def _simple_helper(fn: ast.FunctionDef) -> Optional[str]:
    a = fn.args
    if a.vararg or a.kwarg or a.posonlyargs:
        return None
    b = _body(fn)
    for n in ast.walk(fn):
        if isinstance(n, (ast.Yield, ast.YieldFrom, ast.Lambda, ast.Global, ast.Nonlocal)) or \
                (isinstance(n, (ast.FunctionDef, ast.ClassDef)) and n is not fn):
            return None
        if isinstance(n, ast.Call) and isinstance(n.func, ast.Name) and n.func.id == fn.name:
            return None  # recursive
        if isinstance(n, ast.Call) and isinstance(n.func, ast.Attribute) and n.func.attr == fn.name and \
                isinstance(n.func.value, ast.Name) and n.func.value.id == "self":
            return None
    if b and not any(isinstance(n, ast.Return) for st_ in b for n in ast.walk(st_)):
        return "proc"  # a procedure: expanded where it is called as a statement
    if not _tail_ok(b):
        return None
    return "expr" if len(b) == 1 and isinstance(b[0], ast.Return) else "stmt"


def _is_simple_arg(e: ast.AST) -> bool:
    if isinstance(e, (ast.Name, ast.Constant)):
        return True
    if isinstance(e, ast.Attribute):
        return _is_simple_arg(e.value)
    if isinstance(e, ast.UnaryOp) and isinstance(e.op, ast.USub) and isinstance(e.operand, ast.Constant):
        return True
    return False


def _is_static(fn: ast.FunctionDef) -> bool:
    return len(fn.decorator_list) == 1 and isinstance(fn.decorator_list[0], ast.Name) and fn.decorator_list[0].id == "staticmethod"


def _bind(fn: ast.FunctionDef, call: ast.Call, bound_self: bool = False) -> Optional[Dict[str, ast.AST]]:
    a = fn.args
    if _is_static(fn):
        bound_self = False  # self._m(x) on a static method: no receiver formal
    if bound_self:
        # self._m(x): the first formal is the receiver
        if not a.args:
            return None
        import copy as _c
        a = _c.copy(a)
        recv = fn.args.args[0].arg
        a.args = fn.args.args[1:]
        out0 = _bind_args(a, call)
        if out0 is None:
            return None
        if recv != "self":
            out0[recv] = ast.Name(id="self", ctx=ast.Load())
        return out0
    return _bind_args(a, call)


def _bind_args(a: ast.arguments, call: ast.Call) -> Optional[Dict[str, ast.AST]]:
    names = [x.arg for x in a.args] + [x.arg for x in a.kwonlyargs]
    if any(isinstance(x, ast.Starred) for x in call.args) or any(k.arg is None for k in call.keywords):
        return None
    if len(call.args) > len(a.args):
        return None
    out: Dict[str, ast.AST] = {}
    for p, v in zip(a.args, call.args):
        out[p.arg] = v
    for k in call.keywords:
        if k.arg not in names or k.arg in out:
            return None
        out[k.arg] = k.value
    defaults = dict(zip([x.arg for x in a.args][len(a.args) - len(a.defaults):], a.defaults))
    defaults.update({k.arg: d for k, d in zip(a.kwonlyargs, a.kw_defaults) if d is not None})
    for nme in names:
        if nme not in out:
            if nme not in defaults:
                return None
            out[nme] = defaults[nme]
    return out


class _Subst(ast.NodeTransformer):
    def __init__(self, mapping: Dict[str, ast.AST], rename: Dict[str, str]):
        self.mapping, self.rename = mapping, rename

    def visit_Name(self, node: ast.Name):
        if node.id in self.mapping and isinstance(node.ctx, ast.Load):
            return copy.deepcopy(self.mapping[node.id])
        if node.id in self.rename:
            return ast.copy_location(ast.Name(id=self.rename[node.id], ctx=node.ctx), node)
        return node


def _names(node: ast.AST) -> set:
    return {n.id for n in ast.walk(node) if isinstance(n, ast.Name)}


def _callee_key(call: ast.Call) -> Optional[str]:
    f = call.func
    if isinstance(f, ast.Name):
        return f.id
    if isinstance(f, ast.Attribute) and isinstance(f.value, ast.Name) and f.value.id == "self":
        return "self." + f.attr
    return None


class _Expander(ast.NodeTransformer):
    def __init__(self, helpers: Dict[str, ast.FunctionDef], method_helpers: Optional[Dict[str, Dict[str, ast.FunctionDef]]] = None):
        self.module_helpers = helpers
        self.method_helpers = method_helpers or {}
        self.helpers = dict(helpers)
        self.kinds = {k: _simple_helper(v) for k, v in self.helpers.items()}
        self.count = 0
        self.scope_names: set = set()
        self.fresh = 0

    # ---- expression helpers: anywhere -------------------------------------------------------------------------
    def visit_Call(self, node: ast.Call):
        self.generic_visit(node)
        key = _callee_key(node)
        if key is not None and self.kinds.get(key) == "expr":
            fn = self.helpers[key]
            b = _bind(fn, node, key.startswith("self."))
            if b is None:
                return node
            ret = _body(fn)[-1].value
            # a formal used more than once is only substituted by a simple argument (no duplicated work / effects to reason about)
            uses = {}
            for n in ast.walk(ret):
                if isinstance(n, ast.Name) and isinstance(n.ctx, ast.Load):
                    uses[n.id] = uses.get(n.id, 0) + 1
            if any(uses.get(p, 0) > 1 and not _is_simple_arg(v) for p, v in b.items()):
                pass  # duplicated sub-expression in the rules' view only: acceptable, nothing is executed
            self.count += 1
            return ast.copy_location(_Subst(b, {}).visit(copy.deepcopy(ret)), node)
        return node

    # ---- statement helpers: whole right-hand side / return / expression statement ---------------------------
    def _expand_stmt(self, st: ast.stmt, call: ast.Call, kind: str, targets=None) -> Optional[List[ast.stmt]]:
        key = _callee_key(call) if isinstance(call, ast.Call) else None
        if key is None or self.kinds.get(key) not in ("stmt", "proc"):
            return None
        is_proc = self.kinds.get(key) == "proc"
        if is_proc and kind != "expr":
            return None  # its (None) value is used: leave the call alone
        fn = self.helpers[key]
        b = _bind(fn, call, key.startswith("self."))
        if b is None:
            return None
        body = _body(fn)
        stored = {n.id for x in body for n in ast.walk(x) if isinstance(n, ast.Name) and isinstance(n.ctx, (ast.Store, ast.Del))}
        pre: List[ast.stmt] = []
        mapping: Dict[str, ast.AST] = {}
        rename: Dict[str, str] = {}
        tnames = set()
        if kind == "assign" and targets:
            tnames = {n.id for t in targets for n in ast.walk(t) if isinstance(n, ast.Name)}
        for p, v in b.items():
            if _is_simple_arg(v) and p not in stored:
                mapping[p] = v
            elif isinstance(v, ast.Name) and v.id in tnames and list(b.values()).count(v) == 1 \
                    and sum(1 for w in b.values() if isinstance(w, ast.Name) and w.id == v.id) == 1:
                # in-out: the caller overwrites this variable with the helper's result, so the helper may update it in place
                rename[p] = v.id
            else:
                nm = p if p not in self.scope_names else self._fresh(p)
                rename[p] = nm
                pre.append(ast.copy_location(ast.Assign(targets=[ast.Name(id=nm, ctx=ast.Store())], value=copy.deepcopy(v)), st))
                self.scope_names.add(nm)
        for loc in sorted(stored - set(b)):
            if loc in self.scope_names:
                rename[loc] = self._fresh(loc)
            self.scope_names.add(rename.get(loc, loc))
        out = list(pre)
        sub = _Subst(mapping, rename)

        def mk(rv):
            if kind == "assign":
                tg = targets[0] if len(targets) == 1 else None
                if isinstance(tg, ast.Tuple) and isinstance(rv, ast.Tuple) and len(tg.elts) == len(rv.elts) \
                        and not any(isinstance(x, ast.Starred) for x in tg.elts + rv.elts):
                    # `a, b = _h(..)` with `return x, y`: element-wise `a = x; b = y` when no target is read by a later element
                    ttxt = {ast.unparse(t) for t in tg.elts} | {n.id for t in tg.elts for n in ast.walk(t) if isinstance(n, ast.Name)}
                    later_reads = {ast.unparse(n) for e in rv.elts[1:] for n in ast.walk(e) if isinstance(n, (ast.Name, ast.Attribute, ast.Subscript))}
                    if not (ttxt & later_reads):
                        return [ast.Assign(targets=[copy.deepcopy(t)], value=e) for t, e in zip(tg.elts, rv.elts)]
                return ast.Assign(targets=copy.deepcopy(targets), value=rv)
            if kind == "return":
                return ast.Return(value=rv)
            return ast.Expr(value=rv)
        # formals / clashing locals are substituted in the helper's own statements first; the caller's targets are attached
        # afterwards (they are the caller's names, not the helper's, even when they are spelled the same)
        new_body = [sub.visit(copy.deepcopy(y)) for y in body]
        if not is_proc:
            new_body = _replace_tail(new_body, mk)
        out.extend(new_body)
        for x in out:
            ast.copy_location(x, x if hasattr(x, "lineno") else st)
            ast.fix_missing_locations(x)
        self.count += 1
        return out

    def _fresh(self, base: str) -> str:
        while True:
            self.fresh += 1
            nm = f"{base}_h{self.fresh}"
            if nm not in self.scope_names:
                return nm

    def visit_ClassDef(self, node: ast.ClassDef):
        saved = (self.helpers, self.kinds)
        mh = self.method_helpers.get(node.name, {})
        self.helpers = dict(self.module_helpers)
        self.helpers.update({"self." + k: v for k, v in mh.items()})
        self.kinds = {k: _simple_helper(v) for k, v in self.helpers.items()}
        self.generic_visit(node)
        self.helpers, self.kinds = saved
        return node

    def visit_FunctionDef(self, node: ast.FunctionDef):
        outer = self.scope_names
        self.scope_names = _names(node) | {a.arg for a in node.args.args + node.args.kwonlyargs}
        self.generic_visit(node)
        self.scope_names = outer
        return node

    visit_AsyncFunctionDef = visit_FunctionDef

    def _hoist(self, st: ast.stmt, field: str, whole: bool = False):
        """A statement helper called inside a larger expression: its body is placed before the statement, its value bound
        to a fresh temporary that replaces the call. Repeated until no such call is left (`return self._a(x) and not self._b(y)`)."""
        pre_all: List[ast.stmt] = []
        for _ in range(8):
            r = self._hoist_one(st, field, whole)
            if r is None:
                break
            pre_all.extend(r[:-1])
        return pre_all + [st] if pre_all else None

    def _hoist_one(self, st: ast.stmt, field: str, whole: bool):
        val = getattr(st, field, None)
        if val is None:
            return None
        calls = [c for c in ast.walk(val) if isinstance(c, ast.Call) and _callee_key(c) is not None
                 and self.kinds.get(_callee_key(c)) == "stmt" and (whole or c is not val)]
        if not calls:
            return None
        c = calls[0]
        tmp = self._fresh("tmp")
        self.scope_names.add(tmp)
        pre = self._expand_stmt(st, c, "assign", [ast.Name(id=tmp, ctx=ast.Store())])
        if pre is None:
            return None

        class _Rep(ast.NodeTransformer):
            def visit_Call(self_, node):
                if node is c:
                    return ast.copy_location(ast.Name(id=tmp, ctx=ast.Load()), node)
                return self_.generic_visit(node)
        setattr(st, field, _Rep().visit(val))
        return pre + [st]

    def _comprehension_to_loop(self, node: ast.Assign):
        """`T = [elt for x in it if c]` whose element calls a new statement helper: the equivalent explicit loop
        (`T = []; for x in it: if c: T.append(elt)`), so that the helper's body can be placed inside it."""
        v = node.value
        if not (isinstance(v, ast.ListComp) and len(v.generators) == 1 and not v.generators[0].is_async
                and len(node.targets) == 1 and isinstance(node.targets[0], ast.Name)):
            return None
        g = v.generators[0]
        inner = [c for part in [v.elt] + list(g.ifs) for c in ast.walk(part) if isinstance(c, ast.Call) and _callee_key(c) is not None
                 and self.kinds.get(_callee_key(c)) == "stmt"]
        if not inner:
            return None
        tname = node.targets[0].id
        if any(isinstance(n, ast.Name) and n.id == tname for n in ast.walk(v)):
            return None
        bound = {n.id for n in ast.walk(g.target) if isinstance(n, ast.Name)}
        rename = {b: self._fresh(b) for b in bound if b in self.scope_names}
        sub = _Subst({}, rename)
        tgt, elt, ifs = sub.visit(copy.deepcopy(g.target)), sub.visit(copy.deepcopy(v.elt)), [sub.visit(copy.deepcopy(c)) for c in g.ifs]
        for b in bound:
            self.scope_names.add(rename.get(b, b))
        app = ast.Expr(value=ast.Call(func=ast.Attribute(value=ast.Name(id=tname, ctx=ast.Load()), attr="append", ctx=ast.Load()),
                                      args=[elt], keywords=[]))
        body = [app]
        for c in reversed(ifs):
            body = [ast.If(test=c, body=body, orelse=[])]
        init = ast.Assign(targets=[ast.Name(id=tname, ctx=ast.Store())], value=ast.List(elts=[], ctx=ast.Load()))
        loop = ast.For(target=tgt, iter=copy.deepcopy(g.iter), body=body, orelse=[])
        for x in (init, loop):
            ast.copy_location(x, node)
            ast.fix_missing_locations(x)
        return [init, loop]

    def visit_Assign(self, node: ast.Assign):
        lp = self._comprehension_to_loop(node)
        if lp is not None:
            out = []
            for x in lp:
                r_ = self.visit(x)
                out.extend(r_ if isinstance(r_, list) else [r_])
            return out
        r = self._expand_stmt(node, node.value, "assign", node.targets)
        if r is None:
            r = self._hoist(node, "value")
        if r is not None:
            return [self.generic_visit(x) for x in r]
        return self.generic_visit(node)

    def visit_If(self, node: ast.If):
        # a statement helper called in the test: its body goes before the `if` (the rules' view only; nothing runs)
        r = self._hoist(node, "test", whole=True)
        if r is not None:
            return [self.generic_visit(x) for x in r]
        return self.generic_visit(node)

    def visit_Return(self, node: ast.Return):
        r = self._expand_stmt(node, node.value, "return") if node.value is not None else None
        if r is None and node.value is not None:
            r = self._hoist(node, "value")
        if r is not None:
            return [self.generic_visit(x) for x in r]
        return self.generic_visit(node)

    def visit_Expr(self, node: ast.Expr):
        r = self._expand_stmt(node, node.value, "expr")
        if r is None:
            r = self._hoist(node, "value")
        if r is not None:
            return [self.generic_visit(x) for x in r]
        return self.generic_visit(node)


def expand_new_private_helpers(tree: ast.Module, module_name: str) -> ast.Module:
    known = KNOWN_PRIVATE.get(module_name, set())
    helpers = {st.name: st for st in tree.body if isinstance(st, ast.FunctionDef) and st.name.startswith("_")
               and not st.name.startswith("__") and st.name not in known}
    helpers = {k: v for k, v in helpers.items() if _simple_helper(v)}
    known_m = KNOWN_PRIVATE_METHODS.get(module_name, {})
    method_helpers = {}
    for c in tree.body:
        if isinstance(c, ast.ClassDef):
            mh = {st.name: st for st in c.body if isinstance(st, ast.FunctionDef) and st.name.startswith("_")
                  and not st.name.startswith("__") and st.name not in known_m.get(c.name, set())
                  and (not st.decorator_list or _is_static(st)) and (st.args.args or _is_static(st)) and _simple_helper(st)}
            if mh:
                method_helpers[c.name] = mh
    if not helpers and not method_helpers:
        return tree
    for _ in range(3):
        ex = _Expander(helpers, method_helpers)
        tree = ex.visit(tree)
        ast.fix_missing_locations(tree)
        if not ex.count:
            break
    # a helper that was expanded at every use is no longer part of the program the rules look at
    refs = set()
    for n in ast.walk(tree):
        if isinstance(n, ast.Name) and isinstance(n.ctx, ast.Load):
            refs.add(n.id)
        elif isinstance(n, ast.Attribute) and isinstance(n.value, ast.Name) and n.value.id in ("self", "cls"):
            refs.add("self." + n.attr)
    tree.body = [st for st in tree.body if not (isinstance(st, ast.FunctionDef) and st.name in helpers and st.name not in refs)]
    for c in tree.body:
        if isinstance(c, ast.ClassDef) and c.name in method_helpers:
            c.body = [st for st in c.body if not (isinstance(st, ast.FunctionDef) and st.name in method_helpers[c.name]
                                                  and "self." + st.name not in refs)] or [ast.Pass()]
    return tree
