"""Small AST helpers shared by the rules."""
from __future__ import annotations

import ast
from typing import Callable, Dict, Iterable, Iterator, List, Optional, Set, Tuple

from .model import FuncInfo, own_nodes


def u(node) -> str:
    return ast.unparse(node) if node is not None else ""


def names_in(e: ast.AST) -> Set[str]:
    return {n.id for n in ast.walk(e) if isinstance(n, ast.Name)}


def loads_in(e: ast.AST) -> Set[str]:
    return {n.id for n in ast.walk(e) if isinstance(n, ast.Name) and isinstance(n.ctx, ast.Load)}


def attr_chain(e: ast.AST) -> Optional[str]:
    """'self.a.b' for attribute chains rooted at a Name, else None."""
    parts = []
    while isinstance(e, ast.Attribute):
        parts.append(e.attr)
        e = e.value
    if isinstance(e, ast.Name):
        parts.append(e.id)
        return ".".join(reversed(parts))
    return None


def call_name(c: ast.Call) -> str:
    """Dotted name of the callee expression ('torch.where', 'x.masked_fill', 'f')."""
    f = c.func
    if isinstance(f, ast.Name):
        return f.id
    if isinstance(f, ast.Attribute):
        ch = attr_chain(f)
        if ch is not None:
            return ch
        return "<expr>." + f.attr
    return "<expr>"


def method_name(c: ast.Call) -> Optional[str]:
    return c.func.attr if isinstance(c.func, ast.Attribute) else None


def kwarg(c: ast.Call, name: str) -> Optional[ast.expr]:
    for k in c.keywords:
        if k.arg == name:
            return k.value
    return None


def arg_or_kw(c: ast.Call, idx: int, name: str) -> Optional[ast.expr]:
    if len(c.args) > idx and not any(isinstance(a, ast.Starred) for a in c.args[: idx + 1]):
        return c.args[idx]
    return kwarg(c, name)


def assign_targets(st: ast.stmt) -> List[ast.expr]:
    """Flattened assignment targets of a statement."""
    out: List[ast.expr] = []

    def flat(t):
        if isinstance(t, (ast.Tuple, ast.List)):
            for e in t.elts:
                flat(e)
        elif isinstance(t, ast.Starred):
            flat(t.value)
        else:
            out.append(t)

    if isinstance(st, ast.Assign):
        for t in st.targets:
            flat(t)
    elif isinstance(st, (ast.AugAssign, ast.AnnAssign)):
        flat(st.target)
    elif isinstance(st, (ast.For, ast.AsyncFor)):
        flat(st.target)
    elif isinstance(st, (ast.With, ast.AsyncWith)):
        for it in st.items:
            if it.optional_vars is not None:
                flat(it.optional_vars)
    return out


def assigned_names(st: ast.stmt) -> Set[str]:
    out = set()
    for t in assign_targets(st):
        if isinstance(t, ast.Name):
            out.add(t.id)
        elif isinstance(t, (ast.Subscript, ast.Attribute)):
            b = t
            while isinstance(b, (ast.Subscript, ast.Attribute)):
                b = b.value
            if isinstance(b, ast.Name):
                out.add(b.id)  # in-place update of the container counts as a (weak) def
    return out


def is_const(e: ast.AST, value=None) -> bool:
    if isinstance(e, ast.UnaryOp) and isinstance(e.op, ast.USub) and isinstance(e.operand, ast.Constant):
        v = -e.operand.value
    elif isinstance(e, ast.Constant):
        v = e.value
    else:
        return False
    return value is None or (v == value and type(v) == type(value)) or (
        value is not None and isinstance(v, (int, float)) and isinstance(value, (int, float))
        and not isinstance(v, bool) and not isinstance(value, bool) and float(v) == float(value))


def is_neg_inf(e: ast.AST) -> bool:
    """-float('inf'), float('-inf'), -math.inf, -torch.inf, -inf names, config/NEG_INF-like."""
    s = u(e).replace(" ", "").replace('"', "'")
    return s in ("-float('inf')", "float('-inf')", "-math.inf", "-torch.inf", "-np.inf", "-numpy.inf",
                 "-inf", "neg_inf", "-float('Inf')", "float('-Inf')")


def is_pos_inf(e: ast.AST) -> bool:
    s = u(e).replace(" ", "").replace('"', "'")
    return s in ("float('inf')", "math.inf", "torch.inf", "np.inf", "inf", "float('Inf')")


def stmts_in(body: List[ast.stmt]) -> Iterator[ast.stmt]:
    """All statements nested in a body (not entering nested function/class defs)."""
    for st in body:
        yield st
        if isinstance(st, (ast.FunctionDef, ast.AsyncFunctionDef, ast.ClassDef)):
            continue
        for fld in ("body", "orelse", "finalbody"):
            sub = getattr(st, fld, None)
            if sub:
                yield from stmts_in(sub)
        if isinstance(st, ast.Try):
            for h in st.handlers:
                yield from stmts_in(h.body)


def func_stmts(f: FuncInfo) -> Iterator[ast.stmt]:
    return stmts_in(f.node.body)


def parent_map(root: ast.AST) -> Dict[ast.AST, ast.AST]:
    pm = {}
    for n in ast.walk(root):
        for ch in ast.iter_child_nodes(n):
            pm[ch] = n
    return pm


def enclosing_stmt(pm: Dict[ast.AST, ast.AST], n: ast.AST) -> Optional[ast.stmt]:
    while n is not None and not isinstance(n, ast.stmt):
        n = pm.get(n)
    return n


def _always_exits(block) -> bool:
    """Does every path through the statement list leave the enclosing block (return / raise / continue / break)?"""
    if not block:
        return False
    last = block[-1]
    if isinstance(last, (ast.Return, ast.Raise, ast.Continue, ast.Break)):
        return True
    if isinstance(last, ast.If):
        return bool(last.orelse) and _always_exits(last.body) and _always_exits(last.orelse)
    return False


def _fallthrough_conditions(s: ast.If) -> List[Tuple[ast.expr, bool]]:
    """The conditions under which control continues after the if statement `s`: an arm that always exits contributes the negation
    of its test; an `elif` chain whose arms all exit (`if a: return  elif b: return  elif c: raise`) contributes all of them."""
    out: List[Tuple[ast.expr, bool]] = []
    if _always_exits(s.body) and not _always_exits(s.orelse):
        out.append((s.test, False))
        if len(s.orelse) == 1 and isinstance(s.orelse[0], ast.If):
            out.extend(_fallthrough_conditions(s.orelse[0]))
    elif s.orelse and _always_exits(s.orelse) and not _always_exits(s.body):
        out.append((s.test, True))
    return out


def guards_of(pm: Dict[ast.AST, ast.AST], n: ast.AST, early_exits: bool = True) -> List[Tuple[ast.expr, bool]]:
    """The (test, polarity) of the conditions under which node n is reached, innermost last: the enclosing If / While /
    IfExp (polarity False = n lies in the else branch) and - guard-clause form - every earlier sibling `if c: ... return`
    (polarity False) or `if c: ... else: return` (polarity True) of a block that contains n. So `if not t: return x` followed
    by the rest and `if t: <rest> else: return x` give the rest the same conditions."""
    out = []
    child = n
    p = pm.get(n)
    while p is not None:
        here = []
        if early_exits and isinstance(child, ast.stmt):
            for fld in ("body", "orelse", "finalbody"):
                block = getattr(p, fld, None)
                if isinstance(block, list) and any(child is s for s in block):
                    for s in block:
                        if s is child:
                            break
                        if isinstance(s, ast.If):
                            here.extend(_fallthrough_conditions(s))
        # innermost last: conditions gathered at this level come after the enclosing statement's own test
        if isinstance(p, (ast.If, ast.While)):
            if any(child is s for s in p.body):
                out.extend(reversed(here))
                out.append((p.test, True))
                here = []
            elif any(child is s for s in p.orelse):
                out.extend(reversed(here))
                out.append((p.test, False))
                here = []
        elif isinstance(p, ast.IfExp):
            if child is p.body:
                out.append((p.test, True))
            elif child is p.orelse:
                out.append((p.test, False))
        out.extend(reversed(here))
        child = p
        p = pm.get(p)
    out.reverse()
    return out


def find_calls(root: ast.AST, pred: Callable[[ast.Call], bool]) -> List[ast.Call]:
    out = [n for n in ast.walk(root) if isinstance(n, ast.Call) and pred(n)]
    out.sort(key=lambda c: (c.lineno, c.col_offset))
    return out


def strip_not(e: ast.expr) -> Tuple[ast.expr, bool]:
    """(inner, positive?) with leading `not`s removed."""
    pos = True
    while isinstance(e, ast.UnaryOp) and isinstance(e.op, ast.Not):
        e = e.operand
        pos = not pos
    return e, pos


def docstring(f) -> str:
    node = f.node if hasattr(f, "node") else f
    return ast.get_docstring(node) or ""


def eval_under_flag(e, flag: str, val: bool, rd=None, depth: int = 0):
    """Integer value of an axis expression when the boolean formal `flag` is `val` (None: not decidable).
    Understands constants, `a if flag else b`, `int(flag)`, `not flag`, +/- and single reaching assignments."""
    import ast as _a
    if depth > 12 or e is None:
        return None
    if isinstance(e, _a.Constant) and isinstance(e.value, (int, bool)):
        return int(e.value)
    if isinstance(e, _a.Name):
        if e.id == flag:
            if rd is None or all(d.kind == "param" for d in rd.defs_of(e)):
                return int(val)
        if rd is not None:
            ds = list(rd.defs_of(e))
            vals = set()
            pm_ = getattr(rd, "_pm_cache", None)
            if pm_ is None and getattr(rd, "func", None) is not None:
                pm_ = rd._pm_cache = parent_map(rd.func)
            for d in ds:
                if d.kind != "assign" or d.value is None:
                    return None
                # a definition guarded by the flag itself only counts on its side (`if flag: x = 1 else: x = 0`)
                st_ = getattr(d, "stmt", None)
                if pm_ is not None and st_ is not None:
                    contra = False
                    for t_, pol_ in guards_of(pm_, st_):
                        tv = eval_under_flag(t_, flag, val, None, depth + 1)
                        if tv is not None and bool(tv) != pol_:
                            contra = True
                    if contra:
                        continue
                vals.add(eval_under_flag(d.value, flag, val, rd, depth + 1))
            if len(vals) == 1:
                return vals.pop()
        return None
    if isinstance(e, _a.UnaryOp) and isinstance(e.op, _a.Not):
        v = eval_under_flag(e.operand, flag, val, rd, depth + 1)
        return None if v is None else int(not v)
    if isinstance(e, _a.UnaryOp) and isinstance(e.op, _a.USub):
        v = eval_under_flag(e.operand, flag, val, rd, depth + 1)
        return None if v is None else -v
    if isinstance(e, _a.IfExp):
        t = eval_under_flag(e.test, flag, val, rd, depth + 1)
        if t is None:
            return None
        return eval_under_flag(e.body if t else e.orelse, flag, val, rd, depth + 1)
    if isinstance(e, _a.Call) and call_name(e) in ("int", "bool") and len(e.args) == 1:
        return eval_under_flag(e.args[0], flag, val, rd, depth + 1)
    if isinstance(e, _a.BinOp) and isinstance(e.op, (_a.Add, _a.Sub)):
        a, b = eval_under_flag(e.left, flag, val, rd, depth + 1), eval_under_flag(e.right, flag, val, rd, depth + 1)
        if a is None or b is None:
            return None
        return a + b if isinstance(e.op, _a.Add) else a - b
    return None


_FLIP_OP = {"lt": "gt", "gt": "lt", "le": "ge", "ge": "le", "eq": "eq", "ne": "ne"}
_OP_NAME = {ast.Lt: "lt", ast.Gt: "gt", ast.LtE: "le", ast.GtE: "ge", ast.Eq: "eq", ast.NotEq: "ne"}


def cmp_sides(node):
    """(op, left, right) of `a OP b` or `a.OP(b)` with op in lt/le/gt/ge/eq/ne, else None."""
    if isinstance(node, ast.Compare) and len(node.ops) == 1 and type(node.ops[0]) in _OP_NAME:
        return _OP_NAME[type(node.ops[0])], node.left, node.comparators[0]
    if isinstance(node, ast.Call) and isinstance(node.func, ast.Attribute) and node.func.attr in _FLIP_OP and len(node.args) == 1:
        return node.func.attr, node.func.value, node.args[0]
    return None


def oriented(node, is_left):
    """(op, a, b) of a comparison, oriented so that is_left(a) holds (operator flipped when the operands are swapped)."""
    cs = cmp_sides(node)
    if cs is None:
        return None
    op, a, b = cs
    if is_left(a):
        return op, a, b
    if is_left(b):
        return _FLIP_OP[op], b, a
    return None


def extent_of(e):
    """(text of X, k) when e is `X.size(k)` or `X.shape[k]` with a constant k, else None."""
    import ast as _a
    if isinstance(e, _a.Call) and isinstance(e.func, _a.Attribute) and e.func.attr == "size" and len(e.args) == 1 and not e.keywords:
        k = e.args[0]
        base = e.func.value
    elif isinstance(e, _a.Subscript) and isinstance(e.value, _a.Attribute) and e.value.attr == "shape":
        k = e.slice
        base = e.value.value
    else:
        return None
    if isinstance(k, _a.UnaryOp) and isinstance(k.op, _a.USub) and isinstance(k.operand, _a.Constant) and isinstance(k.operand.value, int):
        return u(base), -k.operand.value
    if isinstance(k, _a.Constant) and isinstance(k.value, int):
        return u(base), k.value
    return None


def under_flag(guards, text: str, val: bool = True) -> bool:
    """Is the guarded node only reached when the boolean expression `text` has value `val`? Understands the two spellings
    `if text:` / `if not text:` and both arms."""
    for t, pol in guards:
        s = u(t)
        if s == text and pol == val:
            return True
        if s == f"not {text}" and pol != val:
            return True
    return False


def reached_for(guards, name: str, value, others=()) -> bool:
    """Is a node with these guards reached when the formal `name` has `value`, and not when it has any of `others`? Guards
    are evaluated with everything else unknown (sa.specialise._eval): a guard the valuation does not decide is compatible
    with it. Understands `name == 'x'`, `!=`, `in (...)`, `not`, and / or - in the true arm, the else arm, or after guard
    clauses (see guards_of)."""
    from .specialise import _eval, _UNK

    def compatible(val):
        for t, pol in guards:
            v = _eval(t, {name: val})
            if v is not _UNK and bool(v) != pol:
                return False
        return True
    return compatible(value) and not any(compatible(o) for o in others)
