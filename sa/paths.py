"""Syntax-directed enumeration of the feasible event paths of one function (rule G10).

A path is the sequence of *events* (designated calls / statements), the branch
decisions taken, and how the function is left (return / raise / fall off the end).
`if` statements whose subtree contains no event, return, raise, break or continue are
projected away.  Loops are unrolled a bounded number of times.  `try` bodies get an
exceptional edge at every event (the event is recorded as attempted).  Cheap path
sensitivity: a path is infeasible if it takes contradictory branches on the same
normalised test with no intervening assignment to a name in that test.
"""
from __future__ import annotations

import ast
import itertools
from dataclasses import dataclass, field
from typing import Callable, Dict, Iterator, List, Optional, Sequence, Set, Tuple

from .astutil import assigned_names, names_in, strip_not, u
from .model import AnalysisError


@dataclass
class Event:
    label: str
    node: ast.AST
    attempted: bool = False  # raised while executing (exceptional edge taken here)

    def __repr__(self):
        return self.label + ("!" if self.attempted else "")


@dataclass
class Decision:
    test: str
    taken: bool
    line: int

    def __repr__(self):
        return f"[{self.test}={'T' if self.taken else 'F'}@{self.line}]"


@dataclass
class Path:
    items: List[object] = field(default_factory=list)
    facts: Dict[str, bool] = field(default_factory=dict)
    exit: str = ""
    exit_node: Optional[ast.AST] = None

    def copy(self) -> "Path":
        return Path(list(self.items), dict(self.facts), self.exit, self.exit_node)

    @property
    def events(self) -> List[Event]:
        return [i for i in self.items if isinstance(i, Event)]

    @property
    def decisions(self) -> List[Decision]:
        return [i for i in self.items if isinstance(i, Decision)]

    def labels(self) -> List[str]:
        return [repr(e) for e in self.events]

    def describe(self) -> str:
        return " ".join(repr(i) for i in self.items) + f" => {self.exit}"


EventFn = Callable[[ast.AST], Optional[str]]


def _eval3(e, facts):
    """True / False / None (unknown) of a boolean expression over names with known truth values."""
    if isinstance(e, ast.Constant) and isinstance(e.value, bool):
        return e.value
    if isinstance(e, ast.Name):
        return facts.get(e.id)
    if isinstance(e, ast.UnaryOp) and isinstance(e.op, ast.Not):
        v = _eval3(e.operand, facts)
        return None if v is None else (not v)
    if isinstance(e, ast.BoolOp):
        vs = [_eval3(v, facts) for v in e.values]
        if isinstance(e.op, ast.And):
            return False if any(v is False for v in vs) else (None if any(v is None for v in vs) else True)
        return True if any(v is True for v in vs) else (None if any(v is None for v in vs) else False)
    return None


def _pure_bool(e) -> bool:
    return all(isinstance(x, (ast.BoolOp, ast.UnaryOp, ast.Name, ast.Constant, ast.And, ast.Or, ast.Not, ast.Load)) for x in ast.walk(e))


class PathEnumerator:
    def __init__(self, event_fn: EventFn, loop_iters: Sequence[int] = (0, 1), max_paths: int = 200000,
                 keep_all_ifs: bool = False, exc_edges: bool = True, flags: Optional[Dict[str, Callable]] = None):
        self.event_fn = event_fn
        # flags: {name: label(old, new)} - an assignment `name = <boolean expression over names>` is followed through the facts; an
        # operand of unknown truth value splits the path (once per value); the label (or None) is recorded as an event
        self.flags = dict(flags or {})
        self.loop_iters = tuple(loop_iters)
        self.max_paths = max_paths
        self.keep_all_ifs = keep_all_ifs
        self.exc_edges = exc_edges
        self._relevant_cache: Dict[int, bool] = {}
        self.count = 0

    # -- relevance ---------------------------------------------------------
    def _relevant(self, node: ast.AST) -> bool:
        k = id(node)
        if k in self._relevant_cache:
            return self._relevant_cache[k]
        r = False
        for n in ast.walk(node):
            if isinstance(n, (ast.Return, ast.Raise, ast.Break, ast.Continue)):
                r = True
                break
            if isinstance(n, (ast.FunctionDef, ast.AsyncFunctionDef, ast.Lambda, ast.ClassDef)) and n is not node:
                continue
            if self.event_fn(n) is not None:
                r = True
                break
        self._relevant_cache[k] = r
        return r

    # -- events in expressions --------------------------------------------
    def _expr_events(self, e: Optional[ast.AST]) -> List[Event]:
        out: List[Event] = []
        if e is None:
            return out

        def post(n):
            if isinstance(n, (ast.Lambda, ast.FunctionDef, ast.AsyncFunctionDef, ast.ClassDef)):
                return
            for ch in ast.iter_child_nodes(n):
                post(ch)
            lab = self.event_fn(n)
            if lab is not None:
                out.append(Event(lab, n))

        post(e)
        return out

    # -- feasibility --------------------------------------------------------
    def _assume(self, p: Path, test: ast.expr, taken: bool) -> bool:
        """Record the decision; return False if it contradicts known facts."""
        inner, pos = strip_not(test)
        val = taken if pos else not taken
        if isinstance(inner, ast.BoolOp):
            if isinstance(inner.op, ast.And) and val:
                return all(self._assume(p, v, True) for v in inner.values)
            if isinstance(inner.op, ast.Or) and not val:
                return all(self._assume(p, v, False) for v in inner.values)
            # partial knowledge: And false / Or true -> check not all contradicted
            key = u(inner)
            if key in p.facts and p.facts[key] != val:
                return False
            if isinstance(inner.op, ast.And) and not val:
                if all(self._known(p, v) is True for v in inner.values):
                    return False
            if isinstance(inner.op, ast.Or) and val:
                if all(self._known(p, v) is False for v in inner.values):
                    return False
            p.facts[key] = val
            return True
        if isinstance(inner, ast.Constant):
            return bool(inner.value) == val
        key = u(inner)
        # `x is None` / `x is not None` share a key
        if isinstance(inner, ast.Compare) and len(inner.ops) == 1:
            op = inner.ops[0]
            flip = {ast.IsNot: ast.Is, ast.NotEq: ast.Eq, ast.NotIn: ast.In}
            for neg, posop in flip.items():
                if isinstance(op, neg):
                    key = u(ast.Compare(left=inner.left, ops=[posop()], comparators=inner.comparators))
                    val = not val
        if key in p.facts and p.facts[key] != val:
            return False
        p.facts[key] = val
        return True

    def _known(self, p: Path, test: ast.expr) -> Optional[bool]:
        inner, pos = strip_not(test)
        key = u(inner)
        val_flip = False
        if isinstance(inner, ast.Compare) and len(inner.ops) == 1:
            op = inner.ops[0]
            flip = {ast.IsNot: ast.Is, ast.NotEq: ast.Eq, ast.NotIn: ast.In}
            for neg, posop in flip.items():
                if isinstance(op, neg):
                    key = u(ast.Compare(left=inner.left, ops=[posop()], comparators=inner.comparators))
                    val_flip = True
        if key in p.facts:
            v = p.facts[key]
            if val_flip:
                v = not v
            return v if pos else not v
        return None

    def _invalidate(self, p: Path, names: Set[str]):
        if not names:
            return
        for k in list(p.facts):
            try:
                ns = names_in(ast.parse(k, mode="eval"))
            except SyntaxError:
                ns = set()
            if ns & names:
                del p.facts[k]

    # -- enumeration ----------------------------------------------------------
    def paths(self, body: List[ast.stmt]) -> List[Path]:
        self.count = 0
        out = []
        for p in self._block(body, Path()):
            if not p.exit:
                p.exit = "fall"
            out.append(p)
        return out

    def _tick(self):
        self.count += 1
        if self.count > self.max_paths:
            raise AnalysisError(f"path enumeration exceeded {self.max_paths} paths")

    def _block(self, body: List[ast.stmt], p: Path) -> Iterator[Path]:
        if not body:
            yield p
            return
        st, rest = body[0], body[1:]
        for q in self._stmt(st, p):
            if q.exit:
                yield q
            else:
                yield from self._block(rest, q)

    def _add_events(self, p: Path, evs: List[Event]):
        p.items.extend(evs)

    def _stmt(self, st: ast.stmt, p: Path) -> Iterator[Path]:
        if isinstance(st, (ast.FunctionDef, ast.AsyncFunctionDef, ast.ClassDef, ast.Import, ast.ImportFrom,
                           ast.Global, ast.Nonlocal, ast.Pass)):
            yield p
            return
        if isinstance(st, ast.If):
            if not self.keep_all_ifs and not self._relevant(st):
                self._invalidate(p, set().union(*[assigned_names(s) for s in ast.walk(st) if isinstance(s, ast.stmt)]))
                yield p
                return
            evs = self._expr_events(st.test)
            for taken, branch in ((True, st.body), (False, st.orelse)):
                q = p.copy()
                self._add_events(q, [Event(e.label, e.node) for e in evs])
                if not self._assume(q, st.test, taken):
                    continue
                q.items.append(Decision(u(st.test), taken, st.lineno))
                self._tick()
                yield from self._block(branch, q)
            return
        if isinstance(st, (ast.For, ast.AsyncFor, ast.While)):
            yield from self._loop(st, p)
            return
        if isinstance(st, (ast.With, ast.AsyncWith)):
            q = p
            for it in st.items:
                self._add_events(q, self._expr_events(it.context_expr))
            self._invalidate(q, assigned_names(st))
            yield from self._block(st.body, q)
            return
        if isinstance(st, ast.Try):
            yield from self._try(st, p)
            return
        if isinstance(st, ast.Return):
            self._add_events(p, self._expr_events(st.value))
            lab = self.event_fn(st)
            if lab is not None:
                p.items.append(Event(lab, st))
            p.exit, p.exit_node = "return", st
            yield p
            return
        if isinstance(st, ast.Raise):
            self._add_events(p, self._expr_events(st.exc))
            lab = self.event_fn(st)
            if lab is not None:
                p.items.append(Event(lab, st))
            p.exit, p.exit_node = "raise", st
            yield p
            return
        if isinstance(st, ast.Break):
            p.exit, p.exit_node = "break", st
            yield p
            return
        if isinstance(st, ast.Continue):
            p.exit, p.exit_node = "continue", st
            yield p
            return
        if isinstance(st, ast.Assert):
            self._add_events(p, self._expr_events(st.test))
            lab = self.event_fn(st)
            if lab is not None:
                p.items.append(Event(lab, st))
            self._assume(p, st.test, True)
            yield p
            return
        # simple statements
        for fld in ("value", "targets", "target", "exc"):
            v = getattr(st, fld, None)
            if isinstance(v, list):
                for x in v:
                    self._add_events(p, self._expr_events(x))
            elif isinstance(v, ast.AST):
                self._add_events(p, self._expr_events(v))
        lab = self.event_fn(st)
        if lab is not None:
            p.items.append(Event(lab, st))
        names = assigned_names(st)
        if isinstance(st, ast.Delete):
            for t in st.targets:
                names |= names_in(t)
        # (`flag = flag or converted`: the new value from the facts known BEFORE the assignment, in three-valued logic)
        pre_val = None
        if isinstance(st, ast.Assign) and len(st.targets) == 1 and isinstance(st.targets[0], ast.Name) and isinstance(st.value, (ast.BoolOp, ast.UnaryOp, ast.Name)):
            pre_val = _eval3(st.value, p.facts)
            fname = st.targets[0].id
            if fname in self.flags:
                unknown = sorted({x.id for x in ast.walk(st.value) if isinstance(x, ast.Name) and x.id not in p.facts})
                if pre_val is None and 0 < len(unknown) <= 2 and _pure_bool(st.value):
                    # split on the unknown operands
                    for combo in itertools.product((False, True), repeat=len(unknown)):
                        q = p.copy()
                        for nm, val in zip(unknown, combo):
                            q.facts[nm] = val
                        new_v = _eval3(st.value, q.facts)
                        lab2 = self.flags[fname](q.facts.get(fname), new_v)
                        if lab2 is not None:
                            q.items.append(Event(lab2, st))
                        self._invalidate(q, names)
                        for nm, val in zip(unknown, combo):
                            if nm != fname:
                                q.facts[nm] = val
                        if new_v is not None:
                            q.facts[fname] = new_v
                        self._tick()
                        yield q
                    return
                lab2 = self.flags[fname](p.facts.get(fname), pre_val)
                if lab2 is not None:
                    p.items.append(Event(lab2, st))
        self._invalidate(p, names)
        if pre_val is not None:
            p.facts[st.targets[0].id] = pre_val
        # boolean constant propagation for flags: x = True / False / None-test results
        tname, tval = None, None
        if isinstance(st, ast.Assign) and len(st.targets) == 1 and isinstance(st.targets[0], ast.Name):
            tname, tval = st.targets[0].id, st.value
        elif isinstance(st, ast.AnnAssign) and isinstance(st.target, ast.Name) and st.value is not None:
            tname, tval = st.target.id, st.value
        if tname is not None:
            if isinstance(tval, ast.Constant) and isinstance(tval.value, bool):
                p.facts[tname] = tval.value
            # None-ness of optionals: `x = None` / `x: Optional[T] = None`, and `x = f(...)` (a constructed value)
            if isinstance(tval, ast.Constant) and tval.value is None:
                p.facts[f"{tname} is None"] = True
            elif isinstance(tval, (ast.Call, ast.BinOp, ast.Tuple, ast.List, ast.Dict, ast.Set, ast.JoinedStr)) or (
                    isinstance(tval, ast.Constant) and tval.value is not None):
                p.facts[f"{tname} is None"] = False
        yield p

    def _loop(self, st, p: Path) -> Iterator[Path]:
        relevant = self.keep_all_ifs or self._relevant(st)
        hdr = st.iter if isinstance(st, (ast.For, ast.AsyncFor)) else st.test
        hev = self._expr_events(hdr)
        if not relevant:
            self._add_events(p, hev)
            self._invalidate(p, set().union(*[assigned_names(s) for s in ast.walk(st) if isinstance(s, ast.stmt)]))
            yield p
            return
        infinite = isinstance(st, ast.While) and isinstance(st.test, ast.Constant) and bool(st.test.value)
        body_names = set().union(*[assigned_names(s) for s in ast.walk(st) if isinstance(s, ast.stmt)])
        # exact-k unrolling: facts established inside the k iterations stay valid; only the loop target
        # is re-bound at each iteration start
        body_names_excl_target = set()
        for k in self.loop_iters:
            if infinite and k == 0:
                continue
            starts = [p.copy()]
            for q in starts:
                self._add_events(q, [Event(e.label, e.node) for e in hev])
            finished: List[Path] = []  # left the loop (break) or exited function
            for it in range(k):
                nxt = []
                for q in starts:
                    self._invalidate(q, assigned_names(st) - body_names_excl_target)
                    q.items.append(Decision(f"loop@{st.lineno} iter {it + 1}", True, st.lineno))
                    for r in self._block(st.body, q):
                        self._tick()
                        if r.exit == "break":
                            r.exit, r.exit_node = "", None
                            r.items.append(Decision(f"loop@{st.lineno} break", True, st.lineno))
                            finished.append(r)
                        elif r.exit == "continue":
                            r.exit, r.exit_node = "", None
                            nxt.append(r)
                        elif r.exit:
                            yield r
                        else:
                            nxt.append(r)
                starts = nxt
            if not infinite:
                for q in starts:
                    q.items.append(Decision(f"loop@{st.lineno} exhausted after {k}", True, st.lineno))
                    yield from self._block(st.orelse, q)
            for r in finished:
                yield r

    def _try(self, st: ast.Try, p: Path) -> Iterator[Path]:
        def after_final(q: Path) -> Iterator[Path]:
            if not st.finalbody:
                yield q
                return
            saved = (q.exit, q.exit_node)
            q.exit, q.exit_node = "", None
            for r in self._block(st.finalbody, q):
                if not r.exit:
                    r.exit, r.exit_node = saved
                yield r

        base_len = len(p.items)
        for q in self._block(st.body, p.copy()):
            self._tick()
            # exceptional edges: at every event appended by the try body
            if self.exc_edges and st.handlers:
                for i in range(base_len, len(q.items)):
                    it = q.items[i]
                    if isinstance(it, Event) and not it.attempted:
                        for h in st.handlers:
                            r = Path(list(q.items[:i]) + [Event(it.label, it.node, True)], dict(p.facts))
                            r.items.append(Decision(f"except@{h.lineno}", True, h.lineno))
                            for s in self._block(h.body, r):
                                if s.exit == "raise" and isinstance(s.exit_node, ast.Raise) and s.exit_node.exc is None:
                                    s.exit = "raise"
                                yield from after_final(s)
            if q.exit == "raise" and st.handlers:
                for h in st.handlers:
                    r = q.copy()
                    r.exit, r.exit_node = "", None
                    r.items.append(Decision(f"except@{h.lineno}", True, h.lineno))
                    for s in self._block(h.body, r):
                        yield from after_final(s)
                # (an exception type not matched propagates)
                if not any(h.type is None for h in st.handlers):
                    yield from after_final(q)
                continue
            if q.exit:
                yield from after_final(q)
                continue
            for r in self._block(st.orelse, q):
                yield from after_final(r)


def dedupe_exceptional(paths: List[Path]) -> List[Path]:
    """Exceptional-edge forks from different completions of the same try body repeat;
    keep one representative per (items, exit) description."""
    seen = set()
    out = []
    for p in paths:
        k = p.describe()
        if k not in seen:
            seen.add(k)
            out.append(p)
    return out
