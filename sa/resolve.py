"""Name/call resolution and argument-to-formal binding inside the analysed package."""
from __future__ import annotations

import ast
from dataclasses import dataclass, field
from typing import Dict, List, Optional, Tuple, Union

from .model import (
    AnalysisError,
    ClassInfo,
    FuncInfo,
    ModuleInfo,
    Package,
    Param,
    own_nodes,
)

Resolved = Union[List[FuncInfo], ClassInfo, ModuleInfo, Tuple[str, object], None]


class Resolver:
    def __init__(self, pkg: Package):
        self.pkg = pkg
        self._mro_cache: Dict[ClassInfo, List[ClassInfo]] = {}
        self._attr_types: Dict[ClassInfo, Dict[str, ClassInfo]] = {}

    # ---------------- names --------------------------------------------
    def resolve_global(self, mi: ModuleInfo, name: str, _depth=0) -> Resolved:
        if _depth > 8:
            return None
        if name in mi.functions:
            fl = [f for f in mi.functions[name] if not f.is_overload]
            if fl:
                return fl
        if name in mi.classes:
            return mi.classes[name]
        if name in mi.imports:
            mod, orig = mi.imports[name]
            if mod.startswith("<ext>"):
                return ("ext", mod[5:] + ("." + orig if orig else ""))
            if orig is None:
                if mod in self.pkg.modules:
                    return self.pkg.modules[mod]
                return ("ext", mod)
            if mod in self.pkg.modules:
                r = self.resolve_global(self.pkg.modules[mod], orig, _depth + 1)
                if r is not None:
                    return r
                return ("ext", mod + "." + orig)
            return ("ext", mod + "." + orig)
        if name in mi.assigns:
            vals = mi.assigns[name]
            # alias: X = Y (Name) or X = mod.attr
            v = vals[-1]
            if isinstance(v, ast.Name) and v.id != name:
                r = self.resolve_global(mi, v.id, _depth + 1)
                if r is not None:
                    return r
            return ("const", v)
        return None

    def resolve_expr(self, mi: ModuleInfo, e: ast.expr) -> Resolved:
        """Resolve a Name / dotted Attribute at module scope."""
        if isinstance(e, ast.Name):
            return self.resolve_global(mi, e.id)
        if isinstance(e, ast.Attribute):
            base = self.resolve_expr(mi, e.value)
            if isinstance(base, ModuleInfo):
                return self.resolve_global(base, e.attr)
            if isinstance(base, ClassInfo):
                m = self.find_method(base, e.attr)
                if m:
                    return m
                for c in self.mro(base):
                    if e.attr in c.attrs:
                        return ("const", c.attrs[e.attr])
                return None
            if isinstance(base, tuple) and base[0] == "ext":
                return ("ext", base[1] + "." + e.attr)
        return None

    def const_value(self, mi: ModuleInfo, e: ast.expr):
        """Evaluate an expression to a Python constant if it is a literal or a
        package-level constant (config.X). Returns (True, value) or (False, None)."""
        try:
            return True, ast.literal_eval(e)
        except Exception:
            pass
        r = self.resolve_expr(mi, e) if isinstance(e, (ast.Name, ast.Attribute)) else None
        if isinstance(r, tuple) and r[0] == "const":
            try:
                return True, ast.literal_eval(r[1])
            except Exception:
                return False, None
        return False, None

    # ---------------- classes ------------------------------------------
    def mro(self, ci: ClassInfo) -> List[ClassInfo]:
        if ci in self._mro_cache:
            return self._mro_cache[ci]
        out = [ci]
        self._mro_cache[ci] = out
        for b in ci.bases:
            r = self.resolve_expr(ci.module, b)
            if isinstance(r, ClassInfo):
                for c in self.mro(r):
                    if c not in out:
                        out.append(c)
        return out

    def ext_bases(self, ci: ClassInfo) -> List[str]:
        out = []
        for c in self.mro(ci):
            for b in c.bases:
                r = self.resolve_expr(c.module, b)
                if not isinstance(r, ClassInfo):
                    out.append(ast.unparse(b))
        return out

    def find_method(
        self, ci: ClassInfo, name: str, after: Optional[ClassInfo] = None
    ) -> List[FuncInfo]:
        m = self.mro(ci)
        if after is not None:
            if after in m:
                m = m[m.index(after) + 1 :]
            else:
                m = self.mro(after)[1:]
        for c in m:
            if name in c.methods:
                fl = [f for f in c.methods[name] if not f.is_overload]
                if fl:
                    return fl
        return []

    def subclasses(self, ci: ClassInfo) -> List[ClassInfo]:
        out = []
        for mi in self.pkg.modules.values():
            for c in mi.classes.values():
                if c is not ci and ci in self.mro(c):
                    out.append(c)
        return out

    def attr_types(self, ci: ClassInfo) -> Dict[str, ClassInfo]:
        """self.<attr> = Cls(...) assignments in __init__ (package classes only)."""
        if ci in self._attr_types:
            return self._attr_types[ci]
        out: Dict[str, ClassInfo] = {}
        self._attr_types[ci] = out
        for c in reversed(self.mro(ci)):
            for f in c.methods.get("__init__", []):
                ann = {p.name: p.annotation for p in f.params}
                for n in own_nodes(f.node):
                    if isinstance(n, ast.Assign) and len(n.targets) == 1:
                        t = n.targets[0]
                        if (
                            isinstance(t, ast.Attribute)
                            and isinstance(t.value, ast.Name)
                            and t.value.id == "self"
                        ):
                            v = n.value
                            k = None
                            if isinstance(v, ast.Call):
                                r = self.resolve_expr(c.module, v.func) if isinstance(
                                    v.func, (ast.Name, ast.Attribute)
                                ) else None
                                if isinstance(r, ClassInfo):
                                    k = r
                            elif isinstance(v, ast.Name) and ann.get(v.id) is not None:
                                r = self.resolve_expr(c.module, ann[v.id]) if isinstance(
                                    ann[v.id], (ast.Name, ast.Attribute)
                                ) else None
                                if isinstance(r, ClassInfo):
                                    k = r
                            if k is not None:
                                out[t.attr] = k
        return out

    # ---------------- calls --------------------------------------------
    def local_types(self, ctx: FuncInfo) -> Dict[str, ClassInfo]:
        """x = Cls(...) inside the function, and annotated parameters."""
        cache = getattr(ctx, "_local_types", None)
        if cache is not None:
            return cache
        out: Dict[str, ClassInfo] = {}
        multi = set()
        for p in ctx.params:
            if p.annotation is not None and isinstance(
                p.annotation, (ast.Name, ast.Attribute)
            ):
                r = self.resolve_expr(ctx.module, p.annotation)
                if isinstance(r, ClassInfo):
                    out[p.name] = r
        for n in own_nodes(ctx.node):
            if isinstance(n, ast.Assign) and len(n.targets) == 1:
                t = n.targets[0]
                if isinstance(t, ast.Name):
                    k = None
                    if isinstance(n.value, ast.Call) and isinstance(
                        n.value.func, (ast.Name, ast.Attribute)
                    ):
                        r = self.resolve_expr(ctx.module, n.value.func)
                        if isinstance(r, ClassInfo):
                            k = r
                    if t.id in out and out[t.id] is not k:
                        multi.add(t.id)
                    elif k is not None:
                        out[t.id] = k
        for m in multi:
            out.pop(m, None)
        ctx._local_types = out
        return out

    def resolve_call(self, call: ast.Call, ctx: FuncInfo):
        """Return (callees, skip_first, kind) or None.

        callees: list of FuncInfo siblings (version-conditional definitions).
        skip_first: True if the first formal (self/cls) is bound implicitly.
        kind: 'func' | 'method' | 'ctor' | 'super' | 'classmeth'
        """
        f = call.func
        mi = ctx.module
        # nested local function
        if isinstance(f, ast.Name):
            c = ctx
            while c is not None:
                if f.id in c.nested:
                    return c.nested[f.id], False, "func"
                c = c.parent
            r = self.resolve_global(mi, f.id)
            return self._from_resolved(r)
        if isinstance(f, ast.Attribute):
            v = f.value
            # super().m(...)
            if (
                isinstance(v, ast.Call)
                and isinstance(v.func, ast.Name)
                and v.func.id == "super"
                and ctx.cls is not None
            ):
                after = ctx.cls
                if v.args and isinstance(v.args[0], ast.Name):
                    r = self.resolve_global(mi, v.args[0].id)
                    if isinstance(r, ClassInfo):
                        after = r
                fl = self.find_method(ctx.cls, f.attr, after=after)
                if fl:
                    return fl, True, "super"
                return None
            if isinstance(v, ast.Name) and v.id in ("self", "cls") and ctx.cls is not None:
                first = ctx.params[0].name if ctx.params else None
                top = ctx
                while top.parent is not None:
                    top = top.parent
                first = top.params[0].name if top.params else None
                if first == v.id:
                    fl = self.find_method(ctx.cls, f.attr)
                    if fl:
                        skip = not fl[0].is_static
                        return fl, skip, "method"
                    return None
            # self.attr.m(...)
            if (
                isinstance(v, ast.Attribute)
                and isinstance(v.value, ast.Name)
                and v.value.id == "self"
                and ctx.cls is not None
            ):
                at = self.attr_types(ctx.cls).get(v.attr)
                if at is not None:
                    fl = self.find_method(at, f.attr)
                    if fl:
                        return fl, not fl[0].is_static, "method"
                return None
            if isinstance(v, ast.Name):
                lt = self.local_types(ctx).get(v.id)
                if lt is not None:
                    fl = self.find_method(lt, f.attr)
                    if fl:
                        return fl, not fl[0].is_static, "method"
            r = self.resolve_expr(mi, f)
            if isinstance(r, list) and r and isinstance(r[0], FuncInfo):
                fi = r[0]
                if fi.cls is not None:
                    # Class.method(...) explicit
                    base = self.resolve_expr(mi, v)
                    if isinstance(base, ClassInfo):
                        if fi.is_static:
                            return r, False, "func"
                        if fi.is_classmethod:
                            return r, True, "classmeth"
                        return r, False, "func"
                return r, False, "func"
            return self._from_resolved(r)
        return None

    def _from_resolved(self, r):
        if isinstance(r, list) and r and isinstance(r[0], FuncInfo):
            return r, False, "func"
        if isinstance(r, ClassInfo):
            fl = self.find_method(r, "__init__")
            if fl:
                return fl, True, "ctor"
            return None
        return None


@dataclass
class Binding:
    call: ast.Call
    callee: FuncInfo
    pairs: List[Tuple[Param, ast.expr, str]] = field(default_factory=list)  # how: pos|kw
    defaulted: List[Param] = field(default_factory=list)
    missing: List[Param] = field(default_factory=list)
    extra_pos: List[ast.expr] = field(default_factory=list)
    extra_kw: List[Tuple[str, ast.expr]] = field(default_factory=list)
    star: bool = False  # call uses *x / **y: binding is partial

    def arg_for(self, formal: str) -> Optional[ast.expr]:
        for p, a, _ in self.pairs:
            if p.name == formal:
                return a
        return None

    def how(self, formal: str) -> Optional[str]:
        for p, a, h in self.pairs:
            if p.name == formal:
                return h
        return None


def bind_args(
    call: ast.Call,
    callee: FuncInfo,
    skip_first: bool,
    pos_args: Optional[List[ast.expr]] = None,
    keywords: Optional[List[ast.keyword]] = None,
) -> Binding:
    params = callee.params
    if skip_first and params and params[0].kind == "pos":
        params = params[1:]
    pos_args = list(call.args) if pos_args is None else pos_args
    keywords = list(call.keywords) if keywords is None else keywords
    b = Binding(call, callee)
    posf = [p for p in params if p.kind == "pos"]
    vararg = next((p for p in params if p.kind == "vararg"), None)
    kwarg = next((p for p in params if p.kind == "kwarg"), None)
    bound = set()
    i = 0
    for a in pos_args:
        if isinstance(a, ast.Starred):
            b.star = True
            break
        if i < len(posf):
            b.pairs.append((posf[i], a, "pos"))
            bound.add(posf[i].name)
            i += 1
        elif vararg is not None:
            b.pairs.append((vararg, a, "pos"))
        else:
            b.extra_pos.append(a)
    byname = {p.name: p for p in params if p.kind in ("pos", "kwonly")}
    for kw in keywords:
        if kw.arg is None:
            b.star = True
            continue
        if kw.arg in byname and kw.arg not in bound:
            b.pairs.append((byname[kw.arg], kw.value, "kw"))
            bound.add(kw.arg)
        elif kwarg is not None:
            b.pairs.append((kwarg, kw.value, "kw"))
        else:
            b.extra_kw.append((kw.arg, kw.value))
    for p in params:
        if p.kind in ("pos", "kwonly") and p.name not in bound:
            if p.default is not None:
                b.defaulted.append(p)
            elif not b.star:
                b.missing.append(p)
    return b


def principal_name(e: ast.expr) -> Optional[str]:
    """The 'principal name' of an argument expression: a bare Name, the last attribute
    of self.x / options.x / params.x chains, looking through `not`."""
    if isinstance(e, ast.UnaryOp) and isinstance(e.op, ast.Not):
        return principal_name(e.operand)
    if isinstance(e, ast.Name):
        return e.id
    if isinstance(e, ast.Attribute):
        # only attribute chains rooted at a Name
        v = e
        while isinstance(v, ast.Attribute):
            v = v.value
        if isinstance(v, ast.Name):
            return e.attr
    return None


def norm_name(n: str) -> str:
    return n.replace("_", "").lower()
