"""Evaluation of a small integer expression language over the syntax tree (no execution of repository code).

`int_eval(e, env)` computes the value of an expression built from constants, leaves looked up by their unparsed text in `env`
(names, attribute chains, `x.shape[k]`, `len(x)` ...), + - * // % **, unary minus, min / max / abs, comparisons, and / or / not
and conditional expressions. Anything else raises NotEvaluable. Used to compare an expression with a documented formula at a
grid of points when a normal form does not exist (floor division, remainders, min/max)."""
from __future__ import annotations

import ast
from typing import Callable, Dict, Optional

from .astutil import call_name, u


class NotEvaluable(Exception):
    pass


def int_eval(e: ast.AST, env: Dict[str, int], resolve: Optional[Callable[[ast.AST], Optional[ast.AST]]] = None, depth: int = 0):
    if depth > 60:
        raise NotEvaluable("depth")
    t = u(e)
    if t in env:
        return env[t]
    leaf = env.get("__leaf__")
    if leaf is not None:
        v = leaf(e)
        if v is not None:
            return v
    if isinstance(e, ast.Constant) and (isinstance(e.value, (int, bool, str, float)) or e.value is None):
        return e.value
    if isinstance(e, ast.Name) and resolve is not None:
        v = resolve(e)
        if isinstance(v, Val):
            return v.v
        if v is not None:
            return int_eval(v, env, resolve, depth + 1)
    if isinstance(e, ast.UnaryOp):
        x = int_eval(e.operand, env, resolve, depth + 1)
        if isinstance(e.op, ast.USub):
            return -x
        if isinstance(e.op, ast.UAdd):
            return x
        if isinstance(e.op, ast.Not):
            return not x
    if isinstance(e, ast.BinOp):
        x, y = int_eval(e.left, env, resolve, depth + 1), int_eval(e.right, env, resolve, depth + 1)
        try:
            if isinstance(e.op, ast.Add):
                return x + y
            if isinstance(e.op, ast.Sub):
                return x - y
            if isinstance(e.op, ast.Mult):
                return x * y
            if isinstance(e.op, ast.FloorDiv):
                return x // y
            if isinstance(e.op, ast.Mod):
                return x % y
            if isinstance(e.op, ast.Pow) and y >= 0:
                return x ** y
        except ZeroDivisionError:
            raise NotEvaluable("division by zero")
    if isinstance(e, ast.BoolOp):
        out = None
        for v in e.values:
            out = int_eval(v, env, resolve, depth + 1)
            if (isinstance(e.op, ast.And) and not out) or (isinstance(e.op, ast.Or) and out):
                return out
        return out
    if isinstance(e, ast.Compare):
        left = int_eval(e.left, env, resolve, depth + 1)
        for op, r in zip(e.ops, e.comparators):
            right = int_eval(r, env, resolve, depth + 1)
            if isinstance(op, (ast.Is, ast.IsNot)):
                res = (left is right) == isinstance(op, ast.Is)
            elif isinstance(op, (ast.Eq, ast.NotEq)):
                res = (left == right) == isinstance(op, ast.Eq)
            elif left is None or right is None:
                raise NotEvaluable("ordering on None")
            else:
                res = {ast.Lt: left < right, ast.LtE: left <= right, ast.Gt: left > right, ast.GtE: left >= right}.get(type(op))
            if res is None:
                raise NotEvaluable(t[:40])
            if not res:
                return False
            left = right
        return True
    if isinstance(e, ast.IfExp):
        return int_eval(e.body if int_eval(e.test, env, resolve, depth + 1) else e.orelse, env, resolve, depth + 1)
    if isinstance(e, ast.Call) and call_name(e) in ("min", "max", "abs", "int", "bool") and not e.keywords and e.args:
        args = [int_eval(a, env, resolve, depth + 1) for a in e.args]
        return {"min": min, "max": max, "abs": abs, "int": int, "bool": bool}[call_name(e)](*args)
    raise NotEvaluable(t[:50])


def run_block(stmts, env: Dict[str, int], resolve=None):
    """Interpret straight-line / branching integer code (Name = expr, Name op= expr, if/else, pass, bare expressions) in `env`
    (names by identifier, other leaves by their text, `env['__leaf__']` an optional callback for opaque leaves)."""
    for st in stmts:
        if isinstance(st, ast.Assign) and len(st.targets) == 1 and isinstance(st.targets[0], ast.Name):
            env[st.targets[0].id] = int_eval(st.value, env, resolve)
        elif isinstance(st, ast.AnnAssign) and isinstance(st.target, ast.Name) and st.value is not None:
            env[st.target.id] = int_eval(st.value, env, resolve)
        elif isinstance(st, ast.AugAssign) and isinstance(st.target, ast.Name):
            cur = int_eval(st.target, env, resolve)
            val = int_eval(st.value, env, resolve)
            new = {ast.Add: lambda: cur + val, ast.Sub: lambda: cur - val, ast.Mult: lambda: cur * val,
                   ast.FloorDiv: lambda: cur // val, ast.Mod: lambda: cur % val}.get(type(st.op))
            if new is None:
                raise NotEvaluable(u(st)[:40])
            env[st.target.id] = new()
        elif isinstance(st, ast.If):
            run_block(st.body if int_eval(st.test, env, resolve) else st.orelse, env, resolve)
        elif isinstance(st, (ast.Pass, ast.Expr)):
            continue
        else:
            raise NotEvaluable(type(st).__name__)
    return env


class Val:
    """A resolved value (as opposed to an expression to evaluate) returned by a `resolve` callback."""

    def __init__(self, v):
        self.v = v


def guarded_value(e: ast.AST, env: Dict[str, int], rd, pm):
    """int_eval where a local name may have several definitions on different branches: the definitions whose enclosing branch
    tests hold in `env` (tests that cannot be evaluated do not exclude) must agree on the value."""
    from .astutil import guards_of
    busy = set()

    def resolve(name):
        if id(name) in busy or len(busy) > 30:
            raise NotEvaluable("cyclic definition")
        busy.add(id(name))
        try:
            vals = []
            for d in rd.defs_of(name):
                if d.kind != "assign" or d.value is None or getattr(d, "stmt", None) is None:
                    raise NotEvaluable(f"`{name.id}` is not a plain local")
                ok = True
                for t, pol in guards_of(pm, d.stmt):
                    try:
                        if bool(int_eval(t, env, resolve)) != pol:
                            ok = False
                    except NotEvaluable:
                        pass
                if ok:
                    v = int_eval(d.value, env, resolve)
                    if not any(v is w or (type(v) is type(w) and v == w) for w in vals):
                        vals.append(v)
            if len(vals) != 1:
                raise NotEvaluable(f"`{name.id}` has {len(vals)} possible values here")
            return Val(vals[0])
        finally:
            busy.discard(id(name))
    return int_eval(e, env, resolve)
