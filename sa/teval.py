"""Evaluation of small tensor expressions over exact values (no execution of repository code, no torch).

Some clauses are about WHAT a short tail of tensor arithmetic computes: a reduction over the right terms, a count of the right rows,
a mask negated before or after it is collapsed. `teval(e, env)` evaluates such an expression over the syntax tree with numpy object
arrays of Fractions (and boolean arrays) standing for the tensors, so that the result can be compared with the documented value at a
few concrete inputs - whatever the spelling (method or torch.<fn> form, named temporaries, order of commuting steps).

The fragment: names / attribute chains looked up by text in `env`, constants, + - * / // % **, unary minus, `~`, comparisons
(element-wise), & |, and / or / not on scalars, conditional expressions, indexing, `.shape` / `.size(k)` / `.numel()` / `.dim()`, and
the tensor methods sum, mean, any, all, clamp / clamp_min / clamp_max, masked_fill, unsqueeze, squeeze, flatten, view / reshape /
view_as, transpose / t, expand / expand_as (to a broadcast-compatible shape), float / long / to / bool / contiguous / clone / detach
(identities on values), max / min over everything, torch.where / zeros_like / ones_like / full_like / arange / sum / mean / any.
Anything else raises NotEvaluable: the caller reports the obligation as undecided, never as a pass."""
from __future__ import annotations

import ast
import math
import warnings
from fractions import Fraction
from typing import Callable, Optional

import numpy as np

from .astutil import call_name, u
from .inteval import NotEvaluable

class _TiedIndex:
    """The index slot of max / min at a tie: the tensor library does not specify which of the tied positions it reports. Unused (the
    value slot alone is read) it is harmless; any use of it is outside the fragment."""

    def _no(self, *a, **k):
        raise NotEvaluable("the index of a tied max / min is used")
    __int__ = __index__ = __add__ = __radd__ = __sub__ = __rsub__ = __mul__ = __rmul__ = __lt__ = __le__ = __gt__ = __ge__ = __hash__ = _no

    def __eq__(self, other):
        raise NotEvaluable("the index of a tied max / min is used")


TIED = _TiedIndex()
# values at or below this bound that tie in a top-k are taken in index order (a table sets it to 0 when candidates without mass carry no
# information); above it the index of a tie is poisoned
TIE_BREAK_BY_INDEX_AT_OR_BELOW = -math.inf


class DivisionByZero(NotEvaluable):
    """A quotient whose divisor is zero at the evaluated point (0 / 0 = NaN in floating point): a finding, not a limit of the fragment."""


_FUNCTION_FORMS = {"sort", "flatten", "unsqueeze", "squeeze", "transpose", "gather", "masked_fill", "masked_select", "masked_scatter", "clamp", "clamp_min",
                   "clamp_max", "abs", "neg", "prod", "square", "sqrt", "eq", "ne", "lt", "le", "gt", "ge", "tril", "triu", "repeat_interleave", "unique_consecutive",
                   "t", "numel", "reshape", "expand_as", "view_as", "movedim", "index_select", "isneginf", "isposinf", "isinf", "isfinite", "isnan"}
IDENTITY_METHODS = {"float", "double", "long", "int", "to", "clone", "detach", "type_as", "cpu"}


def frac_array(x) -> np.ndarray:
    a = np.array(x, dtype=object)
    return np.vectorize(lambda v: Fraction(v), otypes=[object])(a) if a.size else a


def _is_arr(v):
    return isinstance(v, np.ndarray)


def _storage(x):
    """The array that owns the memory a view looks into."""
    root = x
    while isinstance(getattr(root, "base", None), np.ndarray):
        root = root.base
    if not root.flags["C_CONTIGUOUS"]:
        raise NotEvaluable("storage layout")
    return root


def _axis(v, nd):
    if not isinstance(v, int) or isinstance(v, bool):
        raise NotEvaluable("axis")
    if not -nd <= v < nd:
        raise NotEvaluable("axis out of range")
    return v % nd


class Root:
    """The square root of a non-negative rational that is not a perfect square: compared by its radicand, no arithmetic."""

    def __init__(self, radicand):
        self.radicand = Fraction(radicand)

    def __eq__(self, other):
        return isinstance(other, Root) and other.radicand == self.radicand

    def __ne__(self, other):
        return not self.__eq__(other)

    def __hash__(self):
        return hash(("root", self.radicand))

    def __repr__(self):
        return f"sqrt({self.radicand})"

    def _no(self, *a, **k):
        raise NotEvaluable("arithmetic on an irrational root")
    __add__ = __radd__ = __sub__ = __rsub__ = __mul__ = __rmul__ = __truediv__ = __rtruediv__ = __neg__ = __lt__ = __le__ = __gt__ = __ge__ = __pow__ = _no


def exact_sqrt(v):
    """sqrt over the exact values: a rational for a perfect square, `Root` otherwise, not-a-number below zero."""
    import math
    if isinstance(v, float):
        return math.sqrt(v) if v >= 0 else float("nan")
    if isinstance(v, Root):
        raise NotEvaluable("root of a root")
    v = Fraction(v)
    if v < 0:
        return float("nan")
    n_, d_ = math.isqrt(v.numerator), math.isqrt(v.denominator)
    if n_ * n_ == v.numerator and d_ * d_ == v.denominator:
        return Fraction(n_, d_)
    return Root(v)


def _as_exact(v):
    if isinstance(v, np.ndarray) and v.dtype == bool:
        return v.astype(int).astype(object)
    return v


np.seterr(all="ignore")
warnings.filterwarnings("ignore", category=RuntimeWarning, module=r"numpy.*")
warnings.filterwarnings("ignore", category=RuntimeWarning, message=r"invalid value encountered.*")


def teval(e: ast.AST, env: dict, leaf: Optional[Callable] = None, depth: int = 0):
    if depth > 80:
        raise NotEvaluable("depth")
    t = u(e)
    if t in env:
        v = env[t]
        if type(v).__name__ == "_Poison":
            raise NotEvaluable(f"`{t}` was bound to a value outside the fragment")
        return v
    if leaf is not None:
        v = leaf(e)
        if v is not None:
            return v
    ev = lambda x: teval(x, env, leaf, depth + 1)  # noqa: E731
    if isinstance(e, ast.Constant):
        if isinstance(e.value, bool) or e.value is None or isinstance(e.value, (int, str)):
            return e.value
        if isinstance(e.value, float):
            return Fraction(e.value)
        raise NotEvaluable(t[:30])
    if isinstance(e, ast.List) and not e.elts:
        return []  # an accumulator (`masks = []` ... `masks.append(m)` ... `torch.stack(masks)`)
    if isinstance(e, (ast.Tuple, ast.List, ast.Set)):
        return tuple(ev(x) for x in e.elts)
    if isinstance(e, ast.UnaryOp):
        x = ev(e.operand)
        if isinstance(e.op, ast.USub):
            return -_as_exact(x)
        if isinstance(e.op, ast.UAdd):
            return x
        if isinstance(e.op, ast.Not):
            if _is_arr(x):
                if x.size != 1:
                    raise ValueError("Boolean value of Tensor with more than one value is ambiguous")  # (as the library raises)
                return not bool(x.reshape(-1)[0])
            return not x
        if isinstance(e.op, ast.Invert):
            if _is_arr(x) and x.dtype == bool:
                return ~x
            if isinstance(x, bool):
                return not x
            raise NotEvaluable("~ on a non-boolean")
    if isinstance(e, ast.BinOp):
        a, b = ev(e.left), ev(e.right)
        if isinstance(e.op, (ast.BitAnd, ast.BitOr, ast.BitXor)):
            if all((_is_arr(x) and x.dtype == bool) or isinstance(x, (bool, np.bool_)) for x in (a, b)):
                return {ast.BitAnd: np.logical_and, ast.BitOr: np.logical_or, ast.BitXor: np.logical_xor}[type(e.op)](a, b)
            raise NotEvaluable("bit operation on non-booleans")
        a, b = _as_exact(a), _as_exact(b)
        try:
            if isinstance(e.op, ast.Add):
                return a + b
            if isinstance(e.op, ast.Sub):
                return a - b
            if isinstance(e.op, ast.Mult):
                return a * b
            if isinstance(e.op, ast.Div):
                if _is_arr(b) or _is_arr(a):
                    # element by element, as the tensor library does: x / 0 is a not-a-number ELEMENT (a later `where` may discard it;
                    # if it reaches the result the comparison with the documented value fails)
                    def _div(x_, y_):
                        if y_ == 0:
                            return float("nan")
                        if isinstance(x_, float) or isinstance(y_, float):
                            return x_ / y_
                        return Fraction(x_) / y_
                    return np.vectorize(_div, otypes=[object])(a, b)
                if b == 0:
                    raise DivisionByZero(t[:60])
                return Fraction(a) / b
            if isinstance(e.op, ast.FloorDiv):
                return a // b
            if isinstance(e.op, ast.Mod):
                return a % b
            if isinstance(e.op, ast.Pow):
                if _is_arr(a) or _is_arr(b):
                    # (element by element: Fraction ** ndarray would fall back to floating point)
                    return np.vectorize(lambda x_, y_: x_ ** y_, otypes=[object])(a, b)
                return a ** b
            if isinstance(e.op, ast.MatMult):
                return a.dot(b)
        except ZeroDivisionError:
            raise NotEvaluable("division by zero")
        except TypeError:
            raise NotEvaluable(t[:40])
    if isinstance(e, ast.BoolOp):
        out = None
        for v in e.values:
            out = ev(v)
            if _is_arr(out):
                if out.size != 1:
                    raise NotEvaluable("and / or on a tensor")
                out = out.reshape(-1)[0]  # (a one-element tensor in a boolean context is its element)
                out = bool(out) if isinstance(out, np.bool_) else out
            if (isinstance(e.op, ast.And) and not out) or (isinstance(e.op, ast.Or) and out):
                return out
        return out
    if isinstance(e, ast.Compare):
        left = ev(e.left)
        res = None
        for op, r in zip(e.ops, e.comparators):
            right = ev(r)
            if isinstance(op, (ast.Is, ast.IsNot)):
                cur = (left is right) == isinstance(op, ast.Is)
            elif isinstance(op, (ast.In, ast.NotIn)):
                if _is_arr(left) or not isinstance(right, tuple):
                    raise NotEvaluable("membership")
                cur = (left in right) == isinstance(op, ast.In)
            else:
                la, ra = _as_exact(left), _as_exact(right)
                if (la is None or ra is None) and not isinstance(op, (ast.Eq, ast.NotEq)):
                    raise NotEvaluable("ordering on None")
                try:
                    cur = {ast.Eq: lambda: la == ra, ast.NotEq: lambda: la != ra, ast.Lt: lambda: la < ra, ast.LtE: lambda: la <= ra,
                           ast.Gt: lambda: la > ra, ast.GtE: lambda: la >= ra}[type(op)]()
                except KeyError:
                    raise NotEvaluable(t[:40])
                if _is_arr(cur):
                    cur = cur.astype(bool)
            if res is None:
                res = cur
            elif _is_arr(res) or _is_arr(cur):
                res = np.logical_and(res, cur)
            else:
                res = res and cur
            if not _is_arr(res) and not res:
                return False
            left = right
        return res
    if isinstance(e, ast.IfExp):
        c = ev(e.test)
        if _is_arr(c):
            raise NotEvaluable("tensor as a condition")
        return ev(e.body if c else e.orelse)
    if isinstance(e, ast.Attribute) and isinstance(e.value, ast.Name) and e.value.id == "torch" and e.attr in (
            "long", "int", "int64", "int32", "float", "float32", "float64", "double", "bool", "half", "uint8", "int8", "int16"):
        return f"<torch.{e.attr}>"
    if isinstance(e, ast.Attribute):
        base = ev(e.value)
        if _is_arr(base):
            if e.attr == "shape":
                return tuple(int(s) for s in base.shape)
            if e.attr == "ndim":
                return int(base.ndim)
            if e.attr == "T" and base.ndim == 2:
                return base.T
            if e.attr in ("device", "dtype"):
                return f"<{e.attr}>"
        raise NotEvaluable(t[:40])
    if isinstance(e, ast.JoinedStr):
        # an f-string (messages): the text is of no consequence for the tables, but the statement must not stop the walk
        parts = []
        for v in e.values:
            if isinstance(v, ast.Constant):
                parts.append(str(v.value))
            else:
                try:
                    parts.append(str(ev(v.value)))
                except NotEvaluable:
                    parts.append("<?>")
        return "".join(parts)
    if isinstance(e, ast.Subscript):
        base = ev(e.value)
        idx = _index(e.slice, ev)
        try:
            if isinstance(base, (tuple, list)):
                if isinstance(idx, Fraction) and idx.denominator == 1:
                    idx = int(idx)
                return base[idx]
            if _is_arr(base):
                return base[idx]
        except (IndexError, TypeError):
            raise NotEvaluable("index")
        raise NotEvaluable(t[:40])
    if isinstance(e, ast.Call):
        return _call(e, ev, t)
    raise NotEvaluable(t[:50])


def _index(s: ast.AST, ev):
    if isinstance(s, ast.Tuple):
        return tuple(_index(x, ev) for x in s.elts)
    if isinstance(s, ast.Slice):
        return slice(*(None if p is None else _int(ev(p)) for p in (s.lower, s.upper, s.step)))
    if isinstance(s, ast.Constant) and s.value is None:
        return None
    if isinstance(s, ast.Constant) and s.value is Ellipsis:
        return Ellipsis
    v = ev(s)
    if _is_arr(v):
        if v.dtype == bool:
            return v
        return np.vectorize(lambda z: int(z), otypes=[int])(v) if v.size else v.astype(int)  # an index tensor
    return _int(v)


def _int(v):
    if isinstance(v, np.ndarray) and v.size == 1 and v.dtype == object:
        v = v.reshape(-1)[0]  # (a 0-dimensional integer tensor used as an index / extent)
    if isinstance(v, bool) or not isinstance(v, (int, Fraction)) or (isinstance(v, Fraction) and v.denominator != 1):
        raise NotEvaluable("integer expected")
    return int(v)


def _kw(c: ast.Call, ev, names, defaults):
    """Positional / keyword arguments of a tensor method bound to `names` (evaluated)."""
    out = dict(zip(names, defaults))
    if len(c.args) > len(names):
        raise NotEvaluable("arguments")
    for n, a in zip(names, c.args):
        out[n] = ev(a)
    for k in c.keywords:
        if k.arg not in names:
            if k.arg in ("dtype", "device", "out"):
                continue
            raise NotEvaluable(f"keyword {k.arg}")
        out[k.arg] = ev(k.value)
    return [out[n] for n in names]


def _reduce(x, kind, dim, keepdim):
    x = _as_exact(x) if kind in ("sum", "mean") else x
    if not _is_arr(x):
        raise NotEvaluable("reduction of a scalar")
    if kind in ("any", "all") and x.dtype != bool:
        x = x != 0
    if dim is None:
        axes = None
    elif isinstance(dim, tuple):
        axes = tuple(_axis(_int(d), x.ndim) for d in dim)
    else:
        axes = _axis(_int(dim), x.ndim)
    if kind == "sum":
        r = x.sum(axis=axes, keepdims=bool(keepdim)) if x.size else (np.zeros([s for i, s in enumerate(x.shape) if axes is not None and i != axes], dtype=object) if axes is not None else 0)
    elif kind == "mean":
        n = x.size if axes is None else int(np.prod([x.shape[a] for a in (axes if isinstance(axes, tuple) else (axes,))]))
        if n == 0:
            raise NotEvaluable("mean of nothing")
        s = x.sum(axis=axes, keepdims=bool(keepdim))
        r = (np.vectorize(Fraction, otypes=[object])(s) if _is_arr(s) else Fraction(s)) / n
    elif kind == "any":
        r = x.any(axis=axes, keepdims=bool(keepdim))
    else:
        r = x.all(axis=axes, keepdims=bool(keepdim))
    if _is_arr(r) and r.ndim == 0:
        r = r.item()
    return r


def _call(c: ast.Call, ev, t: str):
    out = _call_impl(c, ev, t)
    f = c.func
    if isinstance(f, ast.Attribute) and f.attr.endswith("_") and not f.attr.endswith("__") and _is_arr(out):
        # an in-place operation cannot grow its receiver: `e.masked_fill_(mask, v)` with a mask larger than e raises where the
        # out-of-place form broadcasts
        recv = ev(f.value)
        if _is_arr(recv) and recv.shape != out.shape:
            raise ValueError(f"output with shape {list(recv.shape)} doesn't match the broadcast shape {list(out.shape)}")
    return out


def _call_impl(c: ast.Call, ev, t: str):
    name = call_name(c)
    f = c.func
    # torch.<fn>(x, ...) forms
    if name in ("torch.sum", "torch.mean", "torch.any", "torch.all") and c.args:
        x = ev(c.args[0])
        rest = ast.Call(func=f, args=c.args[1:], keywords=c.keywords)
        dim, keepdim = _kw(rest, ev, ["dim", "keepdim"], [None, False])
        return _reduce(x, name.split(".")[1], dim, keepdim)
    if name == "torch.where" and len(c.args) == 3:
        cond, a, b = (ev(x) for x in c.args)
        return np.where(cond, _as_exact(a), _as_exact(b))
    if name in ("torch.zeros_like", "torch.ones_like") and c.args:
        x = ev(c.args[0])
        dt = next((ev(k.value) for k in c.keywords if k.arg == "dtype"), None)
        if (dt is None and _is_arr(x) and x.dtype == bool) or dt == "<torch.bool>":
            return np.zeros(x.shape, dtype=bool) if name.endswith("zeros_like") else np.ones(x.shape, dtype=bool)
        return frac_array(np.zeros(x.shape, dtype=int) if name.endswith("zeros_like") else np.ones(x.shape, dtype=int))
    if name == "torch.full_like" and len(c.args) >= 2:
        x, v = ev(c.args[0]), ev(c.args[1])
        out = np.empty(x.shape, dtype=object)
        out[...] = v
        return out
    if name == "torch.pow" and len(c.args) == 2 and not c.keywords:
        a, b = _as_exact(ev(c.args[0])), _as_exact(ev(c.args[1]))
        try:
            return np.vectorize(lambda x, y: x ** y, otypes=[object])(a, b) if (_is_arr(a) or _is_arr(b)) else a ** b
        except ZeroDivisionError:
            raise NotEvaluable("0 ** negative")
    if name in ("torch.matmul", "torch.mm") and len(c.args) == 2 and not c.keywords:
        a, b = _as_exact(ev(c.args[0])), _as_exact(ev(c.args[1]))
        if not (_is_arr(a) and _is_arr(b)):
            raise NotEvaluable("matmul of scalars")
        try:
            return a.dot(b) if a.ndim <= 2 and b.ndim <= 2 else np.matmul(a, b)
        except (ValueError, TypeError):
            raise NotEvaluable("matmul shapes")
    if name in ("torch.full", "torch.empty", "torch.zeros", "torch.ones") and c.args:
        shape = ev(c.args[0])
        rest = c.args[1:]
        if not isinstance(shape, tuple):
            # torch.zeros(2, 3) form
            shape = tuple(ev(a) for a in c.args) if name != "torch.full" else None
            rest = []
        if shape is None:
            raise NotEvaluable("torch.full shape")
        shape = tuple(_int(s_) for s_ in shape)
        if name == "torch.full":
            fill = ev(rest[0]) if rest else next((ev(k.value) for k in c.keywords if k.arg == "fill_value"), None)
            if fill is None or _is_arr(fill):
                raise NotEvaluable("torch.full fill")
        else:
            fill = 1 if name == "torch.ones" else 0
        dt = next((ev(k.value) for k in c.keywords if k.arg == "dtype"), None)
        out = np.empty(shape, dtype=object)
        out[...] = fill if isinstance(fill, float) and (fill != fill or abs(fill) == math.inf) else (Fraction(fill) if not isinstance(fill, bool) else Fraction(int(fill)))
        if dt == "<torch.bool>":
            return out != 0
        return out
    if name == "torch.nonzero" and len(c.args) == 1:
        x_ = ev(c.args[0])
        if any(k.arg == "as_tuple" and not (isinstance(k.value, ast.Constant) and k.value.value is False) for k in c.keywords):
            raise NotEvaluable("nonzero(as_tuple=True)")
        b_ = x_ if x_.dtype == bool else (_as_exact(x_) != 0)
        return frac_array(np.argwhere(b_).tolist()) if b_.any() else np.empty((0, x_.ndim), dtype=object)
    if name == "torch.cumsum" and len(c.args) >= 1:
        x_ = ev(c.args[0])
        rest = ast.Call(func=f, args=c.args[1:], keywords=c.keywords)
        (dim,) = _kw(rest, ev, ["dim"], [None])
        return np.cumsum(_as_exact(x_), axis=_axis(_int(dim), x_.ndim))
    if name in ("torch.cat", "torch.stack") and c.args:
        parts = ev(c.args[0])
        rest = ast.Call(func=f, args=c.args[1:], keywords=c.keywords)
        (dim,) = _kw(rest, ev, ["dim"], [0])
        if isinstance(parts, list):
            parts = tuple(parts)
        if not isinstance(parts, tuple) or not all(_is_arr(p_) for p_ in parts):
            raise NotEvaluable("cat of non-tensors")
        parts = [(_as_exact(p_) if any(q_.dtype != bool for q_ in parts) else p_) for p_ in parts]
        try:
            return np.concatenate(parts, axis=_int(dim)) if name.endswith("cat") else np.stack(parts, axis=_int(dim))
        except ValueError:
            raise NotEvaluable("cat shapes")
    if name in ("torch.min", "torch.max", "torch.minimum", "torch.maximum") and len(c.args) == 2 and not c.keywords:
        a, b = _as_exact(ev(c.args[0])), _as_exact(ev(c.args[1]))
        if _is_arr(a) and (_is_arr(b)):
            return np.where(a < b, a, b) if "min" in name else np.where(a > b, a, b)
        if not _is_arr(a) and not _is_arr(b) and all(isinstance(v_, (int, Fraction)) and not isinstance(v_, bool) for v_ in (a, b)):
            return (min if "min" in name else max)(a, b)  # two 0-dimensional tensors
        if _is_arr(a) and isinstance(b, int) and not isinstance(b, bool) and name in ("torch.min", "torch.max"):
            # `torch.min(x, dim)` is `x.min(dim)`: (values, indices)
            return _call_impl(ast.Call(func=ast.Attribute(value=c.args[0], attr=name[6:], ctx=ast.Load()), args=[c.args[1]], keywords=[]), ev, t)
        raise NotEvaluable("min / max with a dimension")
    if name in ("torch.clamp_min", "torch.clamp_max") and len(c.args) == 2:
        a, v = _as_exact(ev(c.args[0])), ev(c.args[1])
        return np.where(a < v, v, a) if name.endswith("min") else np.where(a > v, v, a)
    if name == "torch.isclose" and len(c.args) == 2:
        a, b = _as_exact(ev(c.args[0])), _as_exact(ev(c.args[1]))
        rtol, atol = [next((ev(k.value) for k in c.keywords if k.arg == n_), d_) for n_, d_ in (("rtol", Fraction(1, 10 ** 5)), ("atol", Fraction(1, 10 ** 8)))]

        def _close(x_, y_):
            if isinstance(x_, float) or isinstance(y_, float):
                return x_ == y_ or (x_ == x_ and y_ == y_ and abs(x_) != math.inf and abs(y_) != math.inf and abs(x_ - y_) <= atol + rtol * abs(y_))
            return abs(x_ - y_) <= Fraction(atol) + Fraction(rtol) * abs(y_)
        if _is_arr(a) or _is_arr(b):
            return np.vectorize(_close, otypes=[bool])(a, b)
        return _close(a, b)
    if name in ("math.log", "math.exp", "math.sqrt") and len(c.args) == 1 and not c.keywords:
        v = ev(c.args[0])
        if _is_arr(v) or isinstance(v, bool) or not isinstance(v, (int, float, Fraction)):
            raise NotEvaluable(name)
        if name == "math.log":
            if v <= 0:
                raise ValueError("math domain error")
            return Fraction(0) if v == 1 else math.log(v)
        if name == "math.exp":
            return Fraction(1) if v == 0 else math.exp(v)
        return exact_sqrt(v)
    if name in ("torch.tensor", "torch.as_tensor") and len(c.args) == 1:
        v = ev(c.args[0])
        if _is_arr(v):
            return v
        if isinstance(v, (tuple, list)):
            return frac_array([list(r_) if isinstance(r_, tuple) else r_ for r_ in v])
        if isinstance(v, bool):
            return np.array(v)
        if isinstance(v, (int, Fraction)):
            a_ = np.empty((), dtype=object)
            a_[()] = Fraction(v)
            return a_
        raise NotEvaluable("torch.tensor of a non-number")
    if name.endswith("one_hot") and name.split(".")[0] in ("torch", "F") and len(c.args) == 2:
        a, n_ = ev(c.args[0]), _int(ev(c.args[1]))
        if not _is_arr(a):
            raise NotEvaluable("one_hot of a non-tensor")
        out = np.zeros(a.shape + (n_,), dtype=object)
        out[...] = Fraction(0)
        for ix in np.ndindex(a.shape):
            v_ = int(a[ix])
            if not 0 <= v_ < n_:
                raise IndexError("one_hot class out of range")
            out[ix + (v_,)] = Fraction(1)
        return out
    if name == "torch.relu" and len(c.args) == 1:
        a = _as_exact(ev(c.args[0]))
        return np.where(a < 0, Fraction(0), a)
    if name == "torch.arange" and 1 <= len(c.args) <= 3:
        return frac_array(list(range(*[_int(ev(a)) for a in c.args])))
    if name in ("max", "min") and c.args and not c.keywords:
        vals = [ev(a) for a in c.args]
        if any(_is_arr(v) for v in vals):
            raise NotEvaluable("builtin max / min of tensors")
        return (max if name == "max" else min)(*vals)
    if name == "float" and len(c.args) == 1 and isinstance(c.args[0], ast.Constant) and isinstance(c.args[0].value, str) \
            and c.args[0].value.strip().lower() in ("inf", "+inf", "-inf", "infinity", "-infinity"):
        pass  # (math is imported at module level)
        return -math.inf if c.args[0].value.strip().startswith("-") else math.inf
    if name in ("int", "float", "bool") and len(c.args) == 1:
        v = ev(c.args[0])
        if _is_arr(v):
            if v.size != 1:
                raise NotEvaluable("scalar conversion of a tensor")
            v = v.reshape(-1)[0]  # (a one-element tensor converts to its element)
            if isinstance(v, np.bool_):
                v = bool(v)
        if name == "bool":
            return bool(v)
        if name == "int":
            if isinstance(v, (bool, int)):
                return int(v)
            if isinstance(v, Fraction):
                return int(v)  # (truncation towards zero, as int() does)
            raise NotEvaluable("int() of a non-number")
        return Fraction(v) if isinstance(v, (bool, int)) else v
    if name == "len" and len(c.args) == 1:
        v = ev(c.args[0])
        if _is_arr(v) or isinstance(v, tuple):
            return len(v)
    if name.startswith("torch.") and name.count(".") == 1 and c.args and name[6:] in _FUNCTION_FORMS:
        # `torch.sort(x, 1)` is `x.sort(1)`
        return _call_impl(ast.Call(func=ast.Attribute(value=c.args[0], attr=name[6:], ctx=ast.Load()), args=list(c.args[1:]), keywords=list(c.keywords)), ev, t)
    if not isinstance(f, ast.Attribute):
        raise NotEvaluable(t[:50])
    x = ev(f.value)
    m = f.attr
    if m in ("square", "square_") and not c.args and (_is_arr(x) or isinstance(x, (int, Fraction))) and not isinstance(x, bool):
        xe = _as_exact(x)
        return xe * xe
    if m in ("sqrt", "sqrt_") and not c.args and (_is_arr(x) or isinstance(x, (int, Fraction))) and not isinstance(x, bool):
        if _is_arr(x):
            return np.vectorize(exact_sqrt, otypes=[object])(_as_exact(x)) if x.size else _as_exact(x)
        return exact_sqrt(x)
    if not _is_arr(x):
        if m == "item" and not c.args:
            return x
        if isinstance(x, (int, Fraction)) and not isinstance(x, bool) and not c.args and not c.keywords:
            # a 0-dimensional tensor that arithmetic turned into its element
            if m == "numel":
                return 1
            if m == "dim":
                return 0
            if m in ("min", "max", "sum"):
                return x
        raise NotEvaluable(t[:50])
    if m in ("to", "type") and c.args:
        tgt = [ev(a_) for a_ in c.args] + [ev(k_.value) for k_ in c.keywords if k_.arg == "dtype"]
        if "<torch.bool>" in [v_ for v_ in tgt if isinstance(v_, str)]:
            return x if x.dtype == bool else (_as_exact(x) != 0)
        if any(isinstance(v_, str) and v_.startswith("<torch.") for v_ in tgt) and x.dtype == bool:
            return _as_exact(x)
        if any(_is_arr(v_) and v_.dtype != bool for v_ in tgt) and x.dtype == bool:
            return _as_exact(x)  # (`mask.to(lens)`: the dtype of another tensor)
        return x
    if m == "clone":
        return np.array(x, copy=True)  # (a tensor of its own: in-place updates of one do not reach the other)
    if m in IDENTITY_METHODS:
        return x
    if m == "bool":
        return x if x.dtype == bool else (x != 0)
    if m in ("sum", "mean", "any", "all"):
        dim, keepdim = _kw(c, ev, ["dim", "keepdim"], [None, False])
        return _reduce(x, m, dim, keepdim)
    if m in ("max", "min") and len(c.args) + len(c.keywords) >= 1 and not (len(c.args) == 1 and _is_arr(ev(c.args[0]))):
        dim, keepdim = _kw(c, ev, ["dim", "keepdim"], [None, False])
        if dim is not None and not _is_arr(dim):
            a_ = _axis(_int(dim), x.ndim)
            xe = _as_exact(x)
            if xe.shape[a_] == 0:
                raise NotEvaluable("max over an empty dimension")
            mv = np.moveaxis(xe, a_, -1)
            vals = np.empty(mv.shape[:-1], dtype=object)
            idxs = np.empty(mv.shape[:-1], dtype=object)
            for ix in np.ndindex(mv.shape[:-1]):
                row = list(mv[ix])
                best = max(row) if m == "max" else min(row)
                vals[ix], idxs[ix] = best, (Fraction(row.index(best)) if row.count(best) == 1 else TIED)
            if keepdim:
                vals, idxs = np.expand_dims(vals, a_), np.expand_dims(idxs, a_)
            return (vals, idxs)
    if m == "prod":
        dim, keepdim = _kw(c, ev, ["dim", "keepdim"], [None, False])
        xe = _as_exact(x)
        if dim is None:
            out = Fraction(1)
            for z in xe.reshape(-1).tolist():
                out *= z
            return out
        a_ = _axis(_int(dim), x.ndim)
        mv = np.moveaxis(xe, a_, -1)
        out = np.empty(mv.shape[:-1], dtype=object)
        for ix in np.ndindex(mv.shape[:-1]):
            pr = Fraction(1)
            for z in mv[ix]:
                pr *= z
            out[ix] = pr
        return np.expand_dims(out, a_) if keepdim else out
    if m == "masked_select" and len(c.args) == 1:
        mask = ev(c.args[0])
        if not (_is_arr(mask) and mask.dtype == bool):
            raise NotEvaluable("mask")
        return np.broadcast_to(x, np.broadcast(x, mask).shape)[np.broadcast_to(mask, np.broadcast(x, mask).shape)]
    if m in ("masked_scatter", "masked_scatter_") and len(c.args) == 2:
        mask, src = ev(c.args[0]), ev(c.args[1])
        if not (_is_arr(mask) and mask.dtype == bool and _is_arr(src)):
            raise NotEvaluable("masked_scatter arguments")
        mb = np.broadcast_to(mask, x.shape)
        flat = src.reshape(-1)
        if int(mb.sum()) > flat.size:
            raise NotEvaluable("masked_scatter source too short")
        out = np.array(_as_exact(x), dtype=object, copy=True)
        out[mb] = flat[: int(mb.sum())]
        return out
    if m == "unique_consecutive" and x.ndim == 1 and not c.args:
        (rc,) = _kw(c, ev, ["return_counts"], [False])
        vals_, cnts_ = [], []
        for v_ in _as_exact(x).tolist():
            if vals_ and vals_[-1] == v_:
                cnts_[-1] += 1
            else:
                vals_.append(v_)
                cnts_.append(1)
        return (frac_array(vals_), frac_array(cnts_)) if rc else frac_array(vals_)
    if m == "storage_offset" and not c.args:
        root = _storage(x)
        return (x.__array_interface__["data"][0] - root.__array_interface__["data"][0]) // max(root.itemsize, 1)
    if m == "contiguous" and not c.args:
        return x if x.flags["C_CONTIGUOUS"] else np.ascontiguousarray(x)  # (a tensor of its own only when the layout is not contiguous already)
    if m == "as_strided" and len(c.args) in (2, 3) and not c.keywords:
        # element (i, j, ..) of the view is storage[offset + i * s0 + j * s1 + ..] of the receiver's STORAGE (what a transposed or sliced
        # receiver shares with its base), as in the tensor library
        size, stride = ev(c.args[0]), ev(c.args[1])
        off = _int(ev(c.args[2])) if len(c.args) == 3 else 0
        root = _storage(x)
        if not isinstance(size, tuple) or not isinstance(stride, tuple) or len(size) != len(stride) or root.dtype != object:
            raise NotEvaluable("as_strided arguments")
        size, stride = tuple(_int(v_) for v_ in size), tuple(_int(v_) for v_ in stride)
        if any(v_ < 0 for v_ in size + stride) or off < 0:
            raise NotEvaluable("as_strided arguments")
        last = off + sum((n_ - 1) * s_ for n_, s_ in zip(size, stride)) if all(n_ > 0 for n_ in size) else off
        if all(n_ > 0 for n_ in size) and last >= root.size:
            raise IndexError("strided view reads outside the storage")
        if not all(n_ > 0 for n_ in size):
            return np.empty(size, dtype=object)
        return np.array(np.ndarray(shape=size, dtype=object, buffer=root, offset=off * root.itemsize, strides=tuple(s_ * root.itemsize for s_ in stride)), copy=True)
    if m in ("scatter", "scatter_") and len(c.args) == 3 and not c.keywords:
        d = _axis(_int(ev(c.args[0])), x.ndim)
        idx, src = ev(c.args[1]), ev(c.args[2])
        if not _is_arr(idx) or idx.ndim != x.ndim:
            raise NotEvaluable("scatter index")
        ii = np.vectorize(lambda z: int(z), otypes=[int])(idx) if idx.size else idx.astype(int)
        if ii.size and (ii.min() < 0 or ii.max() >= x.shape[d]) or any(a_ > b_ for k_, (a_, b_) in enumerate(zip(ii.shape, x.shape)) if k_ != d):
            raise IndexError("scatter index out of range")
        out = np.array(_as_exact(x), dtype=object, copy=True)
        if _is_arr(src):
            if any(a_ > b_ for a_, b_ in zip(ii.shape, src.shape)):
                raise NotEvaluable("scatter source")
            srcv = _as_exact(src)[tuple(slice(0, n_) for n_ in ii.shape)]
        else:
            srcv = np.empty(ii.shape, dtype=object)
            srcv[...] = src if isinstance(src, float) else Fraction(src)
        # (several writes to one cell: the tensor library keeps an unspecified one - only allowed here when they agree)
        seen = {}
        for ix in np.ndindex(ii.shape):
            tgt = list(ix)
            tgt[d] = int(ii[ix])
            tgt = tuple(tgt)
            if tgt in seen and seen[tgt] != srcv[ix]:
                raise NotEvaluable("scatter writes different values to one cell")
            seen[tgt] = srcv[ix]
            out[tgt] = srcv[ix]
        return out
    if m == "topk" and 1 <= len(c.args) <= 2:
        k_ = _int(ev(c.args[0]))
        d = _axis(_int(ev(c.args[1])) if len(c.args) == 2 else -1, x.ndim)
        mv = np.moveaxis(_as_exact(x), d, -1)
        if k_ > mv.shape[-1]:
            raise IndexError("k larger than the extent")
        vals, idxs = np.empty(mv.shape[:-1] + (k_,), dtype=object), np.empty(mv.shape[:-1] + (k_,), dtype=object)
        for ix in np.ndindex(mv.shape[:-1]):
            row = list(mv[ix])
            order = sorted(range(len(row)), key=lambda j_: row[j_], reverse=True)  # (stable: the lower index first among equals)
            for r_, j_ in enumerate(order[:k_]):
                vals[ix + (r_,)] = row[j_]
                # ties among finite values: the tensor library does not say which index it reports; ties among -inf (candidates without
                # mass) are taken in index order - such slots carry no prefix
                tied = row.count(row[j_]) > 1 and not (row[j_] <= TIE_BREAK_BY_INDEX_AT_OR_BELOW)
                if tied and any(row[o_] == row[j_] for o_ in order[k_:]):
                    idxs[ix + (r_,)] = TIED
                else:
                    idxs[ix + (r_,)] = Fraction(j_)
        return (np.moveaxis(vals, -1, d), np.moveaxis(idxs, -1, d))
    if m == "repeat_interleave" and len(c.args) == 1 and not c.keywords and x.ndim == 1:
        r = ev(c.args[0])
        reps = [_int(r)] * x.shape[0] if not _is_arr(r) else [int(v_) for v_ in np.asarray(r).reshape(-1).tolist()]
        if len(reps) != x.shape[0] or any(v_ < 0 for v_ in reps):
            raise ValueError("repeat_interleave repeats")
        out = [v_ for v_, k_ in zip(_as_exact(x).tolist(), reps) for _ in range(k_)]
        return frac_array(out) if out else np.empty((0,), dtype=object)
    if m in ("std", "var") and c.args:
        # (population / sample deviation along one axis; roots stay exact - see exact_sqrt)
        dim = _axis(_int(ev(c.args[0])), x.ndim)
        unb = ev(c.args[1]) if len(c.args) > 1 else next((ev(k_.value) for k_ in c.keywords if k_.arg == "unbiased"), True)
        mv = np.moveaxis(_as_exact(x), dim, -1)
        out = np.empty(mv.shape[:-1], dtype=object)
        for ix in np.ndindex(mv.shape[:-1]):
            row = list(mv[ix])
            n_ = len(row)
            if n_ - (1 if unb else 0) <= 0:
                out[ix] = float("nan")
                continue
            mu = sum(row, Fraction(0)) / n_
            v_ = sum(((r_ - mu) ** 2 for r_ in row), Fraction(0)) / (n_ - (1 if unb else 0))
            out[ix] = exact_sqrt(v_) if m == "std" else v_
        return out
    if m == "permute" and c.args:
        dims = [ev(a_) for a_ in c.args]
        if len(dims) == 1 and isinstance(dims[0], tuple):
            dims = list(dims[0])
        dims = [_axis(_int(d_), x.ndim) for d_ in dims]
        if sorted(dims) != list(range(x.ndim)):
            raise ValueError("permute dimensions")
        return np.transpose(x, dims)
    if m == "sort":
        dim, desc = _kw(c, ev, ["dim", "descending"], [-1, False])
        a_ = _axis(_int(dim), x.ndim)
        mv = np.moveaxis(_as_exact(x), a_, -1)
        vals, idxs = np.empty(mv.shape, dtype=object), np.empty(mv.shape, dtype=object)
        for ix in np.ndindex(mv.shape[:-1]):
            order = sorted(range(mv.shape[-1]), key=lambda j_: mv[ix][j_], reverse=bool(desc))  # (stable; equal entries keep their order)
            for k_, j_ in enumerate(order):
                vals[ix + (k_,)], idxs[ix + (k_,)] = mv[ix][j_], Fraction(j_)
        return (np.moveaxis(vals, -1, a_), np.moveaxis(idxs, -1, a_))
    if m == "expand_as" and len(c.args) == 1:
        o = ev(c.args[0])
        if not _is_arr(o):
            raise NotEvaluable("expand_as")
        return np.broadcast_to(x, o.shape)
    if m == "cumsum":
        (dim,) = _kw(c, ev, ["dim"], [None])
        a_ = _axis(_int(dim), x.ndim)
        return np.cumsum(_as_exact(x), axis=a_)
    if m == "nonzero" and not c.args and not c.keywords:
        b_ = x if x.dtype == bool else (_as_exact(x) != 0)
        return frac_array(np.argwhere(b_).tolist()) if b_.any() else np.empty((0, x.ndim), dtype=object)
    if m == "index_select" and len(c.args) == 2 and not c.keywords and _is_arr(x):
        d = _axis(_int(ev(c.args[0])), x.ndim)
        idx = ev(c.args[1])
        if not _is_arr(idx) or idx.ndim != 1:
            raise NotEvaluable("index_select index")
        ii = [int(z) for z in idx.tolist()]
        if any(z < 0 or z >= x.shape[d] for z in ii):
            raise NotEvaluable("index_select index out of range")
        return np.take(x, ii, axis=d)
    if m == "gather" and len(c.args) == 2 and not c.keywords:
        d = _axis(_int(ev(c.args[0])), x.ndim)
        idx = ev(c.args[1])
        if not _is_arr(idx) or idx.ndim != x.ndim:
            raise NotEvaluable("gather index")
        ii = np.vectorize(lambda z: int(z), otypes=[int])(idx) if idx.size else idx.astype(int)
        if ii.size and (ii.min() < 0 or ii.max() >= x.shape[d]):
            raise NotEvaluable("gather index out of range")
        # (the library's rule: the result has the index's shape, every other axis is read position by position - nothing is broadcast,
        # and an index longer than the input along another axis is an error)
        if any(ii.shape[k_] > x.shape[k_] for k_ in range(x.ndim) if k_ != d):
            raise ValueError(f"gather: the index {list(ii.shape)} does not fit the input {list(x.shape)} apart from dimension {d}")
        out = np.empty(ii.shape, dtype=x.dtype)
        for pos in np.ndindex(ii.shape):
            p_ = list(pos)
            p_[d] = int(ii[pos])
            out[pos] = x[tuple(p_)]
        return out
    if m in ("isneginf", "isposinf", "isinf", "isfinite", "isnan") and not c.args and not c.keywords:
        import math as _m
        def _cls(z, _k=m):
            if isinstance(z, (bool, np.bool_)):
                z = int(z)
            if isinstance(z, float):
                inf_, nan_ = _m.isinf(z), _m.isnan(z)
            else:
                inf_ = nan_ = False  # (an exact value)
            return {"isneginf": inf_ and z < 0, "isposinf": inf_ and z > 0, "isinf": inf_, "isfinite": not inf_ and not nan_, "isnan": nan_}[_k]
        if _is_arr(x):
            return np.vectorize(_cls, otypes=[bool])(x) if x.size else np.zeros(x.shape, dtype=bool)
        return bool(_cls(x))
    if m in ("neg", "neg_"):
        return -_as_exact(x)
    if m in ("abs", "abs_"):
        return np.vectorize(abs, otypes=[object])(_as_exact(x))
    if m in ("min", "max", "minimum", "maximum") and len(c.args) == 1 and not c.keywords:
        o = _as_exact(ev(c.args[0]))
        if _is_arr(o):
            xa = _as_exact(x)
            return np.where(xa < o, xa, o) if "min" in m else np.where(xa > o, xa, o)
        raise NotEvaluable("min / max along a dimension")
    if m in ("new_zeros", "new_ones", "new_empty", "new_full") and c.args:
        shape = ev(c.args[0])
        if not isinstance(shape, tuple):
            shape = tuple(ev(a) for a in (c.args if m != "new_full" else c.args[:1]))
        out = np.empty(tuple(_int(s_) for s_ in shape), dtype=object)
        fv_ = ev(c.args[1]) if m == "new_full" else None
        out[...] = Fraction(1) if m == "new_ones" else ((fv_ if isinstance(fv_, float) else Fraction(fv_)) if m == "new_full" else Fraction(0))
        return out
    if m in ("clamp_min", "clamp_max", "clamp_min_", "clamp_max_"):
        (v,) = _kw(c, ev, ["min" if "min" in m else "max"], [None])
        x = _as_exact(x)
        return np.where(x < v, v, x) if "min" in m else np.where(x > v, v, x)
    if m in ("clamp", "clamp_"):
        lo, hi = _kw(c, ev, ["min", "max"], [None, None])
        x = _as_exact(x)
        if lo is not None:
            x = np.where(x < lo, lo, x)
        if hi is not None:
            x = np.where(x > hi, hi, x)
        return x
    if m in ("masked_fill", "masked_fill_"):
        mask, v = _kw(c, ev, ["mask", "value"], [None, None])
        if not (_is_arr(mask) and mask.dtype == bool):
            raise NotEvaluable("mask")
        return np.where(mask, v, _as_exact(x))
    if m == "unsqueeze":
        (d,) = _kw(c, ev, ["dim"], [None])
        d = _int(d)
        return np.expand_dims(x, d if d >= 0 else x.ndim + 1 + d)
    if m == "squeeze":
        (d,) = _kw(c, ev, ["dim"], [None])
        if d is None:
            return np.squeeze(x)
        a = _axis(_int(d), x.ndim)
        return np.squeeze(x, a) if x.shape[a] == 1 else x
    if m == "flatten":
        s, en = _kw(c, ev, ["start_dim", "end_dim"], [0, -1])
        s, en = _axis(_int(s), x.ndim), _axis(_int(en), x.ndim)
        mid = 1
        for d_ in x.shape[s:en + 1]:
            mid *= d_
        return x.reshape(x.shape[:s] + (mid,) + x.shape[en + 1:])  # (the extent written out: an empty tensor flattens like any other)
    if m in ("view", "reshape"):
        shape = [ev(a) for a in c.args]
        if len(shape) == 1 and isinstance(shape[0], (tuple, list)):
            shape = list(shape[0])
        return x.reshape([_int(s) for s in shape])
    if m == "view_as" and len(c.args) == 1:
        return x.reshape(ev(c.args[0]).shape)
    if m in ("expand_as",) and len(c.args) == 1:
        return np.broadcast_to(x, ev(c.args[0]).shape)
    if m == "expand":
        shape = [ev(a) for a in c.args]
        if len(shape) == 1 and isinstance(shape[0], tuple):
            shape = list(shape[0])
        shape = [_int(s) for s in shape]
        full = [x.shape[i - (len(shape) - x.ndim)] if s == -1 else s for i, s in enumerate(shape)]
        return np.broadcast_to(x, full)
    if m in ("tril", "triu", "tril_", "triu_") and x.ndim >= 2:
        (k,) = _kw(c, ev, ["diagonal"], [0])
        i, j = np.indices(x.shape[-2:])
        keep = (j - i <= _int(k)) if m.startswith("tril") else (j - i >= _int(k))
        zero = False if x.dtype == bool else Fraction(0)
        return np.where(keep, x, zero)
    if m in ("matmul", "mm") and len(c.args) == 1:
        b = _as_exact(ev(c.args[0]))
        try:
            return _as_exact(x).dot(b)
        except (ValueError, TypeError):
            raise NotEvaluable("matmul shapes")
    if m == "pow" and len(c.args) == 1:
        b = _as_exact(ev(c.args[0]))
        try:
            return np.vectorize(lambda p_, q_: p_ ** q_, otypes=[object])(_as_exact(x), b)
        except ZeroDivisionError:
            raise NotEvaluable("0 ** negative")
    if m == "repeat" and c.args and not c.keywords:
        reps = [ev(a) for a in c.args]
        if len(reps) == 1 and isinstance(reps[0], tuple):
            reps = list(reps[0])
        reps = [_int(r) for r in reps]
        if len(reps) < x.ndim:
            raise NotEvaluable("repeat")
        return np.tile(x, reps)
    if m == "transpose" and len(c.args) == 2:
        a, b = (_axis(_int(ev(z)), x.ndim) for z in c.args)
        return np.swapaxes(x, a, b)
    if m == "t" and not c.args and x.ndim == 2:
        return x.T
    if m == "size":
        if not c.args:
            return tuple(int(s) for s in x.shape)
        return int(x.shape[_axis(_int(ev(c.args[0])), x.ndim)])
    if m == "numel" and not c.args:
        return int(x.size)
    if m == "dim" and not c.args:
        return int(x.ndim)
    if m in ("max", "min") and not c.args and not c.keywords:
        if not x.size:
            raise NotEvaluable("max of nothing")
        return (max if m == "max" else min)(_as_exact(x).flatten().tolist())
    if m == "item" and not c.args and x.size == 1:
        return x.flatten()[0]
    raise NotEvaluable(t[:50])
