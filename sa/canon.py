"""Canonical operand order. Applied to every module when the package is loaded, so that no rule can depend on which way
round a commutative / symmetric expression was written:  a & b, a | b  (operand chains sorted),  a == b, a != b, a < b,
a <= b, a > b, a >= b  (constant-like operand on the right; otherwise operands sorted by text, operator flipped as needed),
c * x  (numeric constant first). `+` is left alone (it also concatenates). Line numbers of the operands are kept."""
from __future__ import annotations

import ast

FLIP = {ast.Lt: ast.Gt, ast.Gt: ast.Lt, ast.LtE: ast.GtE, ast.GtE: ast.LtE, ast.Eq: ast.Eq, ast.NotEq: ast.NotEq}


def _constlike(e) -> bool:
    if isinstance(e, ast.Constant):
        return True
    if isinstance(e, ast.UnaryOp) and isinstance(e.op, ast.USub):
        return _constlike(e.operand)
    if isinstance(e, ast.Call) and isinstance(e.func, ast.Name) and e.func.id == "float" and len(e.args) == 1 \
            and isinstance(e.args[0], ast.Constant):
        return True  # float("inf")
    return False


def _key(e) -> str:
    return ast.unparse(e)


class Canon(ast.NodeTransformer):
    def visit_BinOp(self, node):
        self.generic_visit(node)
        if isinstance(node.op, (ast.BitAnd, ast.BitOr)):
            ops = []

            def flat(n):
                if isinstance(n, ast.BinOp) and type(n.op) is type(node.op):
                    flat(n.left)
                    flat(n.right)
                else:
                    ops.append(n)
            flat(node)
            ops.sort(key=_key)
            cur = ops[0]
            for o in ops[1:]:
                cur = ast.copy_location(ast.BinOp(left=cur, op=type(node.op)(), right=o), node)
            return cur
        if isinstance(node.op, ast.Mult):
            def numc(x):
                return isinstance(x, ast.Constant) and isinstance(x.value, (int, float)) and not isinstance(x.value, bool)
            if numc(node.right) and not numc(node.left):
                node.left, node.right = node.right, node.left
        return node

    def visit_Compare(self, node):
        self.generic_visit(node)
        if len(node.ops) == 1 and type(node.ops[0]) in FLIP:
            l, r = node.left, node.comparators[0]
            swap = False
            if _constlike(l) and not _constlike(r):
                swap = True
            elif not _constlike(l) and not _constlike(r) and _key(l) > _key(r):
                swap = True
            if swap:
                node.left, node.comparators[0] = r, l
                node.ops[0] = FLIP[type(node.ops[0])]()
        return node


def canonicalise(tree: ast.AST) -> ast.AST:
    tree = Canon().visit(tree)
    ast.fix_missing_locations(tree)
    return tree
