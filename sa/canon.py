"""Canonical operand order. Applied to every module when the package is loaded, so that no rule can depend on which way
round a commutative / symmetric expression was written:  a & b, a | b  (operand chains sorted),  a == b, a != b, a < b,
a <= b, a > b, a >= b  (constant-like operand on the right; otherwise operands sorted by text, operator flipped as needed),
c * x  (numeric constant first). `+` is left alone (it also concatenates). Line numbers of the operands are kept."""
from __future__ import annotations

import ast

FLIP = {ast.Lt: ast.Gt, ast.Gt: ast.Lt, ast.LtE: ast.GtE, ast.GtE: ast.LtE, ast.Eq: ast.Eq, ast.NotEq: ast.NotEq}


def _constlike(e) -> bool:
    if isinstance(e, ast.Constant):
        return True
    if isinstance(e, ast.UnaryOp) and isinstance(e.op, ast.USub):
        return _constlike(e.operand)
    if isinstance(e, ast.Call) and isinstance(e.func, ast.Name) and e.func.id == "float" and len(e.args) == 1 \
            and isinstance(e.args[0], ast.Constant):
        return True  # float("inf")
    return False


def _key(e) -> str:
    return ast.unparse(e)


class Canon(ast.NodeTransformer):
    # `if not c: A else: B` is `if c: B else: A` (also for conditional expressions): one orientation, the positive one
    def visit_If(self, node):
        self.generic_visit(node)
        import os
        if os.environ.get("VERIF_NO_IF_ORIENT") != "1" and node.orelse and isinstance(node.test, ast.UnaryOp) and isinstance(node.test.op, ast.Not):
            node.test, node.body, node.orelse = node.test.operand, node.orelse, node.body
        return node

    def visit_IfExp(self, node):
        self.generic_visit(node)
        import os
        if os.environ.get("VERIF_NO_IF_ORIENT") != "1" and isinstance(node.test, ast.UnaryOp) and isinstance(node.test.op, ast.Not):
            node.test, node.body, node.orelse = node.test.operand, node.orelse, node.body
        return node

    def visit_BinOp(self, node):
        self.generic_visit(node)
        if isinstance(node.op, (ast.BitAnd, ast.BitOr)):
            ops = []

            def flat(n):
                if isinstance(n, ast.BinOp) and type(n.op) is type(node.op):
                    flat(n.left)
                    flat(n.right)
                else:
                    ops.append(n)
            flat(node)
            ops.sort(key=_key)
            cur = ops[0]
            for o in ops[1:]:
                cur = ast.copy_location(ast.BinOp(left=cur, op=type(node.op)(), right=o), node)
            return cur
        if isinstance(node.op, ast.Mult):
            def numc(x):
                return isinstance(x, ast.Constant) and isinstance(x.value, (int, float)) and not isinstance(x.value, bool)
            if numc(node.right) and not numc(node.left):
                node.left, node.right = node.right, node.left
        return node

    def visit_Compare(self, node):
        self.generic_visit(node)
        if len(node.ops) == 1 and type(node.ops[0]) in FLIP:
            l, r = node.left, node.comparators[0]
            swap = False
            if _constlike(l) and not _constlike(r):
                swap = True
            elif not _constlike(l) and not _constlike(r) and _key(l) > _key(r):
                swap = True
            if swap:
                node.left, node.comparators[0] = r, l
                node.ops[0] = FLIP[type(node.ops[0])]()
        return node


# function forms the reference tree never uses (checked: 0 occurrences each) - rewritten to the method form at load
FUNC_TO_METHOD = {"sum", "mean", "any", "clamp_min", "clamp_max", "masked_fill", "unsqueeze", "squeeze", "flatten", "abs", "neg", "eq", "ne", "lt", "le", "gt", "ge"}
CMP_METHODS = {"lt": ast.Lt, "le": ast.LtE, "gt": ast.Gt, "ge": ast.GtE, "eq": ast.Eq, "ne": ast.NotEq}
DIM_FIRST_METHODS = {"sum", "mean", "max", "min", "any", "all", "cumsum", "cumprod", "prod", "softmax", "log_softmax", "argmax",
                     "argmin", "unsqueeze", "squeeze", "logsumexp", "std", "var", "flip"}
DIM_SECOND_FUNCS = {"cat", "stack", "softmax", "log_softmax", "sum", "mean", "cumsum", "logsumexp", "unsqueeze", "squeeze"}


def _is_none(e):
    return isinstance(e, ast.Constant) and e.value is None


def _full_slice(e):
    return isinstance(e, ast.Slice) and e.lower is None and e.upper is None and e.step is None


class Idioms(ast.NodeTransformer):
    """One spelling for interchangeable torch idioms (the rules then need to know only that spelling):
        a.lt(b) / le / gt / ge / eq / ne          ->  a < b ...            (one positional argument)
        x.size(k)                                 ->  x.shape[k]           (x.size() -> x.shape)
        x[:, None], x[None], x[..., None]         ->  x.unsqueeze(1) / (0) / (-1)
        x.clamp(min=c) / clamp(max=c) (+ in-place) ->  x.clamp_min(c) / clamp_max(c)
        float("-inf"), -math.inf, -torch.inf      ->  -float("inf")        (and the positive forms -> float("inf"))
        torch.cat((a, b), dim=k) / stack          ->  torch.cat([a, b], k)
        f(x, dim=k) / x.m(dim=k) for the usual reductions -> positional k
        torch.where(m, torch.full_like(t, v), t)  ->  t.masked_fill(m, v)
        torch.where(m, t, torch.zeros_like(t))    ->  t.masked_fill(~m, 0.0)   (and the mirrored forms)
        a @ b                                     ->  torch.matmul(a, b)"""

    def visit_Call_post(self, node: ast.Call):
        """Method-form idioms applied to a call that was just rewritten from its function form."""
        f = node.func
        m = f.attr
        if m == "neg" and not node.args and not node.keywords:
            return ast.copy_location(ast.UnaryOp(op=ast.USub(), operand=f.value), node)
        if m in DIM_FIRST_METHODS and not node.args and node.keywords and node.keywords[0].arg == "dim":
            node.args = [node.keywords[0].value]
            node.keywords = node.keywords[1:]
        return node

    def visit_Call(self, node: ast.Call):
        self.generic_visit(node)
        f = node.func
        if isinstance(f, ast.Attribute):
            m = f.attr
            if m in CMP_METHODS and len(node.args) == 1 and not node.keywords and not isinstance(node.args[0], ast.Starred):
                return ast.copy_location(ast.Compare(left=f.value, ops=[CMP_METHODS[m]()], comparators=[node.args[0]]), node)
            if m == "size" and not node.keywords and len(node.args) <= 1:
                sh = ast.copy_location(ast.Attribute(value=f.value, attr="shape", ctx=ast.Load()), node)
                if not node.args:
                    return sh
                return ast.copy_location(ast.Subscript(value=sh, slice=node.args[0], ctx=ast.Load()), node)
            if m in ("clamp", "clamp_") and not node.args and len(node.keywords) == 1 and node.keywords[0].arg in ("min", "max"):
                suf = "_" if m.endswith("_") else ""
                node.func = ast.copy_location(ast.Attribute(value=f.value, attr=f"clamp_{node.keywords[0].arg}{suf}", ctx=ast.Load()), f)
                node.args = [node.keywords[0].value]
                node.keywords = []
                return node
            base = ast.unparse(f.value)
            is_func = base in ("torch", "torch.nn.functional", "F")
            # torch.sum(x, ...) -> x.sum(...) for the operations the reference tree only ever writes as methods (so no rule reads
            # the function form): the receiver is the first positional argument
            if base == "torch" and m in FUNC_TO_METHOD and node.args and not isinstance(node.args[0], ast.Starred) \
                    and not any(k.arg in ("input", "out") for k in node.keywords):
                recv = node.args[0]
                if not isinstance(recv, (ast.Constant, ast.List, ast.Tuple)):
                    node = ast.copy_location(ast.Call(func=ast.copy_location(ast.Attribute(value=recv, attr=m, ctx=ast.Load()), f),
                                                      args=node.args[1:], keywords=node.keywords), node)
                    return self.visit_Call_post(node)
            if m in ("neg",) and not node.args and not node.keywords and not is_func:
                return ast.copy_location(ast.UnaryOp(op=ast.USub(), operand=f.value), node)  # x.neg() -> -x
            if not is_func and m in DIM_FIRST_METHODS and not node.args and node.keywords and node.keywords[0].arg == "dim":
                node.args = [node.keywords[0].value]
                node.keywords = node.keywords[1:]
            if is_func and m in DIM_SECOND_FUNCS and len(node.args) == 1 and node.keywords and node.keywords[0].arg == "dim":
                node.args = [node.args[0], node.keywords[0].value]
                node.keywords = node.keywords[1:]
            if is_func and m in ("cat", "stack") and node.args and isinstance(node.args[0], ast.Tuple):
                node.args[0] = ast.copy_location(ast.List(elts=node.args[0].elts, ctx=ast.Load()), node.args[0])
            if base == "torch" and m == "where" and len(node.args) == 3 and not node.keywords:
                c, a, b = node.args

                def like(e, kind):
                    return isinstance(e, ast.Call) and ast.unparse(e.func) == f"torch.{kind}" and e.args
                if like(a, "full_like") and len(a.args) == 2 and ast.unparse(a.args[0]) == ast.unparse(b):
                    return ast.copy_location(ast.Call(func=ast.Attribute(value=b, attr="masked_fill", ctx=ast.Load()),
                                                      args=[c, a.args[1]], keywords=[]), node)
                if like(a, "zeros_like") and ast.unparse(a.args[0]) == ast.unparse(b):
                    # torch.where(m, torch.zeros_like(t), t)  ->  t.masked_fill(m, 0.0)
                    return ast.copy_location(ast.Call(func=ast.Attribute(value=b, attr="masked_fill", ctx=ast.Load()),
                                                      args=[c, ast.Constant(value=0.0)], keywords=[]), node)
                if like(b, "full_like") and len(b.args) == 2 and ast.unparse(b.args[0]) == ast.unparse(a):
                    # torch.where(m, t, torch.full_like(t, v))  ->  t.masked_fill(~m, v)
                    return ast.copy_location(ast.Call(func=ast.Attribute(value=a, attr="masked_fill", ctx=ast.Load()),
                                                      args=[ast.UnaryOp(op=ast.Invert(), operand=c), b.args[1]], keywords=[]), node)
                if like(b, "zeros_like") and ast.unparse(b.args[0]) == ast.unparse(a):
                    return ast.copy_location(ast.Call(func=ast.Attribute(value=a, attr="masked_fill", ctx=ast.Load()),
                                                      args=[ast.UnaryOp(op=ast.Invert(), operand=c), ast.Constant(value=0.0)],
                                                      keywords=[]), node)
        # float("-inf") / float("inf")
        if isinstance(f, ast.Name) and f.id == "float" and len(node.args) == 1 and isinstance(node.args[0], ast.Constant) \
                and isinstance(node.args[0].value, str):
            sv = node.args[0].value.strip().lower()
            if sv in ("-inf", "-infinity"):
                return ast.copy_location(ast.UnaryOp(op=ast.USub(), operand=ast.Call(
                    func=ast.Name(id="float", ctx=ast.Load()), args=[ast.Constant(value="inf")], keywords=[])), node)
            if sv in ("inf", "+inf", "infinity"):
                node.args = [ast.Constant(value="inf")]
        return node

    def visit_BinOp(self, node: ast.BinOp):
        self.generic_visit(node)
        if isinstance(node.op, ast.MatMult):  # a @ b  ->  torch.matmul(a, b)
            return ast.copy_location(ast.Call(func=ast.Attribute(value=ast.Name(id="torch", ctx=ast.Load()), attr="matmul", ctx=ast.Load()),
                                              args=[node.left, node.right], keywords=[]), node)
        return node

    def visit_Attribute(self, node: ast.Attribute):
        self.generic_visit(node)
        if node.attr == "inf" and isinstance(node.value, ast.Name) and node.value.id in ("math", "torch", "np", "numpy") \
                and isinstance(node.ctx, ast.Load):
            return ast.copy_location(ast.Call(func=ast.Name(id="float", ctx=ast.Load()), args=[ast.Constant(value="inf")],
                                              keywords=[]), node)
        return node

    def visit_Subscript(self, node: ast.Subscript):
        self.generic_visit(node)
        if not isinstance(node.ctx, ast.Load):
            return node
        sl = node.slice
        items = list(sl.elts) if isinstance(sl, ast.Tuple) else [sl]
        nones = [i for i, it in enumerate(items) if _is_none(it)]
        if len(nones) != 1:
            return node
        others = [it for i, it in enumerate(items) if i != nones[0]]
        dim = None
        if all(_full_slice(it) for it in others):
            dim = nones[0]
        elif nones[0] == len(items) - 1 and len(others) == 1 and isinstance(others[0], ast.Constant) and others[0].value is Ellipsis:
            dim = -1
        if dim is None:
            return node
        dn = ast.Constant(value=dim) if dim >= 0 else ast.UnaryOp(op=ast.USub(), operand=ast.Constant(value=-dim))
        return ast.copy_location(ast.Call(func=ast.Attribute(value=node.value, attr="unsqueeze", ctx=ast.Load()), args=[dn],
                                          keywords=[]), node)


def canonicalise(tree: ast.AST) -> ast.AST:
    import os
    if os.environ.get("VERIF_NO_IDIOMS") != "1":
        tree = Idioms().visit(tree)
        ast.fix_missing_locations(tree)
    tree = Canon().visit(tree)
    ast.fix_missing_locations(tree)
    return tree
