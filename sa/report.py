"""Obligations, known findings, evidence writing and the exit protocol."""
from __future__ import annotations

import ast
import json
import os
import re
import time
from dataclasses import dataclass, field
from typing import Any, Dict, List, Optional

VERIF = os.path.dirname(os.path.dirname(os.path.abspath(__file__)))


@dataclass
class Ob:
    """One obligation of one structural clause at one construct."""

    rule: str  # rule family, e.g. "G1"
    clause: str  # clause id, e.g. "S1"
    construct: str  # stable key: "<file>::<qualname>::<normalised detail>"
    ok: bool
    msg: str = ""
    file: str = ""
    line: int = 0
    sample: Any = None
    nontrivial: bool = True
    note_only: bool = False  # belongs to no property's anchor set: NOTE, not VIOLATION

    def key(self):
        return (self.rule, self.construct)


def norm_src(node) -> str:
    """Normalised text of an AST node (formatting-independent)."""
    if isinstance(node, str):
        return re.sub(r"\s+", " ", node).strip()
    return ast.unparse(node)


class Collector:
    def __init__(self, prop: str):
        self.prop = prop
        self.obs: List[Ob] = []
        self.counts: Dict[str, int] = {}
        self.floors: List[tuple] = []
        self.notes: List[str] = []
        self.undecided_msgs: List[str] = []

    def undecided(self, msg: str):
        """A construct the rule cannot decide: analysis error (exit 2) unless the run has violations to report."""
        self.undecided_msgs.append(msg)

    def add(self, ob: Ob):
        self.obs.append(ob)
        return ob

    def ob(self, rule, clause, construct, ok, msg="", file="", line=0, sample=None,
           nontrivial=True):
        return self.add(Ob(rule, clause, construct, bool(ok), msg, file, line, sample,
                           nontrivial))

    def count(self, name: str, n: int = 1):
        self.counts[name] = self.counts.get(name, 0) + n

    def floor(self, name: str, actual: int, minimum: int):
        """Instance floor: fewer analysed instances than confirmed by hand => exit 2."""
        self.floors.append((name, actual, minimum))
        self.counts[name] = actual

    def note(self, s: str):
        self.notes.append(s)


def load_known(path=None) -> List[dict]:
    path = path or os.path.join(VERIF, "known_findings.json")
    if not os.path.exists(path):
        return []
    with open(path) as f:
        data = json.load(f)
    return data.get("findings", [])


def classify(col: Collector):
    """Split failed obligations into (violations, known-finding hits)."""
    prop = col.prop
    known = [k for k in load_known() if k.get("property") == prop]
    known_keys = {(k["rule"], k["construct"]): k for k in known if k.get("status") == "known"}
    failed = [o for o in col.obs if not o.ok]
    violations = []
    known_hits = []
    seen = set()
    for o in failed:
        if o.key() in seen:
            continue
        seen.add(o.key())
        if o.key() in known_keys:
            known_hits.append(o)
        else:
            violations.append(o)
    return violations, known_hits, known_keys


def finish(col: Collector, tier: str, seed: int, t0: float, meta: dict) -> int:
    """Print the report, write evidence, return the exit code."""
    from .model import AnalysisError

    prop = col.prop
    violations, known_hits, known_keys = classify(col)
    for name, actual, minimum in col.floors:
        if actual < minimum:
            msg = f"instance floor: {name} analysed {actual} < {minimum} confirmed by hand"
            if not violations:
                raise AnalysisError(msg)
            # an anchor vanished *and* a rule fired: report the violation, mention the floor
            print(f"FLOOR: {msg}")
    if col.undecided_msgs and not violations:
        raise AnalysisError("undecided construct(s): " + "; ".join(col.undecided_msgs[:3]))
    for m in col.undecided_msgs[:5]:
        print(f"UNDECIDED: {m}")
    evdir = os.path.join(VERIF, "evidence")
    os.makedirs(evdir, exist_ok=True)
    for o in known_hits:
        k = known_keys[o.key()]
        print(f"KNOWN-FINDING: property={prop} {o.rule}/{o.clause} {o.construct} :: {k.get('what', o.msg)}")
    replay_path = os.path.join(evdir, "violations", f"{prop}.json")
    if violations:
        os.makedirs(os.path.dirname(replay_path), exist_ok=True)
        with open(replay_path, "w") as f:
            json.dump(
                [
                    dict(property=prop, rule=o.rule, clause=o.clause, construct=o.construct,
                         file=o.file, line=o.line, message=o.msg, sample=o.sample)
                    for o in violations
                ],
                f, indent=1, default=str,
            )
        for o in violations:
            print(f"{o.file}:{o.line}: [{o.rule}/{o.clause}] {o.construct}: {o.msg}")
            print(f"VIOLATION property={prop} replay={replay_path}")
    elif os.path.exists(replay_path):
        os.remove(replay_path)
    for n in col.notes:
        print("NOTE " + n)
    # evidence
    allkeys = {o.key() for o in col.obs}
    nontrivial = {o.key() for o in col.obs if o.nontrivial}
    by_clause: Dict[str, Dict[str, int]] = {}
    for o in col.obs:
        d = by_clause.setdefault(f"{o.rule}/{o.clause}", dict(obligations=0, discharged=0))
        d["obligations"] += 1
        d["discharged"] += 1 if o.ok else 0
    samples = []
    seen_clause = {}
    for o in col.obs:
        c = f"{o.rule}/{o.clause}"
        if seen_clause.get(c, 0) >= 3 or not o.nontrivial:
            continue
        seen_clause[c] = seen_clause.get(c, 0) + 1
        samples.append(dict(clause=c, construct=o.construct, ok=o.ok, where=f"{o.file}:{o.line}",
                            detail=o.sample if o.sample is not None else o.msg))
    ev = dict(
        property_id=prop,
        tier=tier,
        seed=seed,
        level="other",
        coverage=dict(
            explanation=meta.get("explanation", ""),
            obligations=len(col.obs),
            discharged=sum(1 for o in col.obs if o.ok),
            evaluations=len(col.obs),
            distinct_nontrivial=len(nontrivial),
            rule=meta.get(
                "rule",
                "one obligation per (rule family, clause, construct) instance found in /repo's "
                "current source; distinct = distinct (rule, construct) keys; non-trivial = the "
                "instance offered the rule a real choice (e.g. a call site with a transposable "
                "or droppable argument, a path with an effect event)",
            ),
            samples=samples[:60],
            per_clause=by_clause,
            counts=col.counts,
            floors=[dict(name=n, analysed=a, floor=m) for n, a, m in col.floors],
            clauses_decided=meta.get("decided", []),
            clauses_not_decided=meta.get("not_decided", []),
            known_findings=[o.construct for o in known_hits],
            checker_cmd=meta.get("cmd", ""),
            trusted_base=meta.get("trusted_base", [
                "python ast parser", "call/attribute resolution model of sa/resolve.py",
                "documented semantics of the library calls named by each rule",
            ]),
            exhaustive=True,
            source_digest=meta.get("digest", ""),
            selftest=meta.get("selftest"),
        ),
        assumptions=meta.get("assumptions", []),
        wall_s=round(time.time() - t0, 3),
        violations=len(violations),
    )
    with open(os.path.join(evdir, f"{prop}.json"), "w") as f:
        json.dump(ev, f, indent=1, default=str)
    print(
        f"{prop} tier={tier}: {len(col.obs)} obligations, {sum(1 for o in col.obs if o.ok)} discharged, "
        f"{len(known_hits)} known findings, {len(violations)} violations; counts={col.counts}"
    )
    return 1 if violations else 0
