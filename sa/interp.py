"""A small interpreter over the syntax tree for decision tables (nothing from the repository is imported or run).

Some clauses are decided by tabulating what a short, branching piece of code computes at every point of a small finite grid of its
inputs and comparing the table with the documented one (a sampler's rank / world size / effective size for every mode and process
group state; a countdown update). `Interp` walks the statements of a function with concrete values for its leaves:

  * expressions are evaluated by `sa.inteval.int_eval` (integers, booleans, None, strings, comparisons, and / or / not, conditional
    expressions, min / max / abs) plus tuples, `self.<attr>` stores and calls of helper functions the caller hands in;
  * opaque leaves (`len(data_source)`, `torch.distributed.get_rank()`, argument validators) are answered by a callback;
  * statements: assignments (names, attribute chains, tuples, chained, augmented, annotated), if / elif / else, while (bounded),
    for over `range`, return, raise, assert, pass; expression statements are ignored unless they call a helper.

`run(fn, env)` returns ('return', value) or ('raise', exception name); anything outside this fragment raises NotEvaluable, which the
caller reports as an undecided obligation (never as a pass)."""
from __future__ import annotations

import ast
from typing import Callable, Dict, List, Optional

from .astutil import call_name, u
from .inteval import NotEvaluable, int_eval


class _Return(Exception):
    def __init__(self, value):
        self.value = value


class Raised(Exception):
    def __init__(self, kind: str):
        self.kind = kind


class _Break(Exception):
    pass


class _Continue(Exception):
    pass


class Stopped(Exception):
    """(lenient mode) the walk met a statement it cannot interpret; `Interp.stopped_at` is that statement."""


class _Poison:
    def __repr__(self):
        return "POISON"


POISON = _Poison()


class Interp:
    def __init__(self, leaf: Optional[Callable[[ast.AST, dict], object]] = None,
                 lookup: Optional[Callable[[ast.Call], Optional[ast.FunctionDef]]] = None, max_steps: int = 20000, tensors: bool = False,
                 lenient: bool = False, effects=()):
        self.user_leaf = leaf
        self.effects = tuple(effects)  # names of calls whose expression statements are evaluated (through the leaf callback), e.g. torch.save
        # lenient: an assignment whose value is outside the fragment binds its targets to POISON (any later use of them is outside
        # the fragment); a test / loop that cannot be evaluated stops the walk with `Stopped`, keeping the environment reached so far
        self.lenient = lenient
        self.stopped_at: Optional[ast.stmt] = None
        self.tensors = tensors  # expressions over exact tensor values (sa/teval.py) instead of integers
        self.lookup = lookup
        self.steps = 0
        self.max_steps = max_steps
        self.depth = 0

    # ---- expressions ---------------------------------------------------------------------------------------------------
    def eval(self, e: ast.AST, env: dict):
        def leaf(x):
            if isinstance(x, ast.Tuple) and isinstance(x.ctx, ast.Load):
                return tuple(self.eval(el, env) for el in x.elts)
            if isinstance(x, ast.Call) and self.lookup is not None:
                fn = self.lookup(x)
                if fn is not None:
                    v = self.call(fn, x, env)
                    if v is None:
                        raise NotEvaluable("helper without a value inside an expression")
                    return v
            if self.user_leaf is not None:
                v = self.user_leaf(x, env)
                if v is not None:
                    return v
            return None
        if self.tensors:
            from .teval import teval
            return teval(e, env, leaf)
        env2 = dict(env)
        env2["__leaf__"] = leaf
        try:
            return int_eval(e, env2)
        finally:
            # (`self.<attr>` stores made by a helper called inside the expression)
            for k, v in env2.items():
                if isinstance(k, str) and k.startswith("self."):
                    env[k] = v

    def call(self, fn: ast.FunctionDef, call: ast.Call, env: dict):
        """Run helper `fn` for the call expression `call` evaluated in `env`; `self.<attr>` entries are shared with the callee."""
        if self.depth > 6:
            raise NotEvaluable("helper call depth")
        formals = [a.arg for a in fn.args.args]
        is_static = any(isinstance(d, ast.Name) and d.id == "staticmethod" for d in fn.decorator_list)
        bound_self = isinstance(call.func, ast.Attribute) and isinstance(call.func.value, ast.Name) and call.func.value.id == "self" and not is_static
        if bound_self:
            formals = formals[1:]
        if fn.args.vararg or fn.args.kwarg or any(isinstance(a, ast.Starred) for a in call.args) or any(k.arg is None for k in call.keywords):
            raise NotEvaluable("helper with * arguments")
        local = {k: v for k, v in env.items() if isinstance(k, str) and k.startswith("self.")}
        if len(call.args) > len(formals):
            raise NotEvaluable("too many arguments")
        for name, a in zip(formals, call.args):
            local[name] = self.eval(a, env)
        for k in call.keywords:
            if k.arg not in formals and k.arg not in [a.arg for a in fn.args.kwonlyargs]:
                raise NotEvaluable(f"unknown keyword {k.arg}")
            local[k.arg] = self.eval(k.value, env)
        defaults = fn.args.defaults
        all_pos = [a.arg for a in fn.args.args]
        for name, d in zip(all_pos[len(all_pos) - len(defaults):], defaults):
            if name not in local and name in formals:
                local[name] = self.eval(d, {})
        for a, d in zip(fn.args.kwonlyargs, fn.args.kw_defaults):
            if a.arg not in local and d is not None:
                local[a.arg] = self.eval(d, {})
        missing = [f for f in formals if f not in local]
        if missing:
            raise NotEvaluable(f"unbound formal {missing[0]}")
        self.depth += 1
        try:
            kind, val = self.run(fn, local)
        finally:
            self.depth -= 1
        for k, v in local.items():
            if isinstance(k, str) and k.startswith("self."):
                env[k] = v
        if kind == "raise":
            raise Raised(val)
        return val

    # ---- statements ----------------------------------------------------------------------------------------------------
    def _poison_targets(self, t: ast.AST, env: dict):
        if isinstance(t, ast.Name):
            env[t.id] = POISON
        elif isinstance(t, ast.Attribute):
            env[u(t)] = POISON
        elif isinstance(t, (ast.Tuple, ast.List)):
            for el in t.elts:
                self._poison_targets(el, env)
        elif isinstance(t, ast.Subscript):
            self._poison_targets(t.value, env)
        elif isinstance(t, ast.Starred):
            self._poison_targets(t.value, env)

    def run(self, fn: ast.FunctionDef, env: dict):
        body = fn.body
        if body and isinstance(body[0], ast.Expr) and isinstance(body[0].value, ast.Constant) and isinstance(body[0].value.value, str):
            body = body[1:]
        try:
            self.block(body, env)
        except _Return as r:
            return "return", r.value
        except Raised as r:
            return "raise", r.kind
        except Stopped:
            return "stopped", self.stopped_at
        except (ValueError, IndexError) as e:
            if not self.tensors:
                raise
            # shapes that do not broadcast / an index out of range: the tensor library raises here too
            return "raise", f"RuntimeError ({type(e).__name__}: {str(e)[:80]})"
        return "return", None

    def _store(self, t: ast.AST, v, env: dict):
        if isinstance(t, ast.Name):
            env[t.id] = v
        elif isinstance(t, ast.Attribute):
            env[u(t)] = v
        elif isinstance(t, (ast.Tuple, ast.List)):
            if not isinstance(v, tuple) or len(v) != len(t.elts):
                raise NotEvaluable("unpacking")
            for el, x in zip(t.elts, v):
                self._store(el, x, env)
        elif isinstance(t, ast.Subscript) and self.tensors and isinstance(t.value, ast.Name) and isinstance(env.get(t.value.id), list):
            i_ = self.eval(t.slice, env)
            try:
                env[t.value.id][int(i_)] = v  # (an item of a Python list: `shape[dim] = X`)
            except (IndexError, TypeError, ValueError):
                raise NotEvaluable("list item store")
        elif isinstance(t, ast.Subscript) and self.tensors and isinstance(t.value, ast.Name):
            # X[idx] = v on an exact tensor: the name is re-bound to an updated copy
            import numpy as np
            from .teval import _as_exact, _index
            base = env.get(t.value.id)
            if not isinstance(base, np.ndarray):
                raise NotEvaluable("indexed store into a non-tensor")
            idx = _index(t.slice, lambda e_: self.eval(e_, env))
            out = np.array(base, dtype=object if base.dtype != bool or not isinstance(v, (bool, np.ndarray)) else bool, copy=True)
            try:
                out[idx] = _as_exact(v) if out.dtype == object else v
            except (ValueError, IndexError, TypeError):
                raise NotEvaluable("indexed store shapes")
            env[t.value.id] = out
        else:
            raise NotEvaluable(f"store to {type(t).__name__}")

    def block(self, stmts: List[ast.stmt], env: dict):
        for st in stmts:
            self.steps += 1
            if self.steps > self.max_steps:
                raise NotEvaluable("step budget")
            if self.lenient and self.depth == 0:
                try:
                    self._stmt(st, env)
                except NotEvaluable:
                    if isinstance(st, (ast.Assign, ast.AnnAssign, ast.AugAssign)):
                        for t in (st.targets if isinstance(st, ast.Assign) else [st.target]):
                            self._poison_targets(t, env)
                        continue
                    if isinstance(st, ast.Expr):
                        continue
                    self.stopped_at = st
                    raise Stopped()
                continue
            self._stmt(st, env)

    def _stmt(self, st: ast.stmt, env: dict):
        if True:
            if isinstance(st, ast.Assign) and self.tensors and isinstance(st.value, ast.List) and len(st.targets) == 1 and isinstance(st.targets[0], ast.Name):
                env[st.targets[0].id] = [self.eval(el, env) for el in st.value.elts]  # a Python list (`parts = [first]` ... `parts.append(x)`)
            elif isinstance(st, ast.Assign) and self.tensors and isinstance(st.value, ast.BinOp) and isinstance(st.value.op, ast.Mult) \
                    and isinstance(st.value.left, ast.List) and len(st.targets) == 1 and isinstance(st.targets[0], ast.Name):
                k_ = self.eval(st.value.right, env)
                env[st.targets[0].id] = [self.eval(el, env) for el in st.value.left.elts] * int(k_)  # `shape = [1] * D`
            elif isinstance(st, ast.Assign):
                v = self.eval(st.value, env)
                for t in st.targets:
                    self._store(t, v, env)
            elif isinstance(st, ast.AnnAssign):
                if st.value is not None:
                    self._store(st.target, self.eval(st.value, env), env)
            elif isinstance(st, ast.AugAssign):
                if not isinstance(st.target, (ast.Name, ast.Attribute)) and not (self.tensors and isinstance(st.target, ast.Subscript)):
                    raise NotEvaluable("augmented store")
                load = ast.parse(u(st.target), mode="eval").body
                cur, val = self.eval(load, env), self.eval(st.value, env)
                try:
                    new = {ast.Add: lambda: cur + val, ast.Sub: lambda: cur - val, ast.Mult: lambda: cur * val,
                           ast.FloorDiv: lambda: cur // val, ast.Mod: lambda: cur % val}[type(st.op)]()
                except KeyError:
                    raise NotEvaluable(u(st)[:40])
                except ZeroDivisionError:
                    raise NotEvaluable("division by zero")
                if self.tensors and type(cur).__name__ == "ndarray" and type(new).__name__ == "ndarray" and cur.dtype == object \
                        and new.shape == cur.shape and cur.flags.writeable:
                    # `t += v` on a tensor is in place: every name bound to the same tensor sees the update
                    cur[...] = new
                    new = cur
                self._store(st.target, new, env)
            elif isinstance(st, ast.If):
                c = self.eval(st.test, env)
                if hasattr(c, "shape") and getattr(c, "size", 1) != 1:
                    raise NotEvaluable("tensor as a condition")
                self.block(st.body if c else st.orelse, env)
            elif isinstance(st, ast.While):
                n = 0
                while self.eval(st.test, env):
                    n += 1
                    if n > 1000:
                        raise NotEvaluable("loop bound")
                    try:
                        self.block(st.body, env)
                    except _Break:
                        break
                    except _Continue:
                        continue
            elif isinstance(st, ast.For) and isinstance(st.iter, ast.Call) and call_name(st.iter) == "range" and not st.orelse:
                args = [self.eval(a, env) for a in st.iter.args]
                for i in range(*args):
                    self._store(st.target, i, env)
                    try:
                        self.block(st.body, env)
                    except _Break:
                        break
                    except _Continue:
                        continue
            elif isinstance(st, ast.Break):
                raise _Break()
            elif isinstance(st, ast.Continue):
                raise _Continue()
            elif isinstance(st, ast.For) and self.tensors and not st.orelse and not (isinstance(st.iter, ast.Call) and call_name(st.iter) == "range"):
                seq = self.eval(st.iter, env)
                if type(seq).__name__ == "ndarray" and seq.ndim >= 1:
                    items = [seq[i_] for i_ in range(seq.shape[0])]  # (iterating a tensor yields its rows / 0-dimensional entries)
                elif isinstance(seq, (list, tuple)):
                    items = list(seq)
                else:
                    raise NotEvaluable("for over a non-sequence")
                for item in items:
                    self._store(st.target, item, env)
                    self.block(st.body, env)
            elif isinstance(st, ast.Return):
                raise _Return(self.eval(st.value, env) if st.value is not None else None)
            elif isinstance(st, ast.Raise):
                exc = st.exc
                name = call_name(exc) if isinstance(exc, ast.Call) else (u(exc) if exc is not None else "re-raise")
                raise Raised(name)
            elif isinstance(st, ast.Assert):
                if not self.eval(st.test, env):
                    raise Raised("AssertionError")
            elif isinstance(st, ast.Expr):
                if isinstance(st.value, ast.Call) and self.lookup is not None and self.lookup(st.value) is not None:
                    self.call(self.lookup(st.value), st.value, env)
                elif isinstance(st.value, ast.Call) and call_name(st.value) in self.effects:
                    self.eval(st.value, env)
                elif self.tensors and isinstance(st.value, ast.Call) and isinstance(st.value.func, ast.Attribute) and st.value.func.attr == "append" \
                        and isinstance(st.value.func.value, ast.Name) and isinstance(env.get(st.value.func.value.id), list) and len(st.value.args) == 1:
                    env[st.value.func.value.id].append(self.eval(st.value.args[0], env))  # a Python list of tensors (`masks.append(m)`)
                elif self.tensors and isinstance(st.value, ast.Call) and isinstance(st.value.func, ast.Attribute) \
                        and st.value.func.attr.endswith("_") and not st.value.func.attr.endswith("__") \
                        and isinstance(st.value.func.value, (ast.Name, ast.Attribute)) and u(st.value.func.value) in env:
                    # `x.clamp_min_(0)` as a statement: the tensor bound to x is updated in place
                    env[u(st.value.func.value)] = self.eval(st.value, env)
            elif isinstance(st, ast.Pass):
                return
            elif isinstance(st, ast.With) and all(isinstance(i_.context_expr, ast.Call) and call_name(i_.context_expr) in (
                    "torch.no_grad", "torch.enable_grad", "torch.inference_mode") and i_.optional_vars is None for i_ in st.items):
                self.block(st.body, env)  # (gradient modes do not change values)
            else:
                raise NotEvaluable(type(st).__name__)
