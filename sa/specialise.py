"""Partial evaluation of a function's syntax tree under a valuation of some of its option formals.

`specialise(func_node, known)` returns a deep copy in which every `if` / conditional expression whose test is decided
by `known` is replaced by the taken branch. `known` maps a formal's name to a Python constant, or to NOT_NONE (only
`is None` / `is not None` tests are decided). A formal that is re-assigned in the function is dropped from `known`
from the function's point of view only if the caller asks (`check_reassigned`). Line numbers are preserved.
"""
from __future__ import annotations

import ast
import copy
from typing import Any, Dict, Optional


class _NotNone:
    def __repr__(self):
        return "NOT_NONE"


NOT_NONE = _NotNone()
_UNK = object()


def _eval(e: ast.AST, known: Dict[str, Any]):
    if isinstance(e, ast.Constant):
        return e.value
    if isinstance(e, ast.Name):
        if e.id in known and known[e.id] is not NOT_NONE:
            return known[e.id]
        return _UNK
    if isinstance(e, ast.Attribute):
        k = ast.unparse(e)
        if k in known and known[k] is not NOT_NONE:
            return known[k]
        return _UNK
    if isinstance(e, (ast.Tuple, ast.List, ast.Set)):
        vs = [_eval(x, known) for x in e.elts]
        return _UNK if any(v is _UNK for v in vs) else tuple(vs)
    if isinstance(e, ast.UnaryOp) and isinstance(e.op, ast.Not):
        v = _eval(e.operand, known)
        return _UNK if v is _UNK else (not v)
    if isinstance(e, ast.BoolOp):
        vs = [_eval(x, known) for x in e.values]
        if isinstance(e.op, ast.And):
            if any(v is not _UNK and not v for v in vs):
                return False
            return _UNK if any(v is _UNK for v in vs) else all(vs)
        if any(v is not _UNK and v for v in vs):
            return True
        return _UNK if any(v is _UNK for v in vs) else any(vs)
    if isinstance(e, ast.Compare) and len(e.ops) == 1:
        op, l, r = e.ops[0], e.left, e.comparators[0]
        if isinstance(op, (ast.Is, ast.IsNot)) and isinstance(r, ast.Constant) and r.value is None and \
                isinstance(l, (ast.Name, ast.Attribute)) and ast.unparse(l) in known:
            isnone = known[ast.unparse(l)] is None
            return isnone if isinstance(op, ast.Is) else not isnone
        a, b = _eval(l, known), _eval(r, known)
        if a is _UNK or b is _UNK:
            return _UNK
        try:
            if isinstance(op, ast.Eq):
                return a == b
            if isinstance(op, ast.NotEq):
                return a != b
            if isinstance(op, ast.In):
                return a in b
            if isinstance(op, ast.NotIn):
                return a not in b
            if isinstance(op, ast.Lt):
                return a < b
            if isinstance(op, ast.LtE):
                return a <= b
            if isinstance(op, ast.Gt):
                return a > b
            if isinstance(op, ast.GtE):
                return a >= b
        except TypeError:
            return _UNK
    return _UNK


class _Spec(ast.NodeTransformer):
    def __init__(self, known, tests=None):
        self.known = known
        self.folded = 0
        self.tests = tests or {}  # id(copied If / IfExp) -> its test with temporaries forward-substituted

    def visit_If(self, node: ast.If):
        v = _eval(self.tests.get(id(node), node.test), self.known)
        if v is _UNK:
            self.generic_visit(node)
            return node
        self.folded += 1
        out = []
        for st in (node.body if v else node.orelse):
            r = self.visit(st)
            if isinstance(r, list):
                out.extend(r)
            elif r is not None:
                out.append(r)
        return out or [ast.copy_location(ast.Pass(), node)]

    def visit_IfExp(self, node: ast.IfExp):
        v = _eval(self.tests.get(id(node), node.test), self.known)
        if v is _UNK:
            self.generic_visit(node)
            return node
        self.folded += 1
        return self.visit(node.body if v else node.orelse)

    def visit_FunctionDef(self, node):
        # nested defs are left alone except the root
        self.generic_visit(node)
        return node


def _prune_dead(node: ast.AST):
    """After folding, statements that follow an unconditional return / raise / continue / break in the same block are dead
    (`if not flag: return a` folded under flag=False leaves `return a; <rest>`): drop them."""
    for n in ast.walk(node):
        for fld in ("body", "orelse", "finalbody"):
            block = getattr(n, fld, None)
            if isinstance(block, list) and block and isinstance(block[0], ast.stmt):
                for i, st in enumerate(block):
                    if isinstance(st, (ast.Return, ast.Raise, ast.Continue, ast.Break)):
                        del block[i + 1:]
                        break


def reassigned(func_node: ast.AST, names) -> set:
    out = set()
    for n in ast.walk(func_node):
        if isinstance(n, ast.Name) and isinstance(n.ctx, ast.Store) and n.id in names:
            out.add(n.id)
    return out


def specialise(func_node: ast.AST, known: Dict[str, Any], allow_reassigned=(), inline_tests: bool = False):
    """(specialised copy, number of folded tests). Names re-assigned in the body are refused unless listed in
    `allow_reassigned` (for `x = default if x is None`-style normalisation the caller vouches for). With `inline_tests` a
    test is decided on its expansion (temporaries forward-substituted: `flag = opt != 'x' and ...; if not flag:`)."""
    bad = reassigned(func_node, {k for k in known if "." not in k}) - set(allow_reassigned)
    if bad:
        raise ValueError(f"cannot specialise on re-assigned names {sorted(bad)}")
    memo: Dict[int, Any] = {}
    node = copy.deepcopy(func_node, memo)
    tests = {}
    if inline_tests:
        from .inline import Inliner
        inl = Inliner(func_node, keep=set(k for k in known if "." not in k))
        for n in ast.walk(func_node):
            if isinstance(n, (ast.If, ast.IfExp)) and id(n) in memo:
                tests[id(memo[id(n)])] = inl.expand(n.test)
    sp = _Spec(known, tests)
    node = sp.visit(node)
    _prune_dead(node)
    ast.fix_missing_locations(node)
    return node, sp.folded
