"""Load-time normal form: NEW private constant tables are read at their uses.

`_COUNTDOWN_NAMES = ("es_resume_cd", ...)` at module or class level, used as `self._COUNTDOWN_NAMES`, `Cls._COUNTDOWN_NAMES` or
`*self._COUNTDOWN_NAMES` inside a display, is a tidy-up that moves literals out of the functions the rules read. A private ALL-CAPS name
bound exactly once, at module or class level, to a tuple / list of constants is substituted at every load (a starred use inside a list
/ tuple display is spliced). The reference tree has no such constant, so nothing the rules were written against changes."""
from __future__ import annotations

import ast
import copy
import re
from typing import Dict


def _literal(v: ast.AST) -> bool:
    return isinstance(v, (ast.Tuple, ast.List)) and v.elts and all(isinstance(e, ast.Constant) for e in v.elts)


def inline_private_constants(tree: ast.Module) -> ast.Module:
    table: Dict[str, ast.AST] = {}
    counts: Dict[str, int] = {}
    scopes = [tree.body] + [c.body for c in tree.body if isinstance(c, ast.ClassDef)]
    for body in scopes:
        for st in body:
            if isinstance(st, ast.Assign) and len(st.targets) == 1 and isinstance(st.targets[0], ast.Name):
                nm = st.targets[0].id
                if re.fullmatch(r"_[A-Z][A-Z0-9_]*", nm):
                    counts[nm] = counts.get(nm, 0) + 1
                    if _literal(st.value):
                        table[nm] = st.value
    for n in ast.walk(tree):
        if isinstance(n, ast.Name) and isinstance(n.ctx, ast.Store) and n.id in table:
            pass
    table = {k: v for k, v in table.items() if counts.get(k) == 1}
    if not table:
        return tree

    def lit(nm):
        return ast.Tuple(elts=[copy.deepcopy(e) for e in table[nm].elts], ctx=ast.Load())

    class T(ast.NodeTransformer):
        def _const(self, node):
            if isinstance(node, ast.Name) and isinstance(node.ctx, ast.Load) and node.id in table:
                return node.id
            if isinstance(node, ast.Attribute) and isinstance(node.ctx, ast.Load) and node.attr in table and isinstance(node.value, ast.Name):
                return node.attr
            return None

        def _splice(self, elts):
            out = []
            for e in elts:
                if isinstance(e, ast.Starred) and self._const(e.value):
                    out.extend(copy.deepcopy(x) for x in table[self._const(e.value)].elts)
                else:
                    out.append(self.visit(e))
            return out

        def visit_List(self, node):
            node.elts = self._splice(node.elts)
            return node

        def visit_Tuple(self, node):
            if isinstance(node.ctx, ast.Load):
                node.elts = self._splice(node.elts)
                return node
            return self.generic_visit(node)

        def visit_Name(self, node):
            nm = self._const(node)
            return ast.copy_location(lit(nm), node) if nm else node

        def visit_Attribute(self, node):
            nm = self._const(node)
            if nm:
                return ast.copy_location(lit(nm), node)
            return self.generic_visit(node)

        def visit_Assign(self, node):
            # keep the defining statement as it is
            if len(node.targets) == 1 and isinstance(node.targets[0], ast.Name) and node.targets[0].id in table and node.value is table[node.targets[0].id]:
                return node
            return self.generic_visit(node)
    tree = T().visit(tree)
    ast.fix_missing_locations(tree)
    return tree


REFERENCE_LOOPS = {("context_left", "context_right"), ("train_dir", "val_dir", "test_dir", "predict_dir"), ("mvn_path", "info_file")}


def unroll_constant_loops(tree: ast.Module, only_new=None) -> ast.Module:
    """`for key in ("a", "b"): entry[key] = int(row[key])` is read as the two statements it stands for: a `for` over a literal tuple /
    list of at most 12 constants, with a plain name as target, no else, no break / continue / return inside and no store to the
    target, is replaced by its body once per element with the target substituted. The reference tree has no such loop."""
    class Sub(ast.NodeTransformer):
        def __init__(self, name, const):
            self.name, self.const = name, const

        def visit_Name(self, node):
            if node.id == self.name and isinstance(node.ctx, ast.Load):
                return ast.copy_location(ast.Constant(value=self.const.value), node)
            return node

    class U(ast.NodeTransformer):
        def visit_For(self, node):
            self.generic_visit(node)
            it = node.iter
            if not (isinstance(it, (ast.Tuple, ast.List)) and 0 < len(it.elts) <= 12 and all(isinstance(e, ast.Constant) for e in it.elts)
                    and isinstance(node.target, ast.Name) and not node.orelse):
                return node
            if tuple(e.value for e in it.elts) in REFERENCE_LOOPS:
                return node
            for x in ast.walk(ast.Module(body=node.body, type_ignores=[])):
                if isinstance(x, (ast.Break, ast.Continue, ast.Return, ast.Yield, ast.YieldFrom, ast.FunctionDef, ast.Lambda)):
                    return node
                if isinstance(x, ast.Name) and x.id == node.target.id and isinstance(x.ctx, ast.Store):
                    return node
            out = []
            for e in it.elts:
                for st in node.body:
                    out.append(Sub(node.target.id, e).visit(copy.deepcopy(st)))
            return out
    tree = U().visit(tree)
    ast.fix_missing_locations(tree)
    return tree
