"""Flow-sensitive reaching definitions over structured Python code (syntax-directed).

For every Name load in a function this records the set of definitions that may reach
it.  `derives(expr)` gives the transitive closure of definition values an expression
is computed from (the "derives-from" relation used by the flow rules).
"""
from __future__ import annotations

import ast
from dataclasses import dataclass, field
from typing import Dict, Iterable, List, Optional, Set, Tuple

from .astutil import u


@dataclass(eq=False)
class Def:
    name: str
    stmt: Optional[ast.AST]  # defining statement (None for parameters)
    value: Optional[ast.AST]  # expression the value comes from (None: unknown/param)
    kind: str  # param | assign | unpack | aug | item | for | with | except | import | comp | del
    slot: Optional[Tuple[int, ...]] = None  # position inside an unpacked tuple
    line: int = 0

    def __repr__(self):
        return f"<Def {self.name}@{self.line} {self.kind}{'' if self.slot is None else self.slot}>"


Env = Optional[Dict[str, frozenset]]  # None = unreachable


def _merge(a: Env, b: Env) -> Env:
    if a is None:
        return b
    if b is None:
        return a
    out = dict(a)
    for k, v in b.items():
        out[k] = out.get(k, frozenset()) | v
    # names defined on only one side keep their single-side defs (possibly-undefined ignored)
    return out


class ReachingDefs:
    def __init__(self, func_node: ast.AST, extra_params: Iterable[str] = ()):
        self.func = func_node
        self.use_defs: Dict[int, frozenset] = {}
        self.defs: List[Def] = []
        self.stmt_env_in: Dict[int, Env] = {}
        self.return_envs: List[Tuple[ast.Return, Env]] = []
        self._def_memo: Dict[tuple, Def] = {}
        env: Dict[str, frozenset] = {}
        if isinstance(func_node, (ast.FunctionDef, ast.AsyncFunctionDef, ast.Lambda)):
            a = func_node.args
            for arg in list(a.posonlyargs) + list(a.args) + list(a.kwonlyargs) + (
                    [a.vararg] if a.vararg else []) + ([a.kwarg] if a.kwarg else []):
                d = Def(arg.arg, None, None, "param", line=getattr(func_node, "lineno", 0))
                self.defs.append(d)
                env[arg.arg] = frozenset([d])
        for n in extra_params:
            d = self._mk(n, None, None, "param")
            env[n] = frozenset([d])
        self._loops: List[dict] = []
        body = func_node.body if isinstance(func_node.body, list) else [ast.Expr(value=func_node.body)]
        self.exit_env = self._block(body, env)

    def _mk(self, name, stmt, value, kind, slot=None, line=0) -> Def:
        """One Def object per (statement, name, slot, kind), however often the loop fixpoint revisits it."""
        key = (id(stmt), name, slot, kind, id(value))
        d = self._def_memo.get(key)
        if d is None:
            d = Def(name, stmt, value, kind, slot, line)
            self._def_memo[key] = d
            self.defs.append(d)
        return d

    # ------------------------------------------------------------------
    def _block(self, body: List[ast.stmt], env: Env) -> Env:
        for st in body:
            if env is None:
                # unreachable code: still record (with empty env) so lookups do not fail
                env_dead = {}
                self._stmt(st, env_dead)
                continue
            env = self._stmt(st, env)
        return env

    def _use(self, e: Optional[ast.AST], env: Dict[str, frozenset]):
        """Record reaching defs for all Name loads in expression e."""
        if e is None:
            return
        if isinstance(e, ast.Name):
            if isinstance(e.ctx, ast.Load):
                self.use_defs[id(e)] = env.get(e.id, frozenset())
            return
        if isinstance(e, (ast.ListComp, ast.SetComp, ast.GeneratorExp, ast.DictComp)):
            cenv = dict(env)
            for g in e.generators:
                self._use(g.iter, cenv)
                self._bind(g.target, g.iter, cenv, g, "comp")
                for c in g.ifs:
                    self._use(c, cenv)
            if isinstance(e, ast.DictComp):
                self._use(e.key, cenv)
                self._use(e.value, cenv)
            else:
                self._use(e.elt, cenv)
            return
        if isinstance(e, ast.Lambda):
            cenv = dict(env)
            a = e.args
            for arg in list(a.posonlyargs) + list(a.args) + list(a.kwonlyargs) + (
                    [a.vararg] if a.vararg else []) + ([a.kwarg] if a.kwarg else []):
                d = self._mk(arg.arg, e, None, "param", line=e.lineno)
                cenv[arg.arg] = frozenset([d])
            self._use(e.body, cenv)
            return
        if isinstance(e, ast.NamedExpr):
            self._use(e.value, env)
            self._bind(e.target, e.value, env, e, "assign")
            return
        for ch in ast.iter_child_nodes(e):
            if isinstance(ch, (ast.expr, ast.keyword, ast.Starred, ast.slice if hasattr(ast, "slice") else ast.expr,
                               ast.comprehension, ast.FormattedValue, ast.JoinedStr)):
                self._use(ch, env)
            elif isinstance(ch, ast.AST) and not isinstance(ch, (ast.expr_context, ast.operator, ast.unaryop,
                                                                   ast.boolop, ast.cmpop)):
                self._use(ch, env)

    def _bind(self, target: ast.AST, value: Optional[ast.AST], env: Dict[str, frozenset], stmt: ast.AST,
              kind: str, slot: Tuple[int, ...] = ()):
        if isinstance(target, ast.Name):
            d = self._mk(target.id, stmt, value, kind if not slot else "unpack", slot or None,
                    getattr(stmt, "lineno", getattr(target, "lineno", 0)))
            env[target.id] = frozenset([d])
        elif isinstance(target, (ast.Tuple, ast.List)):
            for i, t in enumerate(target.elts):
                if isinstance(t, ast.Starred):
                    self._bind(t.value, value, env, stmt, kind, slot + (i,))
                elif (isinstance(value, (ast.Tuple, ast.List)) and len(value.elts) == len(target.elts)
                      and not any(isinstance(x, ast.Starred) for x in value.elts) and not slot):
                    self._bind(t, value.elts[i], env, stmt, kind)
                else:
                    self._bind(t, value, env, stmt, kind, slot + (i,))
        elif isinstance(target, (ast.Subscript, ast.Attribute)):
            # in-place update of a container/object: weak def on the root name
            self._use(target.value, env)
            if isinstance(target, ast.Subscript):
                self._use(target.slice, env)
            root = target
            while isinstance(root, (ast.Subscript, ast.Attribute)):
                root = root.value
            if isinstance(root, ast.Name) and root.id not in ("self", "cls"):
                # (attribute state of `self` is not modelled as a redefinition of `self`)
                d = self._mk(root.id, stmt, value, "item", None, getattr(stmt, "lineno", 0))
                d.target = target  # type: ignore
                env[root.id] = env.get(root.id, frozenset()) | frozenset([d])
        elif isinstance(target, ast.Starred):
            self._bind(target.value, value, env, stmt, kind, slot)

    def _stmt(self, st: ast.stmt, env: Dict[str, frozenset]) -> Env:
        self.stmt_env_in[id(st)] = dict(env)
        if isinstance(st, ast.Assign):
            self._use(st.value, env)
            for t in st.targets:
                self._bind(t, st.value, env, st, "assign")
            return env
        if isinstance(st, ast.AnnAssign):
            if st.value is not None:
                self._use(st.value, env)
                self._bind(st.target, st.value, env, st, "assign")
            return env
        if isinstance(st, ast.AugAssign):
            self._use(st.value, env)
            # the target is read, then written
            t = st.target
            if isinstance(t, ast.Name):
                self.use_defs[id(t)] = env.get(t.id, frozenset())
                d = self._mk(t.id, st, st, "aug", None, st.lineno)
                d.prev = getattr(d, "prev", frozenset()) | env.get(t.id, frozenset())  # type: ignore
                env[t.id] = frozenset([d])
            else:
                self._bind(t, st, env, st, "item")
            return env
        if isinstance(st, ast.Expr):
            self._use(st.value, env)
            # method calls that mutate in place (x.append(v), x.update(v), x.add(v)): weak def
            v = st.value
            if isinstance(v, ast.Call) and isinstance(v.func, ast.Attribute) and isinstance(v.func.value, ast.Name) \
                    and (v.func.attr in ("append", "extend", "update", "add", "insert", "setdefault", "pop",
                                         "remove", "discard", "clear", "sort", "reverse")
                         or v.func.attr.endswith("_")):
                n = v.func.value.id
                d = self._mk(n, st, v, "item", None, st.lineno)
                env[n] = env.get(n, frozenset()) | frozenset([d])
            return env
        if isinstance(st, ast.Return):
            self._use(st.value, env)
            self.return_envs.append((st, dict(env)))
            return None
        if isinstance(st, ast.Raise):
            self._use(st.exc, env)
            self._use(st.cause, env)
            return None
        if isinstance(st, ast.Assert):
            self._use(st.test, env)
            self._use(st.msg, env)
            return env
        if isinstance(st, ast.Delete):
            for t in st.targets:
                if isinstance(t, ast.Name):
                    d = self._mk(t.id, st, None, "del", None, st.lineno)
                    env[t.id] = frozenset([d])
                else:
                    self._use(t, env)
            return env
        if isinstance(st, ast.If):
            self._use(st.test, env)
            a = self._block(st.body, dict(env))
            b = self._block(st.orelse, dict(env))
            return _merge(a, b)
        if isinstance(st, (ast.For, ast.AsyncFor, ast.While)):
            return self._loop(st, env)
        if isinstance(st, (ast.With, ast.AsyncWith)):
            for it in st.items:
                self._use(it.context_expr, env)
                if it.optional_vars is not None:
                    self._bind(it.optional_vars, it.context_expr, env, st, "with")
            return self._block(st.body, env)
        if isinstance(st, ast.Try):
            entry = dict(env)
            after_body = self._block(st.body, dict(env))
            hin = _merge(entry, after_body)
            # any statement in the body may have executed before the exception
            mid = self._all_defs_in(st.body, entry)
            hin = _merge(hin, mid)
            outs = []
            ok = self._block(st.orelse, dict(after_body)) if after_body is not None else None
            outs.append(ok)
            for h in st.handlers:
                henv = dict(hin) if hin is not None else {}
                if h.name:
                    d = self._mk(h.name, h, None, "except", None, h.lineno)
                    henv[h.name] = frozenset([d])
                self._use(h.type, henv)
                outs.append(self._block(h.body, henv))
            res: Env = None
            for o in outs:
                res = _merge(res, o)
            if st.finalbody:
                fin_in = res if res is not None else dict(hin or {})
                r2 = self._block(st.finalbody, dict(fin_in))
                return r2 if res is not None else None
            return res
        if isinstance(st, (ast.FunctionDef, ast.AsyncFunctionDef)):
            d = self._mk(st.name, st, None, "assign", None, st.lineno)
            env[st.name] = frozenset([d])
            return env
        if isinstance(st, ast.ClassDef):
            d = self._mk(st.name, st, None, "assign", None, st.lineno)
            env[st.name] = frozenset([d])
            return env
        if isinstance(st, (ast.Import, ast.ImportFrom)):
            for al in st.names:
                n = al.asname or al.name.split(".")[0]
                d = self._mk(n, st, None, "import", None, st.lineno)
                env[n] = frozenset([d])
            return env
        if isinstance(st, ast.Break):
            if self._loops:
                self._loops[-1]["break"].append(dict(env))
            return None
        if isinstance(st, ast.Continue):
            if self._loops:
                self._loops[-1]["continue"].append(dict(env))
            return None
        return env

    def _all_defs_in(self, body, entry: Dict[str, frozenset]) -> Env:
        out = dict(entry)
        ids = set()
        for st in body:
            for n in ast.walk(st):
                ids.add(id(n))
        for d in self.defs:
            if d.stmt is not None and id(d.stmt) in ids:
                out[d.name] = out.get(d.name, frozenset()) | frozenset([d])
        return out

    def _loop(self, st, env: Dict[str, frozenset]) -> Env:
        entry = dict(env)
        if isinstance(st, (ast.For, ast.AsyncFor)):
            self._use(st.iter, entry)
        cur: Env = entry
        result_after: Env = None
        for _ in range(3):  # iterate to a (practical) fixpoint
            frame = {"break": [], "continue": []}
            self._loops.append(frame)
            benv = dict(cur)
            if isinstance(st, (ast.For, ast.AsyncFor)):
                self._bind(st.target, st.iter, benv, st, "for")
            else:
                self._use(st.test, benv)
            out = self._block(st.body, benv)
            self._loops.pop()
            for c in frame["continue"]:
                out = _merge(out, c)
            nxt = _merge(cur, out)
            brk: Env = None
            for b in frame["break"]:
                brk = _merge(brk, b)
            result_after = (nxt, brk)
            if nxt is not None and cur is not None and all(nxt.get(k) == cur.get(k) for k in nxt):
                cur = nxt
                break
            cur = nxt
        nxt, brk = result_after
        normal = nxt
        infinite = isinstance(st, ast.While) and isinstance(st.test, ast.Constant) and bool(st.test.value)
        if infinite:
            normal = None
        if normal is not None and st.orelse:
            normal = self._block(st.orelse, dict(normal))
        return _merge(normal, brk)

    # ------------------------------------------------------------------
    def defs_of(self, name_node: ast.Name) -> frozenset:
        return self.use_defs.get(id(name_node), frozenset())

    def derives(self, expr: ast.AST, max_depth: int = 40, stop=None, value_flow: bool = False,
                call_summary=None) -> "Derivation":
        """Transitive closure: every Def and every expression node the value of `expr`
        may be computed from."""
        seen_defs: Set[int] = set()
        defs: List[Def] = []
        exprs: List[ast.AST] = []
        work = [(expr, 0)]

        def push_def(d: Def, depth: int):
            if id(d) in seen_defs:
                return
            seen_defs.add(id(d))
            defs.append(d)
            if stop is not None and stop(d):
                return
            if d.kind == "aug":
                work.append((d.value.value, depth + 1))
                for pd in getattr(d, "prev", ()):
                    push_def(pd, depth + 1)
            elif d.value is not None:
                if call_summary is not None and d.kind == "unpack" and isinstance(d.value, ast.Call) and d.slot:
                    args = call_summary(d.value, d.slot)
                    if args is not None:
                        for a in args:
                            work.append((a, depth + 1))
                        return
                work.append((d.value, depth + 1))

        while work:
            e, depth = work.pop()
            if e is None:
                continue
            exprs.append(e)
            if depth > max_depth:
                continue
            for n in (value_walk(e) if value_flow else ast.walk(e)):
                if isinstance(n, ast.Name) and isinstance(n.ctx, ast.Load):
                    for d in self.use_defs.get(id(n), ()):
                        push_def(d, depth)
        return Derivation(defs, exprs)


_SHAPE_DONOR_METHODS = {"new_full", "new_zeros", "new_ones", "new_empty", "new_tensor", "size", "dim", "type_as",
                        "numel", "expand_as", "view_as", "to"}
_LIKE_FUNCS = {"zeros_like", "ones_like", "full_like", "empty_like", "rand_like", "randn_like"}
_SHAPE_ATTRS = {"shape", "device", "dtype", "ndim"}


def value_walk(e: ast.AST):
    """Like ast.walk but follows only sub-expressions whose *values* flow into e's value: skips
    comparisons and boolean masks, index arguments of gather/scatter, conditions of where /
    masked_fill, the index half of topk/sort/max, and pure shape/dtype/device donors."""
    stack = [e]
    while stack:
        n = stack.pop()
        if isinstance(n, ast.Compare):
            continue
        if isinstance(n, ast.UnaryOp) and isinstance(n.op, (ast.Invert, ast.Not)):
            continue
        if isinstance(n, ast.Attribute) and n.attr in _SHAPE_ATTRS:
            continue
        if isinstance(n, ast.Subscript) and isinstance(n.value, ast.Call) and isinstance(n.value.func, ast.Attribute) \
                and n.value.func.attr in ("topk", "sort", "max", "min") and isinstance(n.slice, ast.Constant) \
                and n.slice.value == 1:
            continue
        yield n
        if isinstance(n, ast.Call):
            f = n.func
            fname = f.attr if isinstance(f, ast.Attribute) else (f.id if isinstance(f, ast.Name) else "")
            if isinstance(f, ast.Attribute):
                if fname in _SHAPE_DONOR_METHODS:
                    if fname == "to":
                        stack.append(f.value)
                    continue
                if fname in _LIKE_FUNCS:
                    continue
                recv_is_module = isinstance(f.value, ast.Name) and f.value.id in ("torch", "F", "np", "math")
                if not recv_is_module and not (isinstance(f.value, ast.Attribute) and u(f.value).startswith("torch.")):
                    stack.append(f.value)
                args = list(n.args)
                if fname in ("gather", "index_select", "take_along_dim"):
                    args = args[:1] if recv_is_module else []
                    if recv_is_module and n.args:
                        args = [n.args[0]]
                elif fname in ("scatter", "scatter_", "scatter_add", "index_put", "masked_scatter"):
                    args = args[2:] if not recv_is_module else [args[0]] + args[3:]
                elif fname in ("masked_fill", "masked_fill_"):
                    args = args[1:] if not recv_is_module else [args[0]] + args[2:]
                elif fname == "where":
                    args = args[1:] if recv_is_module else args[1:]
                elif fname in ("view", "reshape", "expand", "unsqueeze", "squeeze", "transpose", "flatten",
                               "sum", "repeat", "permute", "topk", "sort"):
                    args = [] if not recv_is_module else args[:1]
                stack.extend(args)
                stack.extend(k.value for k in n.keywords if k.arg not in ("device", "dtype", "dim", "out"))
            else:
                stack.extend(n.args)
                stack.extend(k.value for k in n.keywords)
            continue
        stack.extend(ast.iter_child_nodes(n))


@dataclass
class Derivation:
    defs: List[Def]
    exprs: List[ast.AST]

    def params(self) -> Set[str]:
        return {d.name for d in self.defs if d.kind == "param"}

    def calls(self) -> List[ast.Call]:
        out = []
        for e in self.exprs:
            for n in ast.walk(e):
                if isinstance(n, ast.Call):
                    out.append(n)
        return out

    def nodes(self):
        for e in self.exprs:
            yield from ast.walk(e)

    def names(self) -> Set[str]:
        return {d.name for d in self.defs}
