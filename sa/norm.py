"""Normal forms: polynomials over uninterpreted atoms, comparisons, ceil-division idiom."""
from __future__ import annotations

import ast
from fractions import Fraction
from typing import Callable, Dict, Optional, Tuple

Poly = Dict[Tuple[str, ...], Fraction]


def _clean(p: Poly) -> Poly:
    return {k: v for k, v in p.items() if v != 0}


def padd(a: Poly, b: Poly, sign: int = 1) -> Poly:
    out = dict(a)
    for k, v in b.items():
        out[k] = out.get(k, Fraction(0)) + sign * v
    return _clean(out)


def pmul(a: Poly, b: Poly) -> Poly:
    out: Poly = {}
    for ka, va in a.items():
        for kb, vb in b.items():
            k = tuple(sorted(ka + kb))
            out[k] = out.get(k, Fraction(0)) + va * vb
    return _clean(out)


def pconst(c) -> Poly:
    return _clean({(): Fraction(c)})


def patom(s: str) -> Poly:
    return {(s,): Fraction(1)}


def is_const(p: Poly) -> bool:
    return all(k == () for k in p)


def const_of(p: Poly) -> Optional[Fraction]:
    if is_const(p):
        return p.get((), Fraction(0))
    return None


def pstr(p: Poly) -> str:
    if not p:
        return "0"
    parts = []
    for k in sorted(p):
        c = p[k]
        mon = "*".join(k)
        if not k:
            parts.append(f"{c}")
        elif c == 1:
            parts.append(mon)
        elif c == -1:
            parts.append("-" + mon)
        else:
            parts.append(f"{c}*{mon}")
    return " + ".join(parts)


class Normalizer:
    """expr -> Poly. `rename` maps atom strings (e.g. for sibling alpha-renaming);
    `subst` maps Name ids to AST expressions to inline (single-assignment locals)."""

    def __init__(self, rename: Optional[Callable[[str], str]] = None,
                 subst: Optional[Dict[str, ast.expr]] = None, shape_noops: bool = False):
        self.rename = rename or (lambda s: s)
        self.subst = subst or {}
        self.shape_noops = shape_noops
        self._depth = 0

    def atom(self, s: str) -> Poly:
        return patom(self.rename(s))

    def poly(self, e: ast.AST) -> Poly:
        if isinstance(e, ast.Constant) and isinstance(e.value, (int, float)) and not isinstance(e.value, bool):
            try:
                return pconst(Fraction(str(e.value)))
            except (ValueError, OverflowError):
                return self.atom(repr(e.value))
        if isinstance(e, ast.Name):
            if e.id in self.subst and self._depth < 30:
                self._depth += 1
                try:
                    return self.poly(self.subst[e.id])
                finally:
                    self._depth -= 1
            return self.atom(e.id)
        if isinstance(e, ast.UnaryOp):
            if isinstance(e.op, ast.USub):
                return pmul(pconst(-1), self.poly(e.operand))
            if isinstance(e.op, ast.UAdd):
                return self.poly(e.operand)
        if isinstance(e, ast.BinOp):
            if isinstance(e.op, ast.Add):
                return padd(self.poly(e.left), self.poly(e.right))
            if isinstance(e.op, ast.Sub):
                return padd(self.poly(e.left), self.poly(e.right), -1)
            if isinstance(e.op, ast.Mult):
                return pmul(self.poly(e.left), self.poly(e.right))
            if isinstance(e.op, ast.Div):
                r = self.poly(e.right)
                c = const_of(r)
                if c is not None and c != 0:
                    return pmul(self.poly(e.left), pconst(1 / c))
                return self.atom(f"(({pstr(self.poly(e.left))})/({pstr(r)}))")
            if isinstance(e.op, ast.FloorDiv):
                return self.atom(f"(({pstr(self.poly(e.left))})//({pstr(self.poly(e.right))}))")
            if isinstance(e.op, ast.Mod):
                return self.atom(f"(({pstr(self.poly(e.left))})%({pstr(self.poly(e.right))}))")
            if isinstance(e.op, ast.Pow):
                c = const_of(self.poly(e.right))
                if c is not None and c.denominator == 1 and 0 <= c <= 4:
                    out = pconst(1)
                    base = self.poly(e.left)
                    for _ in range(int(c)):
                        out = pmul(out, base)
                    return out
                return self.atom(f"(({pstr(self.poly(e.left))})**({pstr(self.poly(e.right))}))")
        if isinstance(e, ast.Attribute):
            return self.atom(self.expr_str(e))
        if isinstance(e, ast.Call):
            return self.atom(self.expr_str(e))
        if isinstance(e, ast.Subscript):
            return self.atom(self.expr_str(e))
        return self.atom(self.expr_str(e))

    def expr_str(self, e: ast.AST) -> str:
        """Canonical text of a non-arithmetic expression; arithmetic sub-expressions are
        normalised recursively."""
        if isinstance(e, ast.Name):
            if e.id in self.subst and self._depth < 30:
                self._depth += 1
                try:
                    return "(" + pstr(self.poly(self.subst[e.id])) + ")"
                finally:
                    self._depth -= 1
            return self.rename(e.id)
        if isinstance(e, ast.Attribute):
            base = self.expr_str(e.value)
            if isinstance(e.value, (ast.BinOp, ast.UnaryOp, ast.Compare, ast.BoolOp)):
                base = "(" + base + ")"
            return self.rename(base + "." + e.attr)
        if isinstance(e, ast.Call):
            fn = self.expr_str(e.func)
            args = [self._argstr(a) for a in e.args]
            kws = sorted(f"{k.arg}={self._argstr(k.value)}" for k in e.keywords)
            return f"{fn}({', '.join(args + kws)})"
        if isinstance(e, ast.Subscript):
            return f"{self.expr_str(e.value)}[{self._argstr(e.slice)}]"
        if isinstance(e, (ast.BinOp, ast.UnaryOp)) or (
                isinstance(e, ast.Constant) and isinstance(e.value, (int, float)) and not isinstance(e.value, bool)):
            return pstr(self.poly(e))
        if isinstance(e, ast.Tuple):
            return "(" + ", ".join(self._argstr(x) for x in e.elts) + ")"
        if isinstance(e, ast.Slice):
            return ":".join("" if x is None else self._argstr(x) for x in (e.lower, e.upper, e.step))
        if isinstance(e, ast.Compare):
            return cmp_str(e, self)
        return ast.unparse(e)

    def _argstr(self, a: ast.AST) -> str:
        if isinstance(a, ast.Starred):
            return "*" + self._argstr(a.value)
        return self.expr_str(a)


def linear_equal(a: ast.AST, b: ast.AST, n: Optional[Normalizer] = None) -> bool:
    n = n or Normalizer()
    return not padd(n.poly(a), n.poly(b), -1)


def ceil_div(e: ast.AST, n: Optional[Normalizer] = None) -> Optional[Tuple[Poly, Poly]]:
    """If e is `(X + D - 1) // D` return (poly X, poly D)."""
    n = n or Normalizer()
    if isinstance(e, ast.BinOp) and isinstance(e.op, ast.FloorDiv):
        d = n.poly(e.right)
        x = padd(padd(n.poly(e.left), d, -1), pconst(1))
        return x, d
    return None


_FLIP = {ast.Lt: ast.Gt, ast.Gt: ast.Lt, ast.LtE: ast.GtE, ast.GtE: ast.LtE, ast.Eq: ast.Eq, ast.NotEq: ast.NotEq}
_OPS = {ast.Lt: "<", ast.Gt: ">", ast.LtE: "<=", ast.GtE: ">=", ast.Eq: "==", ast.NotEq: "!="}
_NEG = {"<": ">=", ">": "<=", "<=": ">", ">=": "<", "==": "!=", "!=": "=="}


def cmp_norm(left: ast.AST, op, right: ast.AST, n: Optional[Normalizer] = None) -> Tuple[str, str]:
    """Normal form of `left op right` as (`poly`, op) meaning poly op 0, with the leading
    coefficient made positive (direction canonicalised)."""
    n = n or Normalizer()
    p = padd(n.poly(left), n.poly(right), -1)
    o = _OPS.get(type(op) if not isinstance(op, type) else op)
    if o is None:
        return (pstr(p), type(op).__name__)
    if p:
        lead = p[sorted(p)[-1]] if any(k for k in p) else p[()]
        ks = [k for k in sorted(p) if k]
        lead = p[ks[0]] if ks else p[()]
        if lead < 0:
            p = pmul(pconst(-1), p)
            o = {"<": ">", ">": "<", "<=": ">=", ">=": "<=", "==": "==", "!=": "!="}[o]
    return (pstr(p), o)


def cmp_str(e: ast.Compare, n: Optional[Normalizer] = None) -> str:
    parts = []
    left = e.left
    for op, right in zip(e.ops, e.comparators):
        if type(op) in _OPS:
            p, o = cmp_norm(left, op, right, n)
            parts.append(f"[{p} {o} 0]")
        else:
            nn = n or Normalizer()
            parts.append(f"[{nn.expr_str(left)} {type(op).__name__} {nn.expr_str(right)}]")
        left = right
    return " & ".join(parts)


def negate_cmp(c: Tuple[str, str]) -> Tuple[str, str]:
    return (c[0], _NEG.get(c[1], "!" + c[1]))
