"""A small interpreter for plain-data Python over the syntax tree (nothing from the repository is imported or run).

Some clauses are about what a short piece of ordinary Python - dictionaries, lists, loops, a generator - produces for every input
of a small grid: which batches a bucketing sampler yields, how many it reports, which rows a writer emits. Recognising the code's
spelling (setdefault vs get-and-insert, items() vs sorted keys) is brittle; interpreting it is not. `PyInterp` walks the statements of a
function with concrete values:

  values       int / Fraction / float / bool / None / str / tuple / list / dict / set, `Obj` (an attribute bag, e.g. `self`), closures of
               lambdas, and whatever the caller's `leaf` callback returns for opaque expressions
  expressions  constants, names, attributes of `Obj`, arithmetic, comparisons (in / is included), and / or / not, conditional
               expressions, subscripts and slices, displays, comprehensions, generator expressions (as lists), lambdas, f-strings,
               calls of a whitelist of builtins and of list / dict / set / str methods, calls of functions the caller hands in (`lookup`)
  statements   assignments (names, attributes of `Obj`, subscripts, unpacking, augmented, annotated), if, for (else), while, break,
               continue, return, yield (collected: a generator function returns the list of what it yields), raise, assert, del,
               try / except by exception name, pass, expression statements

`run(fn, env)` returns ('return', value) - for a generator ('return', [yielded values...]) - or ('raise', exception name). Anything
outside the fragment raises NotEvaluable: the caller reports the clause as undecided, never as passed."""
from __future__ import annotations

import ast
import copy
from fractions import Fraction
from typing import Callable, Dict, List, Optional

from .astutil import call_name, u
from .inteval import NotEvaluable


class Obj:
    """An attribute bag (`self`)."""

    def __init__(self, **attrs):
        self.__dict__["attrs"] = dict(attrs)

    def __repr__(self):
        return f"Obj({self.attrs})"


class LineStream:
    """An open text file as the readers see it: iterating consumes lines, a second loop continues where the first one stopped;
    `read()` returns what is left."""

    def __init__(self, lines):
        self.lines, self.pos = list(lines), 0

    def __iter__(self):
        return self

    def __next__(self):
        if self.pos >= len(self.lines):
            raise StopIteration
        self.pos += 1
        return self.lines[self.pos - 1]

    def read(self):
        out = "".join(self.lines[self.pos:])
        self.pos = len(self.lines)
        return out

    def readline(self):
        try:
            return next(self)
        except StopIteration:
            return ""


_MODULES = {}


def _stdlib(name):
    """`re` and `math` of the standard library (not code of the analysed repository): a whitelist of their functions may be called."""
    if not _MODULES:
        import math
        import re
        _MODULES.update({"re": (re, {"compile", "match", "search", "fullmatch", "sub", "split", "findall", "finditer", "escape", "VERBOSE", "X", "I",
                                     "IGNORECASE", "M", "MULTILINE", "S", "DOTALL"}),
                         "math": (math, {"log", "log10", "log2", "log1p", "exp", "sqrt", "floor", "ceil", "e", "pi", "inf", "nan", "isnan", "isinf",
                                         "isfinite", "fabs", "pow", "trunc"})})
    return _MODULES.get(name)


class _Module:
    def __init__(self, mod, allowed):
        self.mod, self.allowed = mod, allowed


class Closure:
    def __init__(self, node, env, interp):
        self.node, self.env, self.interp = node, env, interp

    def __call__(self, *args, **kwargs):
        a = self.node.args
        names = [x.arg for x in a.args]
        local = dict(self.env)
        if len(args) > len(names) or a.vararg or a.kwarg:
            raise NotEvaluable("lambda arguments")
        for n_, v_ in zip(names, args):
            local[n_] = v_
        for k_, v_ in kwargs.items():
            local[k_] = v_
        for n_, d_ in zip(names[len(names) - len(a.defaults):], a.defaults):
            if n_ not in local or (n_ not in kwargs and names.index(n_) >= len(args)):
                local.setdefault(n_, self.interp.eval(d_, self.env))
        if isinstance(self.node, ast.Lambda):
            return self.interp.eval(self.node.body, local)
        kind, val = self.interp.run(self.node, local)
        if kind == "raise":
            raise Raised(val)
        return val


class _Return(Exception):
    def __init__(self, value):
        self.value = value


class _Break(Exception):
    pass


class _Continue(Exception):
    pass


class Raised(Exception):
    def __init__(self, kind: str, message: str = ""):
        self.kind, self.message = kind, message


_EXC_PARENTS = {"KeyError": ("LookupError", "Exception"), "IndexError": ("LookupError", "Exception"), "ValueError": ("Exception",),
                "TypeError": ("Exception",), "RuntimeError": ("Exception",), "ZeroDivisionError": ("ArithmeticError", "Exception"),
                "AssertionError": ("Exception",), "StopIteration": ("Exception",), "AttributeError": ("Exception",),
                "NotImplementedError": ("RuntimeError", "Exception"), "IOError": ("OSError", "Exception"), "OSError": ("Exception",),
                "FileNotFoundError": ("OSError", "IOError", "Exception"), "UnicodeDecodeError": ("ValueError", "Exception")}

_PLAIN = (int, float, Fraction, bool, str, type(None), tuple, list, dict, set, frozenset, range)

_LIST_METHODS = {"append", "extend", "pop", "insert", "index", "count", "sort", "reverse", "copy", "remove", "clear"}
_DICT_METHODS = {"get", "setdefault", "pop", "items", "keys", "values", "update", "copy", "clear", "popitem"}
_SET_METHODS = {"add", "discard", "remove", "union", "intersection", "difference", "copy", "update", "issubset", "issuperset", "pop", "clear",
                "intersection_update", "difference_update", "symmetric_difference", "isdisjoint"}
_STR_METHODS = {"split", "strip", "lstrip", "rstrip", "join", "startswith", "endswith", "format", "lower", "upper", "replace", "find", "rfind",
                "index", "rindex", "count", "isdigit", "isspace", "partition", "rpartition", "rsplit", "splitlines", "title", "zfill", "isalpha", "isalnum",
                "ljust", "rjust", "center", "encode"}
_TUPLE_METHODS = {"index", "count"}


class PyInterp:
    def __init__(self, leaf: Optional[Callable[[ast.AST, dict], object]] = None,
                 lookup: Optional[Callable[[ast.Call], Optional[ast.AST]]] = None, max_steps: int = 200000,
                 classes: Optional[Dict[str, ast.ClassDef]] = None, module_globals: Optional[Dict[str, ast.AST]] = None):
        self.leaf, self.lookup = leaf, lookup
        self.classes = dict(classes or {})  # plain classes of the analysed module that may be instantiated (`_AltTree()`)
        # module-level constants (`TEXTTIER = "TextTier"`, `OOTEXTFILE = re.compile(...)`): name -> defining expression, evaluated on first use
        self.module_globals = dict(module_globals or {})
        self._global_values: Dict[str, object] = {}
        self.steps, self.max_steps = 0, max_steps
        self.depth = 0

    # ---- helpers -------------------------------------------------------------------------------------------------------
    def _tick(self):
        self.steps += 1
        if self.steps > self.max_steps:
            raise NotEvaluable("step budget")

    def _builtin(self, name: str):
        def _sorted(it, key=None, reverse=False):
            return sorted(it, key=key, reverse=reverse)

        def _isinstance(v, t):
            return isinstance(v, t)

        def _sum(it, start=0):
            tot = start
            for x in it:
                tot = tot + x
            return tot
        table = {"len": len, "sorted": _sorted, "range": range, "enumerate": lambda it, start=0: list(enumerate(it, start)),
                 "zip": lambda *its: list(zip(*its)), "min": min, "max": max, "sum": _sum, "int": int, "list": list, "dict": dict, "tuple": tuple,
                 "set": set, "frozenset": frozenset, "str": str, "bool": bool, "abs": abs, "any": any, "all": all, "reversed": lambda it: list(reversed(it)),
                 "float": float, "isinstance": _isinstance, "repr": repr, "divmod": divmod, "round": round, "iter": lambda it: list(it),
                 "map": lambda f_, *its: [f_(*xs) for xs in zip(*its)], "filter": lambda f_, it: [x for x in it if (f_(x) if f_ is not None else x)],
                 "next": None, "print": lambda *a, **k: None}
        return table.get(name)

    # ---- expressions ---------------------------------------------------------------------------------------------------
    def eval(self, e: ast.AST, env: dict):
        self._tick()
        if self.leaf is not None:
            v = self.leaf(e, env)
            if v is not None:
                return v
        if isinstance(e, ast.Constant):
            return e.value
        if isinstance(e, ast.Name):
            if e.id in env:
                return env[e.id]
            if e.id in ("True", "False", "None"):
                return {"True": True, "False": False, "None": None}[e.id]
            if e.id in self._global_values:
                return self._global_values[e.id]
            if e.id in self.module_globals:
                v = self.eval(self.module_globals[e.id], {})
                self._global_values[e.id] = v
                return v
            if _stdlib(e.id) is not None:
                return _Module(*_stdlib(e.id))
            if e.id in ("int", "str", "float", "bool", "list", "dict", "tuple", "set"):
                return {"int": int, "str": str, "float": float, "bool": bool, "list": list, "dict": dict, "tuple": tuple, "set": set}[e.id]
            raise NotEvaluable(f"unbound name {e.id}")
        if isinstance(e, ast.Attribute):
            base = self.eval(e.value, env)
            if isinstance(base, Obj):
                if e.attr in base.attrs:
                    return base.attrs[e.attr]
                cls = base.__dict__.get("cls")
                if cls is not None:
                    # a read-only property of a plain class of the module
                    fn = next((st for st in cls.body if isinstance(st, ast.FunctionDef) and st.name == e.attr
                               and any(isinstance(d, ast.Name) and d.id == "property" for d in st.decorator_list)), None)
                    if fn is not None:
                        return self.call_function(fn, [base], {})
                raise NotEvaluable(f"attribute {e.attr} of the object is not modelled")
            if isinstance(base, _Module):
                if e.attr in base.allowed:
                    return getattr(base.mod, e.attr)
                raise NotEvaluable(f"`{u(e)[:40]}` is not on the whitelist")
            raise NotEvaluable(f"attribute `{u(e)[:40]}`")
        if isinstance(e, (ast.Tuple, ast.List, ast.Set)):
            out = []
            for el in e.elts:
                if isinstance(el, ast.Starred):
                    out.extend(self.eval(el.value, env))
                else:
                    out.append(self.eval(el, env))
            return tuple(out) if isinstance(e, ast.Tuple) else (out if isinstance(e, ast.List) else set(out))
        if isinstance(e, ast.Dict):
            d = {}
            for k, v in zip(e.keys, e.values):
                if k is None:
                    d.update(self.eval(v, env))
                else:
                    d[self.eval(k, env)] = self.eval(v, env)
            return d
        if isinstance(e, ast.UnaryOp):
            v = self.eval(e.operand, env)
            if isinstance(e.op, ast.Not):
                return not v
            if isinstance(e.op, ast.USub):
                return -v
            if isinstance(e.op, ast.UAdd):
                return +v
            raise NotEvaluable("~")
        if isinstance(e, ast.BoolOp):
            out = None
            for v in e.values:
                out = self.eval(v, env)
                if (isinstance(e.op, ast.And) and not out) or (isinstance(e.op, ast.Or) and out):
                    return out
            return out
        if isinstance(e, ast.BinOp):
            a, b = self.eval(e.left, env), self.eval(e.right, env)
            if not isinstance(a, _PLAIN) or not isinstance(b, _PLAIN):
                raise NotEvaluable("arithmetic on opaque values")
            try:
                if isinstance(e.op, ast.Add):
                    return a + b
                if isinstance(e.op, ast.Sub):
                    return a - b
                if isinstance(e.op, ast.Mult):
                    return a * b
                if isinstance(e.op, ast.FloorDiv):
                    return a // b
                if isinstance(e.op, ast.Mod):
                    return a % b
                if isinstance(e.op, ast.Div):
                    return a / b  # (as the language does: two integers give a float)
                if isinstance(e.op, ast.Pow):
                    return a ** b
                if isinstance(e.op, ast.BitAnd):
                    return a & b
                if isinstance(e.op, ast.BitOr):
                    return a | b
                if isinstance(e.op, ast.BitXor):
                    return a ^ b
            except ZeroDivisionError:
                raise Raised("ZeroDivisionError")
            except TypeError:
                raise Raised("TypeError")
            raise NotEvaluable(type(e.op).__name__)
        if isinstance(e, ast.Compare):
            left = self.eval(e.left, env)
            for op, r in zip(e.ops, e.comparators):
                right = self.eval(r, env)
                try:
                    ok = {ast.Eq: lambda: left == right, ast.NotEq: lambda: left != right, ast.Lt: lambda: left < right,
                          ast.LtE: lambda: left <= right, ast.Gt: lambda: left > right, ast.GtE: lambda: left >= right,
                          ast.Is: lambda: left is right, ast.IsNot: lambda: left is not right, ast.In: lambda: left in right,
                          ast.NotIn: lambda: left not in right}[type(op)]()
                except TypeError:
                    raise Raised("TypeError")
                if not ok:
                    return False
                left = right
            return True
        if isinstance(e, ast.IfExp):
            return self.eval(e.body if self.eval(e.test, env) else e.orelse, env)
        if isinstance(e, ast.Subscript):
            base = self.eval(e.value, env)
            if isinstance(e.slice, ast.Slice):
                lo, hi, st = (self.eval(x, env) if x is not None else None for x in (e.slice.lower, e.slice.upper, e.slice.step))
                if not isinstance(base, (list, tuple, str, range)):
                    raise NotEvaluable("slice of an opaque value")
                return base[lo:hi:st]
            idx = self.eval(e.slice, env)
            from collections.abc import Mapping as _Mapping
            if not isinstance(base, (list, tuple, str, dict, range, _Mapping)):
                raise NotEvaluable("subscript of an opaque value")
            try:
                return base[idx]
            except KeyError:
                raise Raised("KeyError")
            except IndexError:
                raise Raised("IndexError")
            except TypeError:
                raise Raised("TypeError")
        if isinstance(e, (ast.ListComp, ast.SetComp, ast.GeneratorExp, ast.DictComp)):
            out = []

            def rec(i, env_):
                if i == len(e.generators):
                    if isinstance(e, ast.DictComp):
                        out.append((self.eval(e.key, env_), self.eval(e.value, env_)))
                    else:
                        out.append(self.eval(e.elt, env_))
                    return
                g = e.generators[i]
                for item in self._iterate(self.eval(g.iter, env_)):
                    env2 = dict(env_)
                    self._store(g.target, item, env2)
                    if all(self.eval(c, env2) for c in g.ifs):
                        rec(i + 1, env2)
            rec(0, env)
            if isinstance(e, ast.SetComp):
                return set(out)
            if isinstance(e, ast.DictComp):
                return dict(out)
            return out
        if isinstance(e, ast.Lambda):
            return Closure(e, env, self)
        if isinstance(e, ast.JoinedStr):
            parts = []
            for v in e.values:
                if isinstance(v, ast.Constant):
                    parts.append(str(v.value))
                elif isinstance(v, ast.FormattedValue):
                    val = self.eval(v.value, env)
                    spec = self.eval(v.format_spec, env) if v.format_spec is not None else ""
                    if v.conversion == ord("r"):
                        val = repr(val)
                    elif v.conversion == ord("s"):
                        val = str(val)
                    try:
                        parts.append(format(val, spec))
                    except (TypeError, ValueError):
                        raise NotEvaluable("format")
            return "".join(parts)
        if isinstance(e, ast.Call):
            return self._call(e, env)
        if isinstance(e, ast.Yield) or isinstance(e, ast.YieldFrom):
            raise NotEvaluable("yield inside an expression")
        raise NotEvaluable(type(e).__name__)

    def _iterate(self, v):
        if isinstance(v, LineStream):
            return v  # (consumed lazily: a later loop continues after the line this one stopped at)
        if isinstance(v, dict):
            return list(v.keys())
        if isinstance(v, (list, tuple, set, frozenset, range, str)):
            return list(v) if not isinstance(v, (set, frozenset)) else sorted(v, key=repr)
        if isinstance(v, type({}.items())) or isinstance(v, type({}.keys())) or isinstance(v, type({}.values())):
            return list(v)
        raise NotEvaluable("iteration over an opaque value")

    def _args(self, c: ast.Call, env: dict):
        args = []
        for a in c.args:
            if isinstance(a, ast.Starred):
                args.extend(self._iterate(self.eval(a.value, env)))
            else:
                args.append(self.eval(a, env))
        kwargs = {}
        for k in c.keywords:
            if k.arg is None:
                kwargs.update(self.eval(k.value, env))
            else:
                kwargs[k.arg] = self.eval(k.value, env)
        return args, kwargs

    def _call(self, c: ast.Call, env: dict):
        f = c.func
        if self.lookup is not None:
            fn = self.lookup(c)
            if fn is not None:
                args, kwargs = self._args(c, env)
                if isinstance(f, ast.Attribute) and isinstance(f.value, ast.Name) and f.value.id == "self" and "self" in env \
                        and not any(isinstance(d, ast.Name) and d.id == "staticmethod" for d in fn.decorator_list):
                    args = [env["self"]] + args
                return self.call_function(fn, args, kwargs)
        if isinstance(f, ast.Name) and f.id in self.classes and f.id not in env:
            cls = self.classes[f.id]
            obj = Obj()
            obj.__dict__["cls"] = cls
            init = next((st for st in cls.body if isinstance(st, ast.FunctionDef) and st.name == "__init__"), None)
            args, kwargs = self._args(c, env)
            if init is not None:
                self.call_function(init, [obj] + args, kwargs)
            elif args or kwargs:
                raise NotEvaluable("constructor arguments without __init__")
            return obj
        if isinstance(f, ast.Name) and f.id == "next" and f.id not in env and c.args and isinstance(c.args[0], (ast.GeneratorExp, ast.ListComp)) \
                and len(c.args) <= 2 and not c.keywords:
            # `next(<fresh generator expression>, default)`: the first item (iterators with state of their own are not modelled)
            items = list(self._iterate(self.eval(c.args[0], env)))
            if items:
                return items[0]
            if len(c.args) == 2:
                return self.eval(c.args[1], env)
            raise Raised("StopIteration")
        if isinstance(f, ast.Name):
            if f.id in env and callable(env[f.id]):
                args, kwargs = self._args(c, env)
                return self._host_call(env[f.id], args, kwargs)
            b = self._builtin(f.id)
            if b is not None:
                args, kwargs = self._args(c, env)
                if f.id != "isinstance" and any(not isinstance(a, _PLAIN + (Closure, type, type({}.items()), type({}.keys()), type({}.values()))) and not callable(a) for a in args):
                    raise NotEvaluable(f"{f.id}() of an opaque value")
                try:
                    return b(*args, **kwargs)
                except Raised:
                    raise
                except NotEvaluable:
                    raise
                except (ValueError, TypeError, KeyError, IndexError, ZeroDivisionError) as ex:
                    raise Raised(type(ex).__name__)
            raise NotEvaluable(f"call of {f.id}")
        if isinstance(f, ast.Attribute):
            if self.leaf is not None:
                fv_ = self.leaf(f, env)  # (a modelled library function: `os.link`, `shutil.copy`)
                if callable(fv_):
                    args, kwargs = self._args(c, env)
                    return self._host_call(fv_, args, kwargs)
            base = self.eval(f.value, env)
            meth = f.attr
            ok = (isinstance(base, list) and meth in _LIST_METHODS) or (isinstance(base, dict) and meth in _DICT_METHODS) \
                or (isinstance(base, (set, frozenset)) and meth in _SET_METHODS) or (isinstance(base, str) and meth in _STR_METHODS) \
                or (isinstance(base, tuple) and meth in _TUPLE_METHODS)
            if ok:
                args, kwargs = self._args(c, env)
                try:
                    out = getattr(base, meth)(*args, **kwargs)
                except (ValueError, TypeError, KeyError, IndexError) as ex:
                    raise Raised(type(ex).__name__)
                if isinstance(out, (type({}.items()), type({}.keys()), type({}.values()))):
                    return list(out)
                return out
            if isinstance(base, Obj) and base.__dict__.get("cls") is not None and meth not in base.attrs:
                fn = next((st for st in base.__dict__["cls"].body if isinstance(st, ast.FunctionDef) and st.name == meth), None)
                if fn is not None:
                    args, kwargs = self._args(c, env)
                    return self.call_function(fn, [base] + args, kwargs)
            if isinstance(base, Obj) and meth in base.attrs and callable(base.attrs[meth]):
                args, kwargs = self._args(c, env)
                return self._host_call(base.attrs[meth], args, kwargs)
            if isinstance(base, _Module):
                if meth not in base.allowed:
                    raise NotEvaluable(f"`{u(f)[:40]}` is not on the whitelist")
                args, kwargs = self._args(c, env)
                return self._host_call(getattr(base.mod, meth), args, kwargs)
            import re as _re
            if isinstance(base, _re.Pattern) and meth in ("match", "search", "fullmatch", "findall", "finditer", "sub", "split"):
                args, kwargs = self._args(c, env)
                out = self._host_call(getattr(base, meth), args, kwargs)
                return list(out) if meth == "finditer" else out
            if isinstance(base, _re.Match) and meth in ("group", "groups", "span", "start", "end", "groupdict"):
                args, kwargs = self._args(c, env)
                return self._host_call(getattr(base, meth), args, kwargs)
            if isinstance(base, LineStream) and meth in ("read", "readline"):
                return getattr(base, meth)()
            if base is dict and meth == "fromkeys":
                args, kwargs = self._args(c, env)
                return self._host_call(dict.fromkeys, [list(self._iterate(args[0]))] + args[1:], kwargs) if args else {}
            raise NotEvaluable(f"call of `{u(f)[:40]}`")
        fv = self.eval(f, env)
        if callable(fv):
            args, kwargs = self._args(c, env)
            return self._host_call(fv, args, kwargs)
        raise NotEvaluable("call")

    @staticmethod
    def _host_call(fn, args, kwargs):
        """A call of a host-side callable (a closure of the interpreter, a whitelisted standard-library function, `float`): what it raises
        is raised in the interpreted program."""
        try:
            return fn(*args, **kwargs)
        except (Raised, NotEvaluable, _Return, _Break, _Continue):
            raise
        except (ValueError, TypeError, KeyError, IndexError, ZeroDivisionError, AttributeError, OverflowError) as ex:
            raise Raised(type(ex).__name__)

    def call_function(self, fn, args: list, kwargs: dict):
        if self.depth > 12:
            raise NotEvaluable("call depth")
        a = fn.args
        names = [x.arg for x in a.args]
        local: Dict[str, object] = {}
        if len(args) > len(names):
            if a.vararg is None:
                raise NotEvaluable("too many arguments")
            local[a.vararg.arg] = tuple(args[len(names):])
            args = args[:len(names)]
        elif a.vararg is not None:
            local[a.vararg.arg] = ()
        for n_, v_ in zip(names, args):
            local[n_] = v_
        kwonly = [x.arg for x in a.kwonlyargs]
        extra = {}
        for k_, v_ in kwargs.items():
            if k_ in names or k_ in kwonly:
                local[k_] = v_
            elif a.kwarg is not None:
                extra[k_] = v_
            else:
                raise NotEvaluable(f"unknown keyword {k_}")
        if a.kwarg is not None:
            local[a.kwarg.arg] = extra
        for n_, d_ in zip(names[len(names) - len(a.defaults):], a.defaults):
            if n_ not in local:
                local[n_] = self.eval(d_, {})
        for x, d_ in zip(a.kwonlyargs, a.kw_defaults):
            if x.arg not in local and d_ is not None:
                local[x.arg] = self.eval(d_, {})
        missing = [n_ for n_ in names + kwonly if n_ not in local]
        if missing:
            raise NotEvaluable(f"unbound formal {missing[0]}")
        self.depth += 1
        try:
            kind, val = self.run(fn, local)
        finally:
            self.depth -= 1
        if kind == "raise":
            raise Raised(val)
        return val

    # ---- statements ----------------------------------------------------------------------------------------------------
    def run(self, fn, env: dict):
        body = fn.body
        if body and isinstance(body[0], ast.Expr) and isinstance(body[0].value, ast.Constant) and isinstance(body[0].value.value, str):
            body = body[1:]
        is_gen = any(isinstance(x, (ast.Yield, ast.YieldFrom)) for st in body for x in _own_walk(st))
        yielded: List[object] = []
        env["__yield__"] = yielded
        try:
            self.block(body, env)
        except _Return as r:
            return "return", (yielded if is_gen else r.value)
        except Raised as r:
            env["__partial__"] = yielded
            return "raise", r.kind
        finally:
            env.pop("__yield__", None)
        return "return", (yielded if is_gen else None)

    def _store(self, t: ast.AST, v, env: dict):
        if isinstance(t, ast.Name):
            env[t.id] = v
        elif isinstance(t, ast.Attribute):
            base = self.eval(t.value, env)
            if not isinstance(base, Obj):
                raise NotEvaluable("attribute store on an opaque value")
            base.attrs[t.attr] = v
        elif isinstance(t, (ast.Tuple, ast.List)):
            items = self._iterate(v)
            star = [i for i, el in enumerate(t.elts) if isinstance(el, ast.Starred)]
            if star:
                i = star[0]
                after = len(t.elts) - i - 1
                if len(items) < len(t.elts) - 1:
                    raise Raised("ValueError")
                for el, x in zip(t.elts[:i], items[:i]):
                    self._store(el, x, env)
                self._store(t.elts[i].value, list(items[i:len(items) - after]), env)
                for el, x in zip(t.elts[i + 1:], items[len(items) - after:]):
                    self._store(el, x, env)
                return
            if len(items) != len(t.elts):
                raise Raised("ValueError")
            for el, x in zip(t.elts, items):
                self._store(el, x, env)
        elif isinstance(t, ast.Subscript):
            base = self.eval(t.value, env)
            if not isinstance(base, (list, dict)):
                raise NotEvaluable("subscript store on an opaque value")
            if isinstance(t.slice, ast.Slice):
                lo, hi, st = (self.eval(x, env) if x is not None else None for x in (t.slice.lower, t.slice.upper, t.slice.step))
                base[lo:hi:st] = v
                return
            try:
                base[self.eval(t.slice, env)] = v
            except IndexError:
                raise Raised("IndexError")
            except TypeError:
                raise Raised("TypeError")
        else:
            raise NotEvaluable(f"store to {type(t).__name__}")

    def block(self, stmts: List[ast.stmt], env: dict):
        for st in stmts:
            self._tick()
            self._stmt(st, env)

    def _stmt(self, st: ast.stmt, env: dict):
        if isinstance(st, ast.Assign):
            v = self._value(st.value, env)
            for t in st.targets:
                self._store(t, v, env)
        elif isinstance(st, ast.AnnAssign):
            if st.value is not None:
                self._store(st.target, self._value(st.value, env), env)
        elif isinstance(st, ast.AugAssign):
            load = copy.deepcopy(st.target)
            for x in ast.walk(load):
                if hasattr(x, "ctx"):
                    x.ctx = ast.Load()
            cur = self.eval(load, env)
            val = self.eval(st.value, env)
            if isinstance(cur, list) and isinstance(st.op, ast.Add):
                cur.extend(val)  # in place, as the language does
                return
            if isinstance(cur, set) and isinstance(st.op, (ast.BitOr, ast.BitAnd, ast.Sub)):
                if isinstance(st.op, ast.BitOr):
                    cur |= val
                elif isinstance(st.op, ast.BitAnd):
                    cur &= val
                else:
                    cur -= val
                return
            self._store(st.target, self._binop(st.op, cur, val), env)
        elif isinstance(st, ast.If):
            self.block(st.body if self.eval(st.test, env) else st.orelse, env)
        elif isinstance(st, ast.While):
            n = 0
            broke = False
            while self.eval(st.test, env):
                n += 1
                if n > 10000:
                    raise NotEvaluable("loop bound")
                try:
                    self.block(st.body, env)
                except _Break:
                    broke = True
                    break
                except _Continue:
                    continue
            if not broke:
                self.block(st.orelse, env)
        elif isinstance(st, ast.For):
            broke = False
            for item in self._iterate(self.eval(st.iter, env)):
                self._store(st.target, item, env)
                try:
                    self.block(st.body, env)
                except _Break:
                    broke = True
                    break
                except _Continue:
                    continue
            if not broke:
                self.block(st.orelse, env)
        elif isinstance(st, ast.Break):
            raise _Break()
        elif isinstance(st, ast.Continue):
            raise _Continue()
        elif isinstance(st, ast.Return):
            raise _Return(self.eval(st.value, env) if st.value is not None else None)
        elif isinstance(st, ast.Raise):
            exc = st.exc
            if exc is None:
                raise Raised(env.get("__handling__", "re-raise"))
            name = call_name(exc) if isinstance(exc, ast.Call) else u(exc)
            raise Raised(name.split(".")[-1])
        elif isinstance(st, ast.Assert):
            if not self.eval(st.test, env):
                raise Raised("AssertionError")
        elif isinstance(st, ast.Expr):
            if isinstance(st.value, (ast.Constant, ast.JoinedStr)):
                return  # (a docstring, also when written as an f-string)
            self._value(st.value, env)
        elif isinstance(st, ast.Delete):
            for t in st.targets:
                if isinstance(t, ast.Name):
                    env.pop(t.id, None)
                elif isinstance(t, ast.Subscript):
                    base = self.eval(t.value, env)
                    if not isinstance(base, (list, dict)):
                        raise NotEvaluable("del on an opaque value")
                    try:
                        if isinstance(t.slice, ast.Slice):
                            lo, hi, st_ = (self.eval(x, env) if x is not None else None for x in (t.slice.lower, t.slice.upper, t.slice.step))
                            del base[lo:hi:st_]
                        else:
                            del base[self.eval(t.slice, env)]
                    except KeyError:
                        raise Raised("KeyError")
                    except IndexError:
                        raise Raised("IndexError")
                else:
                    raise NotEvaluable("del target")
        elif isinstance(st, ast.Try):
            try:
                self.block(st.body, env)
            except Raised as r:
                for h in st.handlers:
                    names = []
                    if h.type is None:
                        names = None
                    elif isinstance(h.type, ast.Tuple):
                        names = [u(x).split(".")[-1] for x in h.type.elts]
                    else:
                        names = [u(h.type).split(".")[-1]]
                    if names is None or r.kind in names or any(p in names for p in _EXC_PARENTS.get(r.kind, ("Exception",))) or "BaseException" in names:
                        if h.name:
                            env[h.name] = r.kind
                        prev = env.get("__handling__")
                        env["__handling__"] = r.kind
                        try:
                            self.block(h.body, env)
                        finally:
                            if prev is None:
                                env.pop("__handling__", None)
                            else:
                                env["__handling__"] = prev
                        break
                else:
                    self.block(st.finalbody, env)
                    raise
            else:
                self.block(st.orelse, env)
            self.block(st.finalbody, env)
        elif isinstance(st, ast.With):
            # context managers are modelled values (answered by the leaf): entering binds the value itself, leaving does nothing
            for item in st.items:
                v = self.eval(item.context_expr, env)
                if item.optional_vars is not None:
                    self._store(item.optional_vars, v, env)
            self.block(st.body, env)
        elif isinstance(st, (ast.Pass, ast.Import, ast.ImportFrom, ast.Global, ast.Nonlocal)):
            return
        elif isinstance(st, (ast.FunctionDef,)):
            env[st.name] = Closure(st, env, self)
        else:
            raise NotEvaluable(type(st).__name__)

    def _value(self, e: ast.AST, env: dict):
        """An expression in statement position: `yield x` and `x = yield` (the sent value is None)."""
        if isinstance(e, ast.Yield):
            v = self.eval(e.value, env) if e.value is not None else None
            env["__yield__"].append(_snapshot(v))
            env.setdefault("__yield_refs__", []).append(v)
            return None
        if isinstance(e, ast.YieldFrom):
            for v in self._iterate(self.eval(e.value, env)):
                env["__yield__"].append(_snapshot(v))
                env.setdefault("__yield_refs__", []).append(v)
            return None
        return self.eval(e, env)

    @staticmethod
    def _binop(op, a, b):
        try:
            if isinstance(op, ast.Add):
                return a + b
            if isinstance(op, ast.Sub):
                return a - b
            if isinstance(op, ast.Mult):
                return a * b
            if isinstance(op, ast.FloorDiv):
                return a // b
            if isinstance(op, ast.Mod):
                return a % b
            if isinstance(op, ast.Div):
                return a / b
            if isinstance(op, ast.BitOr):
                return a | b
            if isinstance(op, ast.BitAnd):
                return a & b
            if isinstance(op, ast.Pow):
                return a ** b
        except ZeroDivisionError:
            raise Raised("ZeroDivisionError")
        except TypeError:
            raise Raised("TypeError")
        raise NotEvaluable(type(op).__name__)


def _snapshot(v):
    """A yielded value as the consumer sees it at the moment of the yield (later mutation by the generator is not included)."""
    try:
        return copy.deepcopy(v)
    except Exception:
        return v


def _own_walk(node):
    """Nodes of a statement without descending into nested function definitions / lambdas."""
    stack = [node]
    while stack:
        n = stack.pop()
        yield n
        for ch in ast.iter_child_nodes(n):
            if isinstance(ch, (ast.FunctionDef, ast.AsyncFunctionDef, ast.Lambda, ast.ClassDef)):
                continue
            stack.append(ch)
