"""Package model: parse /repo's pydrobert.torch sources into module/class/function tables.

Static only: nothing from the analysed package is imported or executed.
"""
from __future__ import annotations

import ast
import configparser
import hashlib
import os
from dataclasses import dataclass, field
from typing import Dict, List, Optional, Tuple, Union

REPO = os.environ.get("VERIF_REPO", "/repo")
PKG_REL = "src/pydrobert/torch"


class AnalysisError(Exception):
    """The checker cannot interpret the tree (anchor vanished, idiom unknown...)."""


@dataclass
class Param:
    name: str
    kind: str  # 'pos' | 'kwonly' | 'vararg' | 'kwarg'
    default: Optional[ast.expr]
    annotation: Optional[ast.expr]


@dataclass
class FuncInfo:
    module: "ModuleInfo"
    cls: Optional["ClassInfo"]
    name: str
    node: Union[ast.FunctionDef, ast.AsyncFunctionDef]
    parent: Optional["FuncInfo"] = None
    nested: Dict[str, List["FuncInfo"]] = field(default_factory=dict)

    @property
    def qualname(self) -> str:
        if self.parent is not None:
            return self.parent.qualname + ".<locals>." + self.name
        if self.cls is not None:
            return self.cls.name + "." + self.name
        return self.name

    @property
    def key(self) -> str:
        return self.module.relname + "::" + self.qualname

    @property
    def decorators(self) -> List[str]:
        return [ast.unparse(d) for d in self.node.decorator_list]

    def has_decorator(self, *names: str) -> bool:
        for d in self.node.decorator_list:
            base = d.func if isinstance(d, ast.Call) else d
            s = ast.unparse(base)
            if s in names or s.split(".")[-1] in names:
                return True
        return False

    @property
    def is_overload(self) -> bool:
        return self.has_decorator("overload")

    @property
    def is_static(self) -> bool:
        return self.has_decorator("staticmethod")

    @property
    def is_classmethod(self) -> bool:
        return self.has_decorator("classmethod")

    @property
    def params(self) -> List[Param]:
        a = self.node.args
        out: List[Param] = []
        pos = list(a.posonlyargs) + list(a.args)
        defaults = [None] * (len(pos) - len(a.defaults)) + list(a.defaults)
        for arg, d in zip(pos, defaults):
            out.append(Param(arg.arg, "pos", d, arg.annotation))
        if a.vararg:
            out.append(Param(a.vararg.arg, "vararg", None, a.vararg.annotation))
        for arg, d in zip(a.kwonlyargs, a.kw_defaults):
            out.append(Param(arg.arg, "kwonly", d, arg.annotation))
        if a.kwarg:
            out.append(Param(a.kwarg.arg, "kwarg", None, a.kwarg.annotation))
        return out

    def param(self, name: str) -> Optional[Param]:
        for p in self.params:
            if p.name == name:
                return p
        return None

    @property
    def functional_wrapper_target(self) -> Optional[str]:
        for d in self.node.decorator_list:
            if (
                isinstance(d, ast.Call)
                and ast.unparse(d.func).split(".")[-1] == "functional_wrapper"
                and d.args
                and isinstance(d.args[0], ast.Constant)
            ):
                return d.args[0].value
        return None

    @property
    def line(self) -> int:
        return self.node.lineno

    def __hash__(self):
        return id(self)

    def __eq__(self, o):
        return self is o

    def __repr__(self):
        return f"<Func {self.key}>"


@dataclass
class ClassInfo:
    module: "ModuleInfo"
    name: str
    node: ast.ClassDef
    methods: Dict[str, List[FuncInfo]] = field(default_factory=dict)
    attrs: Dict[str, ast.expr] = field(default_factory=dict)
    ann_attrs: Dict[str, ast.expr] = field(default_factory=dict)

    @property
    def key(self) -> str:
        return self.module.relname + "::" + self.name

    @property
    def bases(self) -> List[ast.expr]:
        return list(self.node.bases)

    def __hash__(self):
        return id(self)

    def __eq__(self, o):
        return self is o

    def __repr__(self):
        return f"<Class {self.key}>"


@dataclass
class ModuleInfo:
    name: str  # e.g. "_string"
    relname: str  # e.g. "_string.py"
    path: str
    source: str
    tree: ast.Module
    functions: Dict[str, List[FuncInfo]] = field(default_factory=dict)
    classes: Dict[str, ClassInfo] = field(default_factory=dict)
    imports: Dict[str, Tuple[str, Optional[str]]] = field(default_factory=dict)
    assigns: Dict[str, List[ast.expr]] = field(default_factory=dict)

    def __hash__(self):
        return id(self)

    def __eq__(self, o):
        return self is o

    def __repr__(self):
        return f"<Module {self.relname}>"


def _module_level_statements(body):
    """Yield statements at module level, looking through if/try (version guards)."""
    for st in body:
        yield st
        if isinstance(st, ast.If):
            yield from _module_level_statements(st.body)
            yield from _module_level_statements(st.orelse)
        elif isinstance(st, ast.Try):
            yield from _module_level_statements(st.body)
            for h in st.handlers:
                yield from _module_level_statements(h.body)
            yield from _module_level_statements(st.orelse)
            yield from _module_level_statements(st.finalbody)


def _collect_nested(fi: FuncInfo):
    for st in ast.walk(fi.node):
        pass
    stack = list(fi.node.body)
    while stack:
        st = stack.pop()
        if isinstance(st, (ast.FunctionDef, ast.AsyncFunctionDef)):
            sub = FuncInfo(fi.module, fi.cls, st.name, st, parent=fi)
            fi.nested.setdefault(st.name, []).append(sub)
            _collect_nested(sub)
            continue
        if isinstance(st, ast.ClassDef):
            continue
        for ch in ast.iter_child_nodes(st):
            if isinstance(ch, ast.stmt):
                stack.append(ch)
            elif isinstance(ch, (ast.ExceptHandler, ast.match_case)):
                stack.extend(ch.body)


class Package:
    def __init__(self, repo: str = None):
        self.repo = repo or REPO
        self.pkgdir = os.path.join(self.repo, PKG_REL)
        self.modules: Dict[str, ModuleInfo] = {}
        self.digest = hashlib.sha256()
        if not os.path.isdir(self.pkgdir):
            raise AnalysisError(f"package directory {self.pkgdir} missing")
        for fn in sorted(os.listdir(self.pkgdir)):
            if not fn.endswith(".py"):
                continue
            path = os.path.join(self.pkgdir, fn)
            with open(path, encoding="utf-8") as f:
                src = f.read()
            self.digest.update(fn.encode())
            self.digest.update(src.encode())
            try:
                tree = ast.parse(src, filename=path)
            except SyntaxError as e:
                raise AnalysisError(f"syntax error in {path}: {e}")
            if os.environ.get("VERIF_NO_CANON") != "1":
                from .canon import canonicalise
                tree = canonicalise(tree)
            if os.environ.get("VERIF_NO_CONSTS") != "1":
                from .consts import inline_private_constants, unroll_constant_loops
                tree = unroll_constant_loops(inline_private_constants(tree))
            if os.environ.get("VERIF_NO_HELPER_INLINING") != "1":
                from .helpers import expand_new_private_helpers
                tree = expand_new_private_helpers(tree, fn[:-3])
                if os.environ.get("VERIF_NO_CANON") != "1":
                    # (what an expansion brings in - `if not <flag argument>:` with the argument substituted - is oriented too)
                    from .canon import canonicalise
                    tree = canonicalise(tree)
            if os.environ.get("VERIF_NO_FOLD") != "1":
                from .fold import fold_new_temporaries
                tree = fold_new_temporaries(tree, fn[:-3])
            mi = ModuleInfo(fn[:-3], fn, path, src, tree)
            self.modules[mi.name] = mi
            self._index(mi)
        self.entry_points = self._entry_points()

    # ------------------------------------------------------------------
    def _index(self, mi: ModuleInfo):
        for st in _module_level_statements(mi.tree.body):
            if isinstance(st, (ast.FunctionDef, ast.AsyncFunctionDef)):
                fi = FuncInfo(mi, None, st.name, st)
                _collect_nested(fi)
                mi.functions.setdefault(st.name, []).append(fi)
            elif isinstance(st, ast.ClassDef):
                ci = ClassInfo(mi, st.name, st)
                mi.classes[st.name] = ci
                for cst in _module_level_statements(st.body):
                    if isinstance(cst, (ast.FunctionDef, ast.AsyncFunctionDef)):
                        fi = FuncInfo(mi, ci, cst.name, cst)
                        _collect_nested(fi)
                        ci.methods.setdefault(cst.name, []).append(fi)
                    elif isinstance(cst, ast.Assign):
                        for t in cst.targets:
                            if isinstance(t, ast.Name):
                                ci.attrs[t.id] = cst.value
                    elif isinstance(cst, ast.AnnAssign) and isinstance(
                        cst.target, ast.Name
                    ):
                        ci.ann_attrs[cst.target.id] = cst.annotation
                        if cst.value is not None:
                            ci.attrs[cst.target.id] = cst.value
            elif isinstance(st, ast.ImportFrom):
                for al in st.names:
                    local = al.asname or al.name
                    if st.level >= 1:
                        if st.module is None:
                            mi.imports[local] = (al.name, None)  # from . import x
                        else:
                            mi.imports[local] = (st.module, al.name)
                    else:
                        mi.imports[local] = ("<ext>" + (st.module or ""), al.name)
            elif isinstance(st, ast.Import):
                for al in st.names:
                    local = al.asname or al.name.split(".")[0]
                    mi.imports[local] = ("<ext>" + al.name, None)
            elif isinstance(st, ast.Assign):
                for t in st.targets:
                    if isinstance(t, ast.Name):
                        mi.assigns.setdefault(t.id, []).append(st.value)
            elif isinstance(st, ast.AnnAssign) and isinstance(st.target, ast.Name):
                if st.value is not None:
                    mi.assigns.setdefault(st.target.id, []).append(st.value)

    def _entry_points(self) -> Dict[str, Tuple[str, str]]:
        cfg = os.path.join(self.repo, "setup.cfg")
        out: Dict[str, Tuple[str, str]] = {}
        if not os.path.exists(cfg):
            return out
        cp = configparser.ConfigParser()
        try:
            cp.read(cfg)
            raw = cp.get("options.entry_points", "console_scripts", fallback="")
        except configparser.Error as e:
            raise AnalysisError(f"setup.cfg unreadable: {e}")
        for line in raw.splitlines():
            line = line.strip()
            if not line or "=" not in line:
                continue
            cmd, tgt = [x.strip() for x in line.split("=", 1)]
            mod, _, fn = tgt.partition(":")
            out[cmd] = (mod.split(".")[-1], fn)
        return out

    # ------------------------------------------------------------------
    def module(self, name: str) -> ModuleInfo:
        name = name[:-3] if name.endswith(".py") else name
        if name not in self.modules:
            raise AnalysisError(f"module {name} not found in package")
        return self.modules[name]

    def funcs(self, spec: str) -> List[FuncInfo]:
        """spec: 'mod::func' or 'mod::Class.method'. Returns non-overload defs."""
        mod, _, qn = spec.partition("::")
        mi = self.module(mod)
        if "." in qn:
            cn, mn = qn.split(".", 1)
            ci = mi.classes.get(cn)
            if ci is None:
                raise AnalysisError(f"anchor class {spec} not found")
            fl = ci.methods.get(mn, [])
        else:
            fl = mi.functions.get(qn, [])
        fl = [f for f in fl if not f.is_overload]
        if not fl:
            raise AnalysisError(f"anchor function {spec} not found")
        return fl

    def func(self, spec: str) -> FuncInfo:
        fl = self.funcs(spec)
        return fl[-1]

    def cls(self, spec: str) -> ClassInfo:
        mod, _, cn = spec.partition("::")
        ci = self.module(mod).classes.get(cn)
        if ci is None:
            raise AnalysisError(f"anchor class {spec} not found")
        return ci

    def all_functions(self, include_nested: bool = True):
        for mi in self.modules.values():
            for fl in mi.functions.values():
                for f in fl:
                    yield from self._with_nested(f, include_nested)
            for ci in mi.classes.values():
                for fl in ci.methods.values():
                    for f in fl:
                        yield from self._with_nested(f, include_nested)

    def _with_nested(self, f: FuncInfo, include_nested: bool):
        yield f
        if include_nested:
            for fl in f.nested.values():
                for g in fl:
                    yield from self._with_nested(g, include_nested)


def own_nodes(func_node: ast.AST):
    """Walk a function's own body without entering nested defs/classes/lambdas' scopes.

    Lambdas are entered (their bodies are expressions evaluated with the enclosing
    scope's names); nested FunctionDef/ClassDef are not.
    """
    stack = list(ast.iter_child_nodes(func_node))
    while stack:
        n = stack.pop()
        yield n
        if isinstance(n, (ast.FunctionDef, ast.AsyncFunctionDef, ast.ClassDef)):
            continue
        stack.extend(ast.iter_child_nodes(n))


def own_calls(func_node: ast.AST):
    calls = [n for n in own_nodes(func_node) if isinstance(n, ast.Call)]
    calls.sort(key=lambda c: (c.lineno, c.col_offset))
    return calls
