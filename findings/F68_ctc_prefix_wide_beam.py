import torch, itertools, warnings
warnings.filterwarnings("ignore")
from pydrobert.torch.modules import CTCPrefixSearch
def run(T,V,width,seed=0):
    torch.manual_seed(seed)
    logits=torch.randn(T,1,V+1)
    probs=logits.softmax(-1)
    y,lens,p=CTCPrefixSearch(width)(logits)
    got={}
    for k in range(width):
        L=int(lens[0,k])
        if p[0,k]>0: got[tuple(y[:L,0,k].tolist())]=got.get(tuple(y[:L,0,k].tolist()),0)+float(p[0,k])
    exp={}
    for path in itertools.product(range(V+1),repeat=T):
        pr=1.0
        for t,c in enumerate(path): pr*=float(probs[t,0,c])
        out=[];prev=None
        for c in path:
            if c!=V and c!=prev: out.append(c)
            prev=c
        exp[tuple(out)]=exp.get(tuple(out),0)+pr
    missing=[k for k in exp if abs(exp[k]-got.get(k,0))>1e-5]
    return len(exp), missing
for V in (1,2):
    for T in (3,4,5):
        for width in (2,3,4,5,6,8,10,16,22,40):
            n,miss=run(T,V,width)
            if width>=n and miss: print("V",V,"T",T,"width",width,"distinct",n,"missing/wrong",miss)
print("done")
