"""Checker self-test: single-instance mutants of a scratch copy of /repo's sources on which
a rule must fire (and name the instance), plus behaviour-preserving twins on which it must
stay silent.  Mutants are computed on the *normalised* (ast.unparse) text of a module, so they
do not depend on /repo's formatting.  Scratch copies live under tempfile.mkdtemp() and are
removed immediately.  Nothing is executed; mutants are only parsed and analysed.
"""
from __future__ import annotations

import ast
import importlib
import os
import shutil
import sys
import tempfile
from concurrent.futures import ProcessPoolExecutor
from dataclasses import dataclass, field
from typing import Dict, List, Optional, Tuple

HERE = os.path.dirname(os.path.dirname(os.path.abspath(__file__)))
if HERE not in sys.path:
    sys.path.insert(0, HERE)


@dataclass
class Mutant:
    name: str
    file: str  # module file name, e.g. "training.py"
    old: str  # snippet in ast.unparse style (statement(s) or expression text)
    new: str
    expect: str  # substring that must occur in "<rule>/<clause> <construct>" of a violation
    occurrence: int = 0  # which occurrence of `old` (0-based); -1 = all
    twin: bool = False  # behaviour-preserving: must stay silent


def _norm_snippet(s: str) -> str:
    """Normalise a snippet through ast when it parses; else collapse nothing."""
    try:
        return ast.unparse(ast.parse(s))
    except SyntaxError:
        return s


def normalised_source(path: str) -> str:
    with open(path, encoding="utf-8") as f:
        return ast.unparse(ast.parse(f.read()))


def make_scratch(repo: str) -> str:
    d = tempfile.mkdtemp(prefix="verif_mut_")
    os.makedirs(os.path.join(d, "src/pydrobert"), exist_ok=True)
    shutil.copytree(os.path.join(repo, "src/pydrobert/torch"), os.path.join(d, "src/pydrobert/torch"),
                    ignore=shutil.ignore_patterns("__pycache__"))
    if os.path.exists(os.path.join(repo, "setup.cfg")):
        shutil.copy(os.path.join(repo, "setup.cfg"), os.path.join(d, "setup.cfg"))
    return d


def _replace_block(text: str, old: str, new: str, occurrence: int) -> Optional[str]:
    """Replace a block of whole lines, matching lines modulo indentation; `new` is given with
    indentation relative to the block's first line."""
    lines = text.split("\n")
    olds = [l.strip() for l in old.strip("\n").split("\n")]
    news = new.strip("\n").split("\n") if new.strip() else []
    base_new = min((len(l) - len(l.lstrip()) for l in news if l.strip()), default=0)
    hits = []
    for i in range(len(lines) - len(olds) + 1):
        if all(lines[i + j].strip() == olds[j] for j in range(len(olds))):
            hits.append(i)
    if not hits:
        return None
    if occurrence < 0:
        targets = hits
    elif occurrence < len(hits):
        targets = [hits[occurrence]]
    else:
        return None
    for i in reversed(targets):
        ind = lines[i][: len(lines[i]) - len(lines[i].lstrip())]
        rep = [ind + l[base_new:] if l.strip() else l for l in news]
        lines[i:i + len(olds)] = rep
    return "\n".join(lines)


def apply(m: Mutant, scratch: str) -> bool:
    path = os.path.join(scratch, "src/pydrobert/torch", m.file)
    if not os.path.exists(path):
        return False
    text = normalised_source(path)
    text2 = None
    if "\n" in m.old.strip("\n") or m.old.strip() != m.old or True:
        text2 = _replace_block(text, m.old, m.new, m.occurrence)
    if text2 is None:
        # in-line (sub-expression) replacement
        old = m.old.strip()
        if old not in text:
            return False
        if m.occurrence < 0:
            text2 = text.replace(old, m.new.strip())
        else:
            idx = -1
            for _ in range(m.occurrence + 1):
                idx = text.find(old, idx + 1)
                if idx < 0:
                    return False
            text2 = text[:idx] + m.new.strip() + text[idx + len(old):]
    try:
        ast.parse(text2)
    except SyntaxError:
        return False
    if text2 == text:
        return False
    with open(path, "w", encoding="utf-8") as f:
        f.write(text2)
    return True


def run_prop_on(prop: str, repo: str):
    """Run the property's rules on `repo`; return (violations, known_hits) or raise."""
    from sa.model import Package
    from sa.resolve import Resolver
    from sa.report import Collector, classify
    from props.common import Ctx

    pkg = Package(repo)
    res = Resolver(pkg)
    col = Collector(prop)
    ctx = Ctx(pkg, res, col, "quick", prop)
    mod = importlib.import_module("props." + prop.lower())
    mod.run(ctx)
    v, k, _ = classify(col)
    from sa.model import AnalysisError
    # same policy as report.finish: floors / undecided constructs are analysis errors only without a violation
    if not v:
        for name, actual, minimum in col.floors:
            if actual < minimum:
                raise AnalysisError(f"instance floor {name}: {actual} < {minimum}")
        if col.undecided_msgs:
            raise AnalysisError("undecided: " + "; ".join(col.undecided_msgs[:2]))
    return v, k


def _one(args):
    prop, repo, m = args
    sys.dont_write_bytecode = True
    scratch = make_scratch(repo)
    try:
        if not apply(m, scratch):
            return (m.name, "not-applied", "")
        try:
            v, k = run_prop_on(prop, scratch)
        except Exception as e:  # AnalysisError or internal: the mutant broke the analysis
            return (m.name, "analysis-error", f"{type(e).__name__}: {e}")
        descs = [f"{o.rule}/{o.clause} {o.construct}" for o in v]
        if m.twin:
            if m.name.startswith("repaired:") and k:
                # a scratch copy in which a known finding is repaired: the finding itself must be gone as well
                return (m.name, "twin-fired", "known finding still reported: " + "; ".join(o.construct for o in k[:2]))
            return (m.name, "ok" if not v else "twin-fired", "; ".join(descs[:3]))
        hit = [d for d in descs if m.expect in d]
        if hit:
            return (m.name, "ok", hit[0])
        return (m.name, "missed", "; ".join(descs[:3]))
    finally:
        shutil.rmtree(scratch, ignore_errors=True)


def reformat_twin() -> Mutant:
    return Mutant("twin:reformat-all", "__all__", "", "", "", twin=True)


def run_selftest(prop: str, repo: str, mutants: List[Mutant], floor: int, jobs: int = 8) -> dict:
    """Run all mutants; return a summary dict. Raises AnalysisError if too few applied or a
    mutant is missed / a twin fires (the checker itself is then not trustworthy)."""
    from sa.model import AnalysisError

    results = []
    # whole-package reformat twin: every module replaced by its ast.unparse text
    scratch = make_scratch(repo)
    try:
        pk = os.path.join(scratch, "src/pydrobert/torch")
        for fn in os.listdir(pk):
            if fn.endswith(".py"):
                p = os.path.join(pk, fn)
                t = normalised_source(p)
                with open(p, "w") as f:
                    f.write(t)
        try:
            v, k = run_prop_on(prop, scratch)
            results.append(("twin:reformat-all", "ok" if not v else "twin-fired",
                            "; ".join(f"{o.rule}/{o.clause} {o.construct}" for o in v[:3])))
        except Exception as e:
            results.append(("twin:reformat-all", "analysis-error", str(e)))
    finally:
        shutil.rmtree(scratch, ignore_errors=True)
    results.append(rename_locals_twin(prop, repo))
    results.append(commute_twin(prop, repo))
    results.extend(mechanical_twins(prop, repo))
    results.extend(refactor_twins(prop, repo))
    if mutants:
        with ProcessPoolExecutor(max_workers=jobs) as ex:
            results.extend(ex.map(_one, [(prop, repo, m) for m in mutants]))
    applied = [r for r in results if r[1] != "not-applied"]
    bad = [r for r in results if r[1] in ("missed", "twin-fired", "analysis-error")]
    summary = dict(mutants=len(results), applied=len(applied), detected=sum(1 for r in results if r[1] == "ok"),
                   results=[dict(name=n, status=s, detail=d[:200]) for n, s, d in results])
    if bad:
        raise AnalysisError("checker self-test failed: " + "; ".join(f"{n}: {s} {d[:120]}" for n, s, d in bad))
    if len(applied) < floor:
        raise AnalysisError(f"checker self-test: only {len(applied)} of {len(results)} mutants could be applied "
                            f"(floor {floor}); anchors have moved")
    return summary


def refactor_twins(prop: str, repo: str):
    """Behaviour-preserving maintenance edits written by independent sub-agents (selftest/refactors/<prop>-refactor-<i>.diff:
    temporaries introduced / inlined, statements reordered, idioms swapped, helpers extracted; each was confirmed equivalent
    by the unedited tests and an output digest). The check must be silent on every one that still applies."""
    import glob
    import subprocess
    out = []
    here = os.path.dirname(os.path.abspath(__file__))
    for p in sorted(glob.glob(os.path.join(here, "refactors", f"{prop}-refactor-*.diff"))):
        name = "twin:" + os.path.basename(p)[:-5]
        scratch = make_scratch(repo)
        try:
            r = subprocess.run(["patch", "-p1", "-s", "--no-backup-if-mismatch", "-i", p], cwd=scratch, capture_output=True, text=True)
            if r.returncode != 0:
                out.append((name, "not-applied", "the tree has moved on"))
                continue
            try:
                v, k = run_prop_on(prop, scratch)
                out.append((name, "ok" if not v else "twin-fired", "; ".join(f"{o.rule}/{o.clause} {o.construct}" for o in v[:3])))
            except Exception as e:
                out.append((name, "analysis-error", str(e)))
        finally:
            shutil.rmtree(scratch, ignore_errors=True)
    return out


# ---------------------------------------------------------------------------------------------------
class _LocalRenamer(ast.NodeTransformer):
    """Consistently rename every local variable of every top-level function/method (alpha-renaming)."""

    def __init__(self, suffix="_r"):
        self.suffix = suffix
        self.stack = []

    def _locals(self, fn):
        params = {a.arg for a in fn.args.posonlyargs + fn.args.args + fn.args.kwonlyargs}
        if fn.args.vararg:
            params.add(fn.args.vararg.arg)
        if fn.args.kwarg:
            params.add(fn.args.kwarg.arg)
        stored, glob = set(), set()
        for n in ast.walk(fn):
            if isinstance(n, ast.Name) and isinstance(n.ctx, (ast.Store, ast.Del)):
                stored.add(n.id)
            elif isinstance(n, (ast.Global, ast.Nonlocal)):
                glob |= set(n.names)
            elif isinstance(n, (ast.FunctionDef, ast.AsyncFunctionDef, ast.Lambda)) and n is not fn:
                a = n.args
                for x in a.posonlyargs + a.args + a.kwonlyargs:
                    params.add(x.arg)  # do not rename names that are parameters of nested functions
                if a.vararg:
                    params.add(a.vararg.arg)
                if a.kwarg:
                    params.add(a.kwarg.arg)
        return {x for x in stored - params - glob if not x.startswith("__")}

    def visit_FunctionDef(self, node):
        if self.stack:
            self.generic_visit(node)
            return node
        self.stack.append(self._locals(node))
        self.generic_visit(node)
        self.stack.pop()
        return node

    visit_AsyncFunctionDef = visit_FunctionDef

    def visit_Name(self, node):
        if self.stack and node.id in self.stack[-1]:
            node.id = node.id + self.suffix
        return node


class _Commuter(ast.NodeTransformer):
    """Behaviour-preserving operand swaps: a & b -> b & a, a | b -> b | a, a == b -> b == a, a != b -> b != a,
    a < b -> b > a (and <=, >, >=), c * x -> x * c for a numeric constant c. (`+` is left alone: it also concatenates.)"""

    FLIP = {ast.Lt: ast.Gt, ast.Gt: ast.Lt, ast.LtE: ast.GtE, ast.GtE: ast.LtE, ast.Eq: ast.Eq, ast.NotEq: ast.NotEq}

    def visit_BinOp(self, node):
        self.generic_visit(node)
        if isinstance(node.op, (ast.BitAnd, ast.BitOr)):
            node.left, node.right = node.right, node.left
        elif isinstance(node.op, ast.Mult):
            lc = isinstance(node.left, ast.Constant) and isinstance(node.left.value, (int, float)) and not isinstance(node.left.value, bool)
            rc = isinstance(node.right, ast.Constant) and isinstance(node.right.value, (int, float)) and not isinstance(node.right.value, bool)
            if lc != rc:
                node.left, node.right = node.right, node.left
        return node

    def visit_Compare(self, node):
        self.generic_visit(node)
        if len(node.ops) == 1 and type(node.ops[0]) in self.FLIP:
            node.left, node.comparators[0] = node.comparators[0], node.left
            node.ops[0] = self.FLIP[type(node.ops[0])]()
        return node


def commute_twin(prop: str, repo: str):
    """Whole-package twin: commutative / symmetric operands swapped everywhere; the check must stay silent."""
    scratch = make_scratch(repo)
    try:
        pk = os.path.join(scratch, "src/pydrobert/torch")
        for fn in os.listdir(pk):
            if fn.endswith(".py"):
                p = os.path.join(pk, fn)
                with open(p, encoding="utf-8") as f:
                    tree = ast.parse(f.read())
                tree = _Commuter().visit(tree)
                ast.fix_missing_locations(tree)
                with open(p, "w") as f:
                    f.write(ast.unparse(tree))
        try:
            v, k = run_prop_on(prop, scratch)
            return ("twin:commute-operands", "ok" if not v else "twin-fired",
                    "; ".join(f"{o.rule}/{o.clause} {o.construct}" for o in v[:4]))
        except Exception as e:
            return ("twin:commute-operands", "analysis-error", f"{type(e).__name__}: {e}")
    finally:
        shutil.rmtree(scratch, ignore_errors=True)


def rename_locals_twin(prop: str, repo: str):
    """Whole-package twin: every local variable renamed; the property's check must stay silent."""
    scratch = make_scratch(repo)
    try:
        pk = os.path.join(scratch, "src/pydrobert/torch")
        for fn in os.listdir(pk):
            if fn.endswith(".py"):
                p = os.path.join(pk, fn)
                with open(p, encoding="utf-8") as f:
                    tree = ast.parse(f.read())
                tree = _LocalRenamer().visit(tree)
                ast.fix_missing_locations(tree)
                with open(p, "w", encoding="utf-8") as f:
                    f.write(ast.unparse(tree))
        try:
            v, k = run_prop_on(prop, scratch)
            return ("twin:rename-all-locals", "ok" if not v else "twin-fired",
                    "; ".join(f"{o.rule}/{o.clause} {o.construct}" for o in v[:4]))
        except Exception as e:
            return ("twin:rename-all-locals", "analysis-error", f"{type(e).__name__}: {e}")
    finally:
        shutil.rmtree(scratch, ignore_errors=True)


# ---------------------------------------------------------------------------------------------------
# Mechanical restructuring twins (whole package). Each is an exact semantic identity of Python; the unedited test suite was run
# once on each transformed tree (see DESIGN 10.3). The property's check must stay silent on all of them.
def _always_exits(body) -> bool:
    if not body:
        return False
    last = body[-1]
    if isinstance(last, (ast.Return, ast.Raise, ast.Continue, ast.Break)):
        return True
    if isinstance(last, ast.If):
        return bool(last.orelse) and _always_exits(last.body) and _always_exits(last.orelse)
    return False


def _negate(test):
    if isinstance(test, ast.UnaryOp) and isinstance(test.op, ast.Not):
        return test.operand
    return ast.UnaryOp(op=ast.Not(), operand=test)


class _IfFlipper(ast.NodeTransformer):
    """`if c: A else: B` -> `if not c: B else: A` (an elif chain becomes a nested if in the else arm first);
    `a if c else b` -> `b if not c else a`."""

    def visit_If(self, node):
        self.generic_visit(node)
        if node.orelse:
            node.test, node.body, node.orelse = _negate(node.test), node.orelse, node.body
        return node

    def visit_IfExp(self, node):
        self.generic_visit(node)
        node.test, node.body, node.orelse = _negate(node.test), node.orelse, node.body
        return node


class _GuardToElse(ast.NodeTransformer):
    """`if c: ...; return x` followed by the rest of the block  ->  `if c: ...; return x  else: <rest>` (also for raise /
    continue / break exits), in every block, innermost first. Not applied where the rest of the block re-binds a formal
    parameter or introduces an Optional-typed local: Python does not care, but TorchScript refuses to re-type a variable
    inside a branch, and the twin has to stay loadable by the library's own scripted tests (checked by running the suite on the
    transformed tree)."""

    def __init__(self):
        self.formals = [set()]

    def visit_FunctionDef(self, node):
        a = node.args
        self.formals.append({x.arg for x in a.args + a.kwonlyargs + a.posonlyargs})
        cnt = {}
        for n in ast.walk(node):
            if isinstance(n, ast.Name) and isinstance(n.ctx, ast.Store):
                cnt[n.id] = cnt.get(n.id, 0) + 1
        self.stores = getattr(self, "stores", []) + [cnt]
        r = self.generic_visit(node)
        self.formals.pop()
        self.stores.pop()
        return r

    visit_AsyncFunctionDef = visit_FunctionDef

    def _rebinding(self, rest):
        """does the rest of the block bind a name that is also bound elsewhere in the function (a formal, a loop variable, an
        earlier assignment)?"""
        here = {}
        for st in rest:
            for n in ast.walk(st):
                if isinstance(n, ast.Name) and isinstance(n.ctx, ast.Store):
                    here[n.id] = here.get(n.id, 0) + 1
                if isinstance(n, ast.AnnAssign):
                    return True
        total = self.stores[-1] if getattr(self, "stores", None) else {}
        return any(nm in self.formals[-1] or total.get(nm, 0) > c for nm, c in here.items())

    def _block(self, body):
        out = []
        for i, st in enumerate(body):
            if isinstance(st, ast.If) and not st.orelse and _always_exits(st.body) and i < len(body) - 1 \
                    and not self._rebinding(body[i + 1:]):
                rest = self._block(body[i + 1:])
                st.orelse = rest
                out.append(st)
                return out
            out.append(st)
        return out

    def generic_visit(self, node):
        super().generic_visit(node)
        for field in ("body", "orelse", "finalbody"):
            b = getattr(node, field, None)
            if isinstance(b, list) and b and isinstance(b[0], ast.stmt):
                setattr(node, field, self._block(b))
        return node


class _ElseToGuard(ast.NodeTransformer):
    """`if c: A (always exits) else: B`  ->  `if c: A` followed by B, in every block."""

    def _block(self, body):
        out = []
        for st in body:
            if isinstance(st, ast.If) and st.orelse and _always_exits(st.body):
                rest = st.orelse
                st.orelse = []
                out.append(st)
                out.extend(self._block(rest))
            else:
                out.append(st)
        return out

    def generic_visit(self, node):
        super().generic_visit(node)
        for field in ("body", "orelse", "finalbody"):
            b = getattr(node, field, None)
            if isinstance(b, list) and b and isinstance(b[0], ast.stmt):
                setattr(node, field, self._block(b))
        return node


class _TempExtractor(ast.NodeTransformer):
    """Inside functions: for a simple statement `t = f(a0, a1, k=v)` / `return f(...)` / `f(...)` whose callee is a plain dotted
    name, the leading non-trivial arguments are evaluated into fresh temporaries first, in order:
    `_x1 = a0; _x2 = a1; t = f(_x1, _x2, k=v)`. Evaluation order is unchanged (a dotted-name lookup has no effect; extraction
    stops at the first argument that cannot be moved)."""

    def __init__(self):
        self.n = 0
        self.depth = 0

    def visit_FunctionDef(self, node):
        self.depth += 1
        self.generic_visit(node)
        self.depth -= 1
        for field in ("body",):
            node.body = self._block(node.body)
        return node

    visit_AsyncFunctionDef = visit_FunctionDef

    def visit_Lambda(self, node):
        return node

    def _plain(self, e):
        while isinstance(e, ast.Attribute):
            e = e.value
        return isinstance(e, ast.Name)

    def _trivial(self, e):
        return isinstance(e, (ast.Constant, ast.Name)) or (isinstance(e, ast.Attribute) and self._plain(e)) or \
            (isinstance(e, ast.UnaryOp) and isinstance(e.operand, ast.Constant))

    def _movable(self, e):
        bad = (ast.Lambda, ast.ListComp, ast.SetComp, ast.DictComp, ast.GeneratorExp, ast.Yield, ast.YieldFrom, ast.Await,
               ast.NamedExpr, ast.Starred, ast.JoinedStr)
        return not any(isinstance(x, bad) for x in ast.walk(e))

    def _extract(self, st, call):
        pre = []
        if not (isinstance(call, ast.Call) and self._plain(call.func)):
            return pre
        slots = [("a", i) for i in range(len(call.args))] + [("k", i) for i in range(len(call.keywords))]
        for kind, i in slots:
            e = call.args[i] if kind == "a" else call.keywords[i].value
            if kind == "k" and call.keywords[i].arg is None:
                break
            if self._trivial(e):
                continue
            if not self._movable(e):
                break
            self.n += 1
            nm = f"_xt{self.n}"
            pre.append(ast.copy_location(ast.Assign(targets=[ast.Name(id=nm, ctx=ast.Store())], value=e), st))
            ref = ast.copy_location(ast.Name(id=nm, ctx=ast.Load()), e)
            if kind == "a":
                call.args[i] = ref
            else:
                call.keywords[i].value = ref
        return pre

    def _block(self, body):
        out = []
        for st in body:
            for field in ("body", "orelse", "finalbody"):
                b = getattr(st, field, None)
                if isinstance(b, list) and b and isinstance(b[0], ast.stmt) and not isinstance(st, (ast.FunctionDef, ast.AsyncFunctionDef, ast.ClassDef)):
                    setattr(st, field, self._block(b))
            if isinstance(st, ast.Try):
                for h in st.handlers:
                    h.body = self._block(h.body)
            if isinstance(st, (ast.With, ast.AsyncWith)):
                pass
            pre = []
            if isinstance(st, ast.Assign) and len(st.targets) == 1 and isinstance(st.targets[0], ast.Name):
                pre = self._extract(st, st.value)
            elif isinstance(st, ast.Return) and st.value is not None:
                pre = self._extract(st, st.value)
            elif isinstance(st, ast.Expr):
                pre = self._extract(st, st.value)
            out.extend(pre)
            out.append(st)
        return out


class _KeywordArgs(ast.NodeTransformer):
    """Calls of a module-level function of the same module by its plain name: every positional argument after the first is passed
    by keyword instead (`f(a, b, c)` -> `f(a, y=b, z=c)`), when the callee has a plain signature (no *args / positional-only) and
    the name is not re-bound in the calling function. The first argument stays positional (the natural spelling)."""

    def visit_Module(self, node):
        self.sigs = {}
        for st in node.body:
            if isinstance(st, ast.FunctionDef) and not st.args.vararg and not st.args.posonlyargs:
                # (functions wrapped by a decorator that may change the calling convention are left alone, except the library's
                # own script / functional_wrapper decorators, which keep the signature)
                decos = {ast.unparse(d).split("(")[0] for d in st.decorator_list}
                if decos <= {"script", "functional_wrapper", "torch.jit.script", "torch.jit.unused", "overload"}:
                    if "overload" in decos:
                        self.sigs.pop(st.name, None)
                        self.sigs[st.name] = None
                    elif self.sigs.get(st.name, 0) is not None:
                        self.sigs[st.name] = [a.arg for a in st.args.args]
        self.sigs = {k: v for k, v in self.sigs.items() if v}
        self.shadow = [set()]
        return self.generic_visit(node)

    def visit_FunctionDef(self, node):
        bound = {n.id for n in ast.walk(node) if isinstance(n, ast.Name) and isinstance(n.ctx, ast.Store)} | {a.arg for a in node.args.args + node.args.kwonlyargs}
        self.shadow.append(self.shadow[-1] | bound)
        r = self.generic_visit(node)
        self.shadow.pop()
        return r

    def visit_Call(self, node):
        self.generic_visit(node)
        if isinstance(node.func, ast.Name) and node.func.id in getattr(self, "sigs", {}) and node.func.id not in self.shadow[-1] \
                and not any(isinstance(a, ast.Starred) for a in node.args) and not any(k.arg is None for k in node.keywords):
            names = self.sigs[node.func.id]
            if 1 < len(node.args) <= len(names) and not ({k.arg for k in node.keywords} & set(names[:len(node.args)])):
                kws = [ast.keyword(arg=names[i], value=a) for i, a in enumerate(node.args) if i >= 1]
                node.keywords = kws + node.keywords
                node.args = node.args[:1]
        return node


def _whole_package_twin(name: str, make, prop: str, repo: str):
    scratch = make_scratch(repo)
    try:
        pk = os.path.join(scratch, "src/pydrobert/torch")
        for fn in os.listdir(pk):
            if fn.endswith(".py"):
                p = os.path.join(pk, fn)
                with open(p, encoding="utf-8") as f:
                    tree = ast.parse(f.read())
                tree = make().visit(tree)
                ast.fix_missing_locations(tree)
                with open(p, "w", encoding="utf-8") as f:
                    f.write(ast.unparse(tree))
        try:
            v, k = run_prop_on(prop, scratch)
            return (name, "ok" if not v else "twin-fired", "; ".join(f"{o.rule}/{o.clause} {o.construct}" for o in v[:4]))
        except Exception as e:
            return (name, "analysis-error", f"{type(e).__name__}: {e}")
    finally:
        shutil.rmtree(scratch, ignore_errors=True)


MECHANICAL_TWINS = [
    ("twin:flip-if-else", _IfFlipper),
    ("twin:guard-clauses-to-else", _GuardToElse),
    ("twin:else-to-guard-clauses", _ElseToGuard),
    ("twin:extract-argument-temporaries", _TempExtractor),
    ("twin:internal-calls-by-keyword", _KeywordArgs),
]


def mechanical_twins(prop: str, repo: str):
    return [_whole_package_twin(n, mk, prop, repo) for n, mk in MECHANICAL_TWINS]
